"""C09 translator (fail-closed): source of /repo + the running CPython `re` -> coq/C09/Gen_tables.v

From the snapshot:
  * the regex that Uniquifier.replace_tags really compiles (pattern text + flags, obtained by running the
    snapshot code): must be the expected template with NAMES = '|'.join(tag names); the tag names (in the
    order of the alternation) become `tag_names`;
  * literal checks on uniq.py (marker format of get_uniq, the regex of replace_uniq), on _uscan.re
    (the t_uniq rule) and on templ/scanner.py (SPLIT_PATTERN): the hand-written Gallina transcriptions
    in coq/C09/Model.v are of exactly these texts, so any edit of them aborts generation.
From the running CPython (third-party behaviour of `re`/`str`, tabulated instead of assumed):
  * \\s and \\d code point ranges; the code points that match an ASCII letter/digit of a tag name under
    re.IGNORECASE; _sre.unicode_tolower and str.lower on those."""
import _sre
import json
import os
import re

from vt import core

TEMPLATE = """
                (?P<comment> (\\n[ ]*)?<!--.*?-->([ ]*\\n)?) |
                (?:
                <(?P<tagname> NAMES)
                (?P<vlist> \\s[^<>]*)?
                (/>
                 |
                 (?<!/) >
                (?P<inner>.*?)
                </(?P=tagname)\\s*>))
            """
# the same pattern after the proposed fix (fixes/C09-ascii-tagname-fold.diff): tag names fold ASCII-only
TEMPLATE_ASCII = TEMPLATE.replace("<(?P<tagname> NAMES)", "<(?P<tagname> (?a:NAMES))")
FLAGS = re.VERBOSE | re.DOTALL | re.IGNORECASE | re.UNICODE
OPAQUE = ["nowiki", "pre", "math", "source", "syntaxhighlight", "timeline"]

UNIQ_PY_LITERALS = [
    'retval = f"\\x7fUNIQ-{name}-{count}-{rand_string}-QINU\\x7f"',
    'count = len(self.uniq2repl)',
    're.compile("\\x7fUNIQ-[a-z0-9]+-\\\\d+-[a-f0-9]+-QINU\\x7f")',
    'binascii.hexlify(rand_hex).decode("utf8")',
    'if tagname == "nowiki":\n            result["complete"] = result["inner"]',
    'return (matched_pattern.group(2) or "") + (matched_pattern.group(3) or "")',
    'tagname = tagname.lower()',
]
USCAN_RULE = '"\\X007F" "UNIQ-" [a-z0-9]+ "-" [0-9]+ "-" [0-9a-f]+ "-QINU" "\\X007f"'
SPLIT_PATTERN = r'''
({{+)                     # opening braces
|(}}+)                    # closing braces
|(\[\[|\]\])              # link
|((?:<noinclude>.*?</noinclude>)|(?:</?includeonly>))  # noinclude, comments: usually ignore
|(?P<text>(?:<nowiki>.*?</nowiki>)          # nowiki
|(?:<math>.*?</math>)
|(?:<imagemap[^<>]*>.*?</imagemap>)
|(?:<gallery[^<>]*>.*?</gallery>)
|(?:<ref[^<>]*/>)
|(?:<source[^<>]*>.*?</source>)
|(?:<pre.*?>.*?</pre>)
|(?:=)
|(?:[\[\]\|{}<])                                  # all special characters
|(?:[^=\[\]\|{}<]*))                               # all others
'''


def ranges(cps):
    res = []
    for c in cps:
        if res and res[-1][1] + 1 == c:
            res[-1][1] = c
        else:
            res.append([c, c])
    return res


def nlist(xs):
    return "[" + "; ".join(str(x) for x in xs) + "]"


def pairs(ps):
    return "[" + "; ".join("(%d, %d)" % (a, b) for a, b in ps) + "]"


def generate(src):
    # --- the regex the code compiles
    rc, out = core.run_impl("vt.harness.c09_impl", ["pattern"], src=src, timeout=120)
    lines = [ln for ln in out.splitlines() if ln.startswith("{")]
    if rc != 0 or not lines:
        raise RuntimeError("cannot obtain the replace_tags regex: " + out[-500:])
    info = json.loads(lines[-1])
    if info["flags"] != FLAGS:
        raise RuntimeError("replace_tags regex flags changed: %r" % info["flags"])
    pat = info["pattern"]
    for tmpl, name_wrap in ((TEMPLATE_ASCII, "(?a:%s)"), (TEMPLATE, "%s")):
        pre, post = tmpl.split("NAMES")
        if pat.startswith(pre) and pat.endswith(post) and len(pat) > len(pre) + len(post):
            break
    else:
        raise RuntimeError("replace_tags regex no longer has the transcribed shape")
    names = pat[len(pre):len(pat) - len(post)].split("|")
    for n in names:
        if not re.fullmatch(r"[a-z0-9]+", n):
            raise RuntimeError("tag name outside [a-z0-9]+: %r" % n)
    if len(set(names)) != len(names):
        raise RuntimeError("duplicate tag names")
    # --- literal checks
    utxt = open(os.path.join(src, "mwlib/utils/uniq.py"), encoding="utf8").read()
    for lit in UNIQ_PY_LITERALS:
        if lit not in utxt:
            raise RuntimeError("uniq.py no longer contains %r" % lit)
    stxt = open(os.path.join(src, "mwlib/parser/token/_uscan.re"), encoding="utf8").read()
    if stxt.count(USCAN_RULE) != 1 or "{RET(t_uniq);}" not in stxt.split(USCAN_RULE)[1][:60]:
        raise RuntimeError("_uscan.re: t_uniq rule changed")
    ttxt = open(os.path.join(src, "mwlib/parser/templ/scanner.py"), encoding="utf8").read()
    if ('SPLIT_PATTERN = r"""' + SPLIT_PATTERN + '"""') not in ttxt:
        raise RuntimeError("templ/scanner.py: SPLIT_PATTERN changed")
    if "split_rx = re.compile(SPLIT_PATTERN, re.VERBOSE | re.DOTALL | re.IGNORECASE)" not in ttxt:
        raise RuntimeError("templ/scanner.py: split_rx flags changed")
    # --- decoding of nowiki / pre bodies (coq/C09/EntModel.v): which pattern replace_html_entities uses, who calls it
    import ast
    upath = os.path.join(src, "mwlib/parser/refine/util.py")
    funcs = {n.name: n for n in ast.parse(open(upath, encoding="utf8").read()).body if isinstance(n, ast.FunctionDef)}
    if "replace_html_entities" not in funcs:
        raise RuntimeError("util.py: replace_html_entities not found")
    body = ast.unparse(funcs["replace_html_entities"].body)
    ent_patterns = {"return re.sub('&[^;]*;', lambda mo: resolve_entity(mo.group(0)), txt)": False,
                    "return re.sub('&(?:#[0-9]+|#[xX][0-9a-fA-F]+|[a-zA-Z0-9]+);', lambda mo: resolve_entity(mo.group(0)), txt)": True}
    if body not in ent_patterns:
        raise RuntimeError("util.replace_html_entities no longer has a transcribed shape: %r" % body)
    ent_strict = ent_patterns[body]
    ctxt = open(os.path.join(src, "mwlib/parser/refine/core.py"), encoding="utf8").read()
    for lit in ("        txt = inner\n        txt = util.replace_html_entities(txt)\n        return Token(type=Token.t_text, text=txt)",
                "        inner = util.replace_html_entities(util.remove_nowiki_tags(inner))"):
        if lit not in ctxt:
            raise RuntimeError("refine/core.py: create_nowiki / create_pre no longer decode as transcribed (%r)" % lit[:60])
    # --- util.remove_nowiki_tags (coq/C09/PreModel.v): pattern, flags, replacement
    if "remove_nowiki_tags" not in funcs:
        raise RuntimeError("util.py: remove_nowiki_tags not found")
    rn = funcs["remove_nowiki_tags"]
    rn_sig = ast.unparse(rn.args)
    rn_body = ast.unparse(rn.body)
    if rn_sig != "txt, _rx=re.compile('<nowiki>(.*?)</nowiki>', re.IGNORECASE | re.DOTALL)" or rn_body != "return _rx.sub(lambda mo: mo.group(1), txt)":
        raise RuntimeError("util.remove_nowiki_tags no longer has the transcribed shape: (%s) %s" % (rn_sig, rn_body))
    # the non-ASCII code points that IGNORECASE (Unicode, no (?a)) folds onto the characters of "<nowiki>" / "</nowiki>"
    allstr = "".join(chr(c) for c in range(0x110000))
    nowiki_fold = []
    for l in sorted(set("</nowiki>")):
        hits = [ord(ch) for ch in re.compile(re.escape(l), re.IGNORECASE).findall(allstr)]
        want = {ord(l), ord(l.upper())}
        if {h for h in hits if h < 128} != want:
            raise RuntimeError("unexpected ASCII fold for %r: %r" % (l, hits[:8]))
        extra = [h for h in hits if h >= 128]
        if extra and not l.isalpha():
            raise RuntimeError("IGNORECASE folds non-ASCII code points onto %r" % l)
        nowiki_fold += [(h, ord(l)) for h in extra]
    # --- tables of the running CPython
    allc = [chr(c) for c in range(0x110000)]
    ws_rx, nd_rx = re.compile(r"\s"), re.compile(r"\d")
    ws = [i for i, ch in enumerate(allc) if ws_rx.fullmatch(ch)]
    nd = [i for i, ch in enumerate(allc) if nd_rx.fullmatch(ch)]
    letters = sorted(set("".join(names)))
    fold = []
    for l in letters:
        rx = re.compile(name_wrap % l, re.IGNORECASE)
        for i, ch in enumerate(allc):
            if rx.fullmatch(ch):
                if i < 128:
                    want = {l, l.upper()}
                    if ch not in want:
                        raise RuntimeError("unexpected ASCII fold %r ~ %r" % (l, ch))
                else:
                    fold.append((i, ord(l)))
        if l.isalpha() and not rx.fullmatch(l.upper()):
            raise RuntimeError("IGNORECASE does not fold %r" % l)
    # simple lower used by back-references: tabulate every non-ASCII code point whose lower image is an
    # image of a foldable code point (so the model's equality test agrees with sre on all inputs)
    # (the back-reference (?P=tagname) lies outside the (?a:) group in both shapes: Unicode lower)
    images = {_sre.unicode_tolower(c) for c, _ in fold} | {ord(l) for l in letters}
    sre_lower = [(c, _sre.unicode_tolower(c)) for c in range(128, 0x110000) if _sre.unicode_tolower(c) in images]
    for c in range(128):
        want = c + 32 if 65 <= c <= 90 else c
        if _sre.unicode_tolower(c) != want:
            raise RuntimeError("ASCII tolower differs at %d" % c)
    py_lower = [(c, [ord(x) for x in chr(c).lower()]) for c, _ in fold]
    for c in range(128):
        if chr(c).lower() != chr(c + 32 if 65 <= c <= 90 else c):
            raise RuntimeError("ASCII str.lower differs at %d" % c)
    if {c for c in ws} != {i for i, ch in enumerate(allc) if ch.isspace()}:
        raise RuntimeError("re \\s and str.isspace differ (strip is modelled with \\s)")
    v = ["(* GENERATED by vt/gen/c09_tables.py from the snapshot of /repo and the running CPython -- do not edit *)",
         "From Coq Require Import List NArith.", "Import ListNotations.", "Open Scope N_scope.", "",
         "(* alternation of (?P<tagname> ...) in Uniquifier.replace_tags, in the order of the compiled pattern *)",
         "Definition tag_names : list (list N) :=\n  [" + ";\n   ".join(nlist([ord(c) for c in n]) for n in names) + "].", "",
         "(* re \\s and \\d (str patterns) as inclusive code point ranges *)",
         "Definition ws_ranges : list (N * N) := " + pairs(ranges(ws)) + ".",
         "Definition nd_ranges : list (N * N) := " + pairs(ranges(nd)) + ".", "",
         "(* non-ASCII code points c that match the ASCII pattern character l under re.IGNORECASE: (c, l) *)",
         "Definition fold_extra : list (N * N) := " + pairs(fold) + ".",
         "(* _sre.unicode_tolower on the non-ASCII code points whose image is an image of a foldable one *)",
         "Definition sre_lower_extra : list (N * N) := " + pairs(sre_lower) + ".",
         "(* str.lower() on the non-ASCII foldable code points *)",
         "Definition py_lower_extra : list (N * list N) := [" + "; ".join("(%d, %s)" % (c, nlist(l)) for c, l in py_lower) + "].", "",
         "(* util.replace_html_entities: false = re.sub('&[^;]*;', ..), true = the strict pattern of the scanner's entity rule *)",
         "Definition ent_strict : bool := %s." % ("true" if ent_strict else "false"), "",
         "(* util.remove_nowiki_tags: non-ASCII code points c that match the pattern character l of '<nowiki>(.*?)</nowiki>' under re.IGNORECASE: (c, l) *)",
         "Definition nowiki_fold_extra : list (N * N) := " + pairs(nowiki_fold) + ".", ""]
    core.write_if_changed(os.path.join(core.COQ, "C09", "Gen_tables.v"), "\n".join(v))
    return {"names": names, "ws": ws, "nd": nd, "fold": fold, "ascii_fold": name_wrap != "%s", "ent_strict": ent_strict, "nowiki_fold": nowiki_fold}
