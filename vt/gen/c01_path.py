"""Translator styleanalyzer.py -> coq/C01/Gen_path.v (fail-closed).
State.get_next, sort_states and compute_path must have exactly the modelled shape (AST equality with the reference below; comments
and docstrings do not count); the only thing read out is the number of states kept by the cut `states = states[:N]`, which
coq/C01/ProofsGen.v requires to be the 32 of the model (C01_compute_path_bounded: 6*32 = 192 states per step)."""
import ast
import os
import textwrap

from vt import core

REFERENCE = '''
def get_next(self, count, res=None, previous=None):
    if previous is None:
        previous = self

    if res is None:
        res = []

    def nextstate(**kw):
        cloned_state = self.clone(previous=previous, **kw)
        res.append(cloned_state)
    if count < 2:
        raise ValueError("count must be >= 2")

    if count == 2:
        nextstate(is_italic=not self.is_italic)

    if count == 3:
        nextstate(is_bold=not self.is_bold)

        state = self.clone(apocount=self.apocount + 1, previous=previous)

        state.get_next(2, res, previous=previous)

    if count == 4:
        state = self.clone(apocount=self.apocount + 1)
        state.get_next(3, res, previous=previous)

    if count == 5:
        for next_state in self.get_next(2):
            next_state.get_next(3, res, previous=previous)
        for next_state in self.get_next(3):
            next_state.get_next(2, res, previous=previous)

        state = self.clone(apocount=self.apocount)
        state.get_next(4, res, previous=previous)

    if count > 5:
        state = self.clone(apocount=self.apocount + (count - 5))
        state.get_next(5, res, previous=previous)

    return res


def sort_states(states):
    tmp = sorted([((x.apocount + x.is_bold + x.is_italic), x) for x in states])
    return [x[1] for x in tmp]


def compute_path(counts):
    states = [State(is_bold=False, is_italic=False, previous=None, apocount=0)]

    for count in counts:
        new_states = []
        for state in states:
            state.get_next(count, new_states)
        states = new_states
        states = sort_states(states)
        # states that agree on (apocount, bold, italic) have the same future: keep the first of each,
        # so that the cut to 32 below never drops the cheapest path of a long line
        seen = set()
        unique = []
        for state in states:
            key = (state.apocount, state.is_bold, state.is_italic)
            if key not in seen:
                seen.add(key)
                unique.append(state)
        states = unique
        best = states[0]
        if best.apocount == 0 and not best.is_italic and not best.is_bold:
            states = [best]
        else:
            states = states[:32]

    tmp = states[0]

    res = []
    while tmp.previous is not None:
        res.append(tmp)
        tmp = tmp.previous

    res.reverse()

    if len(res) != len(counts):
        raise InconsistentPathLengthException(len(counts), len(res))
    return res
'''


def _strip_doc(f):
    for n in ast.walk(f):
        if isinstance(n, (ast.FunctionDef, ast.ClassDef)) and n.body and isinstance(n.body[0], ast.Expr) \
                and isinstance(getattr(n.body[0], "value", None), ast.Constant) and isinstance(n.body[0].value.value, str):
            n.body = n.body[1:] or [ast.Pass()]
    return f


def _cut(f):
    """the N of `states = states[:N]` inside compute_path (exactly one such slice), replaced by 0 for the comparison"""
    found = []
    for n in ast.walk(f):
        if isinstance(n, ast.Subscript) and isinstance(n.slice, ast.Slice) and n.slice.lower is None and n.slice.step is None \
                and isinstance(n.slice.upper, ast.Constant) and isinstance(n.slice.upper.value, int):
            found.append(n.slice.upper.value)
            n.slice.upper.value = 0
    if len(found) != 1:
        raise ValueError("compute_path: expected exactly one cut states[:N], found %r" % found)
    return found[0]


def generate(src):
    path = os.path.join(src, "mwlib", "parser", "styleanalyzer.py")
    tree = ast.parse(open(path, encoding="utf8").read())
    got = {}
    for n in tree.body:
        if isinstance(n, ast.FunctionDef) and n.name in ("sort_states", "compute_path"):
            got[n.name] = n
        if isinstance(n, ast.ClassDef) and n.name == "State":
            for m in n.body:
                if isinstance(m, ast.FunctionDef) and m.name == "get_next":
                    got["get_next"] = m
    ref = {n.name: n for n in ast.parse(REFERENCE).body if isinstance(n, ast.FunctionDef)}
    for name in ("get_next", "sort_states", "compute_path"):
        if name not in got:
            raise ValueError("styleanalyzer.py: %s not found" % name)
    limit = _cut(got["compute_path"])
    _cut(ref["compute_path"])
    for name in ("get_next", "sort_states", "compute_path"):
        if ast.dump(_strip_doc(got[name])) != ast.dump(_strip_doc(ref[name])):
            raise ValueError("styleanalyzer.py: %s deviates from the modelled shape" % name)
    if not 0 < limit <= 2000:
        raise ValueError("compute_path: cut %r out of range" % limit)
    text = ("(* generated by vt/gen/c01_path.py from src/mwlib/parser/styleanalyzer.py — do not edit *)\n"
            "(* compute_path: states = states[:%d] *)\nDefinition src_cut_limit : nat := %d.\n" % (limit, limit))
    core.write_if_changed(os.path.join(core.COQ, "C01", "Gen_path.v"), text)
    return {"cut": limit}
