"""C03 translator, part 2 (fail-closed static obligations about COST; called from vt/gen/c03_magics.py):

  * analyse_pp(src): the regular expressions of mwlib/parser/templ/pp.py (run over EVERY page and template text by
    scanner.tokenize -> pp.preprocess before anything else).  Every `rxc(<pattern>)` call is evaluated statically (string
    constants, %-formatting, f-strings, "|".join(<list literal>), module constants, parameters bound at the module-level call
    sites), the set of patterns must be the pinned one (PP_PINNED), and each pattern must pass `regex_problems`: no unbounded
    repetition nested inside an unbounded repetition whose character class overlaps what else the repeated group can match
    (`(?:\\s+[^<>/]+)*`: the inner runs can share a run of blanks in exponentially many ways -> catastrophic backtracking
    when the overall match fails).

  * analyse_arg_reads(src): how often each magic of magics.py READS each positional argument `args[i]` / `args.get(i, ..)`
    along one control path.  ArgumentList.__getitem__/get(int) (evaluate.pyx) expands the argument's node on EVERY read and
    caches nothing, so a magic that reads an argument twice makes k self-nested calls cost 2**k expansions.  Allowed: one read
    per argument and path (ARG_READS_ALLOWED lists the exceptions present in the reviewed code).

Never imports mwlib."""
import ast
import os

try:                                    # CPython >= 3.11
    import re._parser as sre_parse
    import re._constants as sre_c
except ImportError:                     # pragma: no cover
    import sre_parse
    import sre_constants as sre_c

PP = "mwlib/parser/templ/pp.py"
MAGICS = "mwlib/parser/templ/magics.py"

# the reviewed patterns of pp.py (all of them linear: one optional attribute group `(?:\s[^<>]*)?`, lazy `.*?` up to the
# closing tag or the end of the text)
PP_PINNED = {
    r"<onlyinclude>(.*?)</onlyinclude>",
    r"<noinclude(?:\s[^<>]*)?>.*?(</noinclude>|$)",
    r"<includeonly(?:\s[^<>]*)?>.*?(?:</includeonly>|$)",
    r"</?(onlyinclude|noinclude)(?:\s[^<>]*)?>",
}
# allowed but not required (proposed fix fixes/C03-onlyinclude-unclosed-quadratic.diff: position of the last closing tag)
PP_OPTIONAL = {r"</onlyinclude>"}
PP_COMPILER = "rxc"          # def rxc(pattern_string): return re.compile(pattern_string, re.DOTALL | re.IGNORECASE)


class Unsupported(Exception):
    pass


# ----------------------------------------------------------------------------- regular expressions

_ALPHABET = [chr(i) for i in range(0, 0x180)] + ["٠", " ", "　", "１", "\U0001F600"]


def _cat(cat, ch):
    n = str(cat)
    neg = "NOT_" in n
    if "DIGIT" in n:
        v = ch.isdigit()
    elif "SPACE" in n:
        v = ch.isspace()
    elif "WORD" in n:
        v = ch.isalnum() or ch == "_"
    elif "LINEBREAK" in n:
        v = ch == "\n"
    else:
        raise Unsupported("regex category %s" % n)
    return v != neg


def _in_set(items, ch):
    neg = False
    hit = False
    for op, av in items:
        if op is sre_c.NEGATE:
            neg = True
        elif op is sre_c.LITERAL:
            hit = hit or ord(ch) == av or ch.lower() == chr(av).lower()
        elif op is sre_c.RANGE:
            lo, hi = av
            hit = hit or lo <= ord(ch) <= hi or lo <= ord(ch.lower()) <= hi or lo <= ord(ch.upper()[:1] or ch) <= hi
        elif op is sre_c.CATEGORY:
            hit = hit or _cat(av, ch)
        else:
            raise Unsupported("regex set item %s" % op)
    return hit != neg


_REPEATS = tuple(x for x in (getattr(sre_c, "MAX_REPEAT", None), getattr(sre_c, "MIN_REPEAT", None),
                             getattr(sre_c, "POSSESSIVE_REPEAT", None)) if x is not None)
_UNBOUNDED = 64            # a bound this large is as good as none for backtracking purposes


def _chars(seq):
    """set of characters (of the probe alphabet) some element of the item sequence can consume"""
    out = set()
    for op, av in seq:
        if op is sre_c.LITERAL:
            out |= {c for c in _ALPHABET if c.lower() == chr(av).lower()} | {chr(av)}
        elif op is sre_c.NOT_LITERAL:
            out |= {c for c in _ALPHABET if c.lower() != chr(av).lower()}
        elif op is sre_c.ANY:
            out |= set(_ALPHABET)
        elif op is sre_c.IN:
            out |= {c for c in _ALPHABET if _in_set(av, c)}
        elif op in _REPEATS:
            out |= _chars(av[2])
        elif op is sre_c.SUBPATTERN:
            out |= _chars(av[3])
        elif op is sre_c.BRANCH:
            for alt in av[1]:
                out |= _chars(alt)
        elif op is getattr(sre_c, "ATOMIC_GROUP", object()):
            out |= _chars(av)
        elif op in (sre_c.AT, sre_c.ASSERT, sre_c.ASSERT_NOT):
            pass
        elif op is sre_c.GROUPREF:
            out |= set(_ALPHABET)
        else:
            raise Unsupported("regex construct %s" % op)
    return out


def _nullable(seq):
    for op, av in seq:
        if op in (sre_c.LITERAL, sre_c.NOT_LITERAL, sre_c.ANY, sre_c.IN):
            return False
        if op in _REPEATS:
            if av[0] > 0 and not _nullable(av[2]):
                return False
        elif op is sre_c.SUBPATTERN:
            if not _nullable(av[3]):
                return False
        elif op is sre_c.BRANCH:
            if not any(_nullable(alt) for alt in av[1]):
                return False
        elif op is sre_c.GROUPREF:
            return False
    return True


def _unbounded_repeats(seq, path=()):
    """[(item, siblings of the item inside its own sequence ... up to the enclosing body)] of unbounded repeats in seq,
    returned as (repeat item, list of the OTHER items that are matched next to it inside the body)"""
    res = []
    items = list(seq)
    for i, (op, av) in enumerate(items):
        others = items[:i] + items[i + 1:]
        if op in _REPEATS:
            if av[1] >= _UNBOUNDED:
                res.append(((op, av), others))
            for rep, oth in _unbounded_repeats(av[2]):
                res.append((rep, oth + others))
        elif op is sre_c.SUBPATTERN:
            for rep, oth in _unbounded_repeats(av[3]):
                res.append((rep, oth + others))
        elif op is sre_c.BRANCH:
            for alt in av[1]:
                for rep, oth in _unbounded_repeats(alt):
                    res.append((rep, oth + others))
    return res


def _describe(item):
    op, av = item
    return "%s{%s,%s}" % (str(op).lower(), av[0], "inf" if av[1] >= _UNBOUNDED else av[1])


def regex_problems(pattern, flags=0):
    """-> list of problems: an unbounded repetition R{..,inf} directly or indirectly inside the body of another unbounded
    repetition such that either everything else in that body can match the empty string ((a+)*, (\\w+\\s*)*) or the
    characters R can consume overlap the characters the rest of the body can consume ((?:\\s+[^<>/]+)*)."""
    try:
        tree = sre_parse.parse(pattern, flags)
    except Exception as e:  # noqa: BLE001
        return ["cannot parse %r: %s" % (pattern, e)]
    problems = []

    def walk(seq):
        for op, av in seq:
            if op in _REPEATS:
                if av[1] >= _UNBOUNDED:
                    for rep, others in _unbounded_repeats(av[2]):
                        inner = _chars([rep])
                        rest = _chars(others)
                        if _nullable(others):
                            problems.append("%r: unbounded repetition %s of a group that is itself an unbounded repetition %s with "
                                            "nothing mandatory next to it" % (pattern, _describe((op, av)), _describe(rep)))
                        elif inner & rest:
                            ex = sorted(inner & rest)[:3]
                            problems.append("%r: unbounded repetition %s nested in the unbounded repetition %s; both it and the rest of "
                                            "the repeated group can consume %r: a run of such characters can be split between them in "
                                            "exponentially many ways (catastrophic backtracking when the match fails)"
                                            % (pattern, _describe(rep), _describe((op, av)), "".join(ex)))
                walk(av[2])
            elif op is sre_c.SUBPATTERN:
                walk(av[3])
            elif op is sre_c.BRANCH:
                for alt in av[1]:
                    walk(alt)
            elif op in (sre_c.ASSERT, sre_c.ASSERT_NOT):
                walk(av[1])
    try:
        walk(tree)
    except Unsupported as e:
        problems.append("%r: %s (not analysed)" % (pattern, e))
    return problems


# ----------------------------------------------------------------------------- static evaluation of pp.py

def _seval(node, env):
    """value of a string-building expression: str | list of str"""
    if isinstance(node, ast.Constant) and isinstance(node.value, str):
        return node.value
    if isinstance(node, ast.Name):
        if node.id in env:
            return env[node.id]
        raise Unsupported("%s:%d: name %s is not a known string constant" % (PP, node.lineno, node.id))
    if isinstance(node, (ast.List, ast.Tuple)):
        return [_seval(e, env) for e in node.elts]
    if isinstance(node, ast.JoinedStr):
        out = ""
        for v in node.values:
            if isinstance(v, ast.Constant):
                out += v.value
            elif isinstance(v, ast.FormattedValue) and v.conversion == -1 and v.format_spec is None:
                s = _seval(v.value, env)
                if not isinstance(s, str):
                    raise Unsupported("%s:%d: non-string in f-string" % (PP, node.lineno))
                out += s
            else:
                raise Unsupported("%s:%d: unsupported f-string part" % (PP, node.lineno))
        return out
    if isinstance(node, ast.BinOp) and isinstance(node.op, ast.Add):
        a, b = _seval(node.left, env), _seval(node.right, env)
        if isinstance(a, str) and isinstance(b, str):
            return a + b
    if isinstance(node, ast.BinOp) and isinstance(node.op, ast.Mod):
        a = _seval(node.left, env)
        b = _seval(node.right, env)
        if isinstance(a, str):
            try:
                return a % (tuple(b) if isinstance(b, list) else b)
            except (TypeError, ValueError) as e:
                raise Unsupported("%s:%d: %%-format: %s" % (PP, node.lineno, e))
    if (isinstance(node, ast.Call) and isinstance(node.func, ast.Attribute) and node.func.attr == "join" and len(node.args) == 1
            and not node.keywords):
        sep = _seval(node.func.value, env)
        xs = _seval(node.args[0], env)
        if isinstance(sep, str) and isinstance(xs, list) and all(isinstance(x, str) for x in xs):
            return sep.join(xs)
    raise Unsupported("%s:%d: cannot evaluate %s statically" % (PP, getattr(node, "lineno", 0), ast.unparse(node)[:80]))


def pp_patterns(src):
    """every pattern handed to rxc(..) while pp.py is imported -> sorted list of (pattern, where)"""
    path = os.path.join(src, PP)
    tree = ast.parse(open(path, encoding="utf8").read(), path)
    funcs = {n.name: n for n in tree.body if isinstance(n, ast.FunctionDef)}
    if PP_COMPILER not in funcs or ast.unparse(funcs[PP_COMPILER].body[-1]) != "return re.compile(pattern_string, re.DOTALL | re.IGNORECASE)" \
            or len(funcs[PP_COMPILER].body) != 1:
        raise Unsupported("%s: def rxc(pattern_string): return re.compile(pattern_string, re.DOTALL | re.IGNORECASE) expected" % PP)
    # no other way to a compiled regex
    for n in ast.walk(tree):
        if isinstance(n, ast.Attribute) and isinstance(n.value, ast.Name) and n.value.id == "re" and n.attr not in ("compile", "DOTALL", "IGNORECASE"):
            raise Unsupported("%s:%d: re.%s used directly" % (PP, n.lineno, n.attr))
        if isinstance(n, (ast.Import, ast.ImportFrom)) and not (isinstance(n, ast.Import) and [a.name for a in n.names] == ["re"] and not n.names[0].asname):
            raise Unsupported("%s:%d: import other than `import re`" % (PP, n.lineno))
    compiles = [n for n in ast.walk(tree) if isinstance(n, ast.Attribute) and isinstance(n.value, ast.Name) and n.value.id == "re" and n.attr == "compile"]
    if len(compiles) != 1:
        raise Unsupported("%s: re.compile used outside rxc" % PP)
    env = {}
    found = []

    def rxc_calls(node):
        return [c for c in ast.walk(node) if isinstance(c, ast.Call) and isinstance(c.func, ast.Name) and c.func.id == PP_COMPILER]

    def call_function(fdef, call, outer_env):
        if call.keywords or any(isinstance(a, ast.Starred) for a in call.args) or len(call.args) != len(fdef.args.args) \
                or fdef.args.vararg or fdef.args.kwarg or fdef.args.kwonlyargs:
            raise Unsupported("%s:%d: call shape of %s" % (PP, call.lineno, fdef.name))
        local = dict(outer_env)
        for p, a in zip(fdef.args.args, call.args):
            local[p.arg] = _seval(a, outer_env)
        for st in fdef.body:
            if isinstance(st, ast.Assign) and len(st.targets) == 1 and isinstance(st.targets[0], ast.Name):
                for c in rxc_calls(st.value):
                    found.append((_one(c, local), "%s:%d (%s)" % (PP, c.lineno, fdef.name)))
                try:
                    local[st.targets[0].id] = _seval(st.value, local)
                except Unsupported:
                    pass
            else:
                for c in rxc_calls(st):
                    found.append((_one(c, local), "%s:%d (%s)" % (PP, c.lineno, fdef.name)))

    def _one(c, e):
        if len(c.args) != 1 or c.keywords:
            raise Unsupported("%s:%d: rxc call shape" % (PP, c.lineno))
        v = _seval(c.args[0], e)
        if not isinstance(v, str):
            raise Unsupported("%s:%d: rxc argument is not a string" % (PP, c.lineno))
        return v

    called = set()
    for st in tree.body:
        if isinstance(st, (ast.FunctionDef, ast.Import)) or (isinstance(st, ast.Expr) and isinstance(st.value, ast.Constant)):
            continue
        if not (isinstance(st, ast.Assign) and len(st.targets) == 1 and isinstance(st.targets[0], ast.Name)):
            raise Unsupported("%s:%d: unexpected module-level statement %s" % (PP, st.lineno, type(st).__name__))
        v = st.value
        if isinstance(v, ast.Call) and isinstance(v.func, ast.Name) and v.func.id == PP_COMPILER:
            found.append((_one(v, env), "%s:%d" % (PP, v.lineno)))
        elif isinstance(v, ast.Call) and isinstance(v.func, ast.Name) and v.func.id in funcs:
            called.add(v.func.id)
            call_function(funcs[v.func.id], v, env)
        else:
            env[st.targets[0].id] = _seval(v, env)
    # a function that compiles a regex from its parameters must only be called at module level (with constants)
    for name, f in funcs.items():
        if name == PP_COMPILER or not rxc_calls(f):
            continue
        if name not in called:
            raise Unsupported("%s: %s compiles a regex but is never called at module level" % (PP, name))
        inner_calls = [c for g in funcs.values() for c in ast.walk(g) if isinstance(c, ast.Call) and isinstance(c.func, ast.Name) and c.func.id == name]
        if inner_calls:
            raise Unsupported("%s:%d: %s (regex factory) is called at run time" % (PP, inner_calls[0].lineno, name))
    return sorted(set(found))


def analyse_pp(src):
    """-> {"patterns": [..], "problems": [..]} ; problems empty = pinned and free of nested overlapping quantifiers"""
    import re
    problems = []
    try:
        pats = pp_patterns(src)
    except (Unsupported, OSError, SyntaxError) as e:
        return {"patterns": [], "problems": ["%s: %s" % (PP, e)]}
    got = {p for p, _w in pats}
    for p, where in pats:
        for pr in regex_problems(p, re.DOTALL | re.IGNORECASE):
            if "%s: %s" % (where, pr) not in problems:
                problems.append("%s: %s" % (where, pr))
    for p, where in pats:
        if p not in PP_PINNED and p not in PP_OPTIONAL:
            problems.append("%s: pattern %r is not one of the reviewed patterns of pp.py (its matching cost has not been reviewed)" % (where, p))
    for p in sorted(PP_PINNED - got):
        problems.append("%s: reviewed pattern %r is no longer compiled" % (PP, p))
    return {"patterns": [p for p, _w in pats], "problems": problems}


# ----------------------------------------------------------------------------- every other regex of the expansion path

# Every regular expression compiled or used by the modules that run during template expansion (besides pp.py, above):
# the #iferror detector of magics.py, the #time format splitter, the #expr tokenizer, the template scanner and the
# parser's #if/#switch name matchers.  Each is applied to text the page author controls (an argument, a format string, the
# whole page), so each must be (1) one of the reviewed patterns, pinned by (file, sha256 of the pattern, flags), and (2)
# free of nested overlapping quantifiers (regex_problems).  Patterns that are built at run time must come from a pinned
# statement (RX_DYNAMIC_PINNED) that only joins re.escape()d literals.
RX_FILES = ["mwlib/parser/templ/magics.py", "mwlib/parser/templ/magic_nodes.py", "mwlib/parser/templ/magic_time.py",
            "mwlib/parser/expr.py", "mwlib/parser/templ/parser.py", "mwlib/parser/templ/scanner.py"]
RX_FLAG_NAMES = {"I": "IGNORECASE", "IGNORECASE": "IGNORECASE", "S": "DOTALL", "DOTALL": "DOTALL", "X": "VERBOSE", "VERBOSE": "VERBOSE",
                 "M": "MULTILINE", "MULTILINE": "MULTILINE", "U": "UNICODE", "UNICODE": "UNICODE", "A": "ASCII", "ASCII": "ASCII"}
RX_PATTERN_FUNCS = {"compile", "match", "search", "sub", "subn", "split", "findall", "finditer", "fullmatch"}
# (file, first 16 hex digits of sha256(pattern), sorted flag names) of the reviewed patterns
RX_PINNED = {
    # if_error_rx: <(div|span|p|strong)\s[^<>]*class="error"[^<>]*>  - two flat [^<>]* runs, nothing nested
    ("mwlib/parser/templ/magics.py", "8f9d1b8eac790eab", ("IGNORECASE",)),
    # #time format splitter  "[^"]*"|xr|\\.|.
    ("mwlib/parser/templ/magic_time.py", "e9dfd6879175310a", ()),
    # four-digit year test  \d\d\d\d$
    ("mwlib/parser/templ/magic_time.py", "335b2da3121ae9d4", ()),
    # #expr tokenizer PATTERN (verbose): blanks | number | operator/word/any
    ("mwlib/parser/expr.py", "441385f29895f569", ("DOTALL", "IGNORECASE", "VERBOSE")),
    # parser name matchers ^#if:  ^#switch:
    ("mwlib/parser/templ/parser.py", "0ab13fac94f2b5b9", ()),
    ("mwlib/parser/templ/parser.py", "fa28d1ae1ca67042", ()),
    # scanner SPLIT_PATTERN (verbose): braces | links | noinclude | protected tag blocks (lazy .*? up to the closing tag) | text
    ("mwlib/parser/templ/scanner.py", "a6c994e1c80c06fc", ("DOTALL", "IGNORECASE", "VERBOSE")),
}
# statements that build a pattern at run time: (file, ast.unparse of the enclosing For/FunctionDef statement).  Reviewed: the
# pattern is "^#(" + "|".join(re.escape(alias)) + "):" - an alternation of literals, no repetition at all.
RX_DYNAMIC_PINNED = {
    ("mwlib/parser/templ/parser.py",
     "for magic_word_data in magicwords:\n"
     "    name = magic_word_data['name']\n"
     "    if name in ('if', 'switch'):\n"
     "        aliases = [re.escape(alias) for alias in magic_word_data['aliases']]\n"
     "        regex_pattern = '^#({}):'.format('|'.join(aliases))\n"
     "        self.name2rx[name] = re.compile(regex_pattern)"),
}


def _rx_sha(pattern):
    import hashlib
    return hashlib.sha256(pattern.encode("utf8")).hexdigest()[:16]


def _rx_flags(node, rel):
    """re.I | re.DOTALL | ... -> (int value, sorted tuple of names)"""
    import re
    if node is None:
        return 0, ()
    if isinstance(node, ast.BinOp) and isinstance(node.op, ast.BitOr):
        a, an = _rx_flags(node.left, rel)
        b, bn = _rx_flags(node.right, rel)
        return a | b, tuple(sorted(set(an) | set(bn)))
    if isinstance(node, ast.Attribute) and isinstance(node.value, ast.Name) and node.value.id == "re" and node.attr in RX_FLAG_NAMES:
        nm = RX_FLAG_NAMES[node.attr]
        return int(getattr(re, nm)), (nm,)
    if isinstance(node, ast.Constant) and node.value == 0:
        return 0, ()
    raise Unsupported("%s:%d: regex flags %s cannot be evaluated statically" % (rel, getattr(node, "lineno", 0), ast.unparse(node)))


def module_regexes(src, rel):
    """-> (patterns [(pattern, flag value, flag names, where)], problems [...]) of one module, never importing it"""
    path = os.path.join(src, rel)
    tree = ast.parse(open(path, encoding="utf8").read(), path)
    parents = {}
    for n in ast.walk(tree):
        for c in ast.iter_child_nodes(n):
            parents[c] = n
    problems, found = [], []
    imported = False
    for n in ast.walk(tree):
        if isinstance(n, ast.Import):
            for a in n.names:
                if a.name == "re" or a.name.startswith("re."):
                    if a.asname or a.name != "re":
                        problems.append("%s:%d: `import %s as %s`: only plain `import re` is understood" % (rel, n.lineno, a.name, a.asname))
                    imported = True
                if a.name in ("regex", "sre_compile", "sre_parse"):
                    problems.append("%s:%d: import of %s (another regex engine/compiler)" % (rel, n.lineno, a.name))
        if isinstance(n, ast.ImportFrom) and n.module and (n.module == "re" or n.module.startswith("re.") or n.module == "regex"):
            problems.append("%s:%d: `from %s import ..`: regex functions must be used as re.X" % (rel, n.lineno, n.module))
    # module-level string constants (evaluated in order; what cannot be evaluated is simply not a known constant)
    env = {}
    for st in tree.body:
        if isinstance(st, ast.Assign) and len(st.targets) == 1 and isinstance(st.targets[0], ast.Name):
            try:
                env[st.targets[0].id] = _seval(st.value, env)
            except Unsupported:
                env.pop(st.targets[0].id, None)
    # names assigned more than once anywhere are not constants
    stores = {}
    for n in ast.walk(tree):
        if isinstance(n, ast.Name) and isinstance(n.ctx, ast.Store):
            stores[n.id] = stores.get(n.id, 0) + 1
        if isinstance(n, ast.arg):
            stores[n.arg] = stores.get(n.arg, 0) + 2
    for k in [k for k in env if stores.get(k, 0) != 1]:
        del env[k]
    dyn_ok_nodes = set()
    for n in ast.walk(tree):
        if isinstance(n, (ast.For, ast.FunctionDef)) and (rel, ast.unparse(n)) in RX_DYNAMIC_PINNED:
            for c in ast.walk(n):
                dyn_ok_nodes.add(c)
    for n in ast.walk(tree):
        if not (isinstance(n, ast.Name) and n.id == "re"):
            continue
        if not imported:
            continue        # some other object called `re` would be odd but is not the regex module
        par = parents.get(n)
        if not (isinstance(par, ast.Attribute) and par.value is n):
            problems.append("%s:%d: the module `re` itself is passed around (%s)" % (rel, n.lineno, ast.unparse(par)[:60] if par else "?"))
            continue
        attr = par.attr
        if attr in RX_FLAG_NAMES:
            continue
        if attr == "escape":
            if par not in dyn_ok_nodes:
                problems.append("%s:%d: re.escape outside a reviewed pattern-building statement" % (rel, n.lineno))
            continue
        call = parents.get(par)
        if attr not in RX_PATTERN_FUNCS or not (isinstance(call, ast.Call) and call.func is par):
            problems.append("%s:%d: re.%s used in a way the regex review does not understand" % (rel, n.lineno, attr))
            continue
        if not call.args:
            problems.append("%s:%d: re.%s without a positional pattern" % (rel, n.lineno, attr))
            continue
        fl_node = None
        for kw in call.keywords:
            if kw.arg == "flags":
                fl_node = kw.value
        npos = {"compile": 1, "match": 2, "search": 2, "fullmatch": 2, "findall": 2, "finditer": 2, "split": 3, "sub": 4, "subn": 4}[attr]
        if fl_node is None and len(call.args) > npos:
            fl_node = call.args[npos]
        where = "%s:%d" % (rel, call.lineno)
        try:
            pat = _seval(call.args[0], env)
            if not isinstance(pat, str):
                raise Unsupported("%s: pattern is not a string" % where)
            fv, fnames = _rx_flags(fl_node, rel)
        except Unsupported as e:
            if call in dyn_ok_nodes:
                continue          # built from re.escape()d literals by a pinned statement
            problems.append("%s: re.%s(%s): pattern built at run time by a statement that has not been reviewed (%s)"
                            % (where, attr, ast.unparse(call.args[0])[:60], str(e)[:120]))
            continue
        found.append((pat, fv, fnames, where))
    return found, problems


def analyse_regexes(src):
    """-> {"patterns": [[file, pattern, flags value]], "problems": [..]}; problems empty = every regex of the expansion path is a
    reviewed one and none nests an unbounded repetition inside an unbounded repetition over overlapping characters"""
    patterns, problems = [], []
    seen_pins = set()
    for rel in RX_FILES:
        try:
            found, probs = module_regexes(src, rel)
        except (OSError, SyntaxError, Unsupported) as e:
            problems.append("%s: %s" % (rel, e))
            continue
        problems += probs
        for pat, fv, fnames, where in found:
            patterns.append([rel, pat, fv])
            for pr in regex_problems(pat, fv):
                msg = "%s: %s" % (where, pr)
                if msg not in problems:
                    problems.append(msg)
            pin = (rel, _rx_sha(pat), tuple(fnames))
            seen_pins.add(pin)
            if pin not in RX_PINNED:
                problems.append("%s: pattern %r (flags %s, sha %s) is not one of the reviewed patterns of %s: its matching cost has not "
                                "been reviewed" % (where, pat if len(pat) <= 120 else pat[:117] + "...", "|".join(fnames) or "0", pin[1], rel))
    for pin in sorted(RX_PINNED - seen_pins):
        problems.append("%s: reviewed pattern with sha %s (flags %s) is no longer there" % (pin[0], pin[1], "|".join(pin[2]) or "0"))
    return {"patterns": patterns, "problems": problems}


# ----------------------------------------------------------------------------- reads of lazily expanded arguments

MANY = 99
# (magic, index) -> reads per path allowed beyond the default of 1; "dyn" = a read whose index/key is not a literal
ARG_READS_ALLOWED = {
    # (empty since the #ifexist empty-title defect was fixed in /repo: `return args.get(args[2], "")` had looked up a
    # NAMED argument called like the value of the third argument)
}


def _merge_max(a, b):
    out = dict(a)
    for k, v in b.items():
        out[k] = max(out.get(k, 0), v)
    return out


def _add(a, b):
    out = dict(a)
    for k, v in b.items():
        out[k] = min(MANY, out.get(k, 0) + v)
    return out


def _times_many(a):
    return {k: MANY for k in a}


class _Reads:
    """path-sensitive count of argument reads in one function body"""

    def __init__(self, param, methods, stack=()):
        self.param = param
        self.methods = methods        # name -> FunctionDef of the same class (for self.X(args) pass-through)
        self.stack = stack

    # expression -> list of alternative read-counters (one per path through conditional expressions)
    def expr(self, e):
        if e is None:
            return [{}]
        p = self.param
        if isinstance(e, ast.IfExp):
            out = []
            for t in self.expr(e.test):
                for br in self.expr(e.body) + self.expr(e.orelse):
                    out.append(_add(t, br))
            return out
        if isinstance(e, ast.BoolOp):
            # short circuit: any prefix of the operands may be what is evaluated
            out = []
            acc = [{}]
            for v in e.values:
                acc = [_add(a, b) for a in acc for b in self.expr(v)]
                out += acc
            return out
        if isinstance(e, (ast.Lambda, ast.ListComp, ast.SetComp, ast.DictComp, ast.GeneratorExp)):
            inner = {}
            for n in ast.walk(e):
                if n is e:
                    continue
                if isinstance(n, ast.expr) and not isinstance(n, (ast.Lambda, ast.ListComp, ast.SetComp, ast.DictComp, ast.GeneratorExp)):
                    for c in self._direct(n):
                        inner = _merge_max(inner, c)
            return [_times_many(inner)] if inner else [{}]
        here = {}
        for c in self._direct(e):
            here = _add(here, c)
        if isinstance(e, ast.Name):
            return [here]
        kids = []
        if isinstance(e, ast.Subscript) and isinstance(e.value, ast.Name) and e.value.id == p:
            kids = [e.slice] if not isinstance(e.slice, ast.Constant) else []
        elif (isinstance(e, ast.Call) and isinstance(e.func, ast.Attribute) and isinstance(e.func.value, ast.Name)
              and e.func.value.id == p):
            kids = list(e.args) + [k.value for k in e.keywords]
        elif isinstance(e, ast.Call) and self._passthrough(e) is not None:
            kids = [a for a in e.args if not (isinstance(a, ast.Name) and a.id == p)] + [k.value for k in e.keywords]
        elif isinstance(e, ast.Call) and isinstance(e.func, ast.Name) and e.func.id in ("len", "bool") and len(e.args) == 1 \
                and isinstance(e.args[0], ast.Name) and e.args[0].id == p:
            kids = []
        else:
            kids = [c for c in ast.iter_child_nodes(e) if isinstance(c, ast.expr)]
            kids += [v for c in ast.iter_child_nodes(e) if isinstance(c, ast.keyword) for v in [c.value]]
        acc = [here]
        for k in kids:
            if isinstance(k, ast.Name) and k.id == p and not isinstance(e, (ast.Subscript,)):
                # the argument list itself escapes (iteration, list(args), a helper): every argument may be read, often
                acc = [_add(a, {"dyn": MANY}) for a in acc]
                continue
            acc = [_add(a, b) for a in acc for b in self.expr(k)]
            if len(acc) > 4096:
                acc = [self._collapse(acc)]
        return acc

    def _collapse(self, alts):
        out = {}
        for a in alts:
            out = _merge_max(out, a)
        return out

    def _passthrough(self, e):
        """self.OTHER(args) -> FunctionDef of OTHER"""
        if (isinstance(e.func, ast.Attribute) and isinstance(e.func.value, ast.Name) and e.func.value.id == "self"
                and e.func.attr in self.methods and any(isinstance(a, ast.Name) and a.id == self.param for a in e.args)):
            return self.methods[e.func.attr]
        return None

    def _direct(self, e):
        """reads performed by the node e itself (not by its children)"""
        p = self.param
        if isinstance(e, ast.Subscript) and isinstance(e.value, ast.Name) and e.value.id == p:
            if isinstance(e.slice, ast.Constant) and isinstance(e.slice.value, int):
                return [{e.slice.value: 1}]
            return [{"dyn": 1}]
        if isinstance(e, ast.Call) and isinstance(e.func, ast.Attribute) and isinstance(e.func.value, ast.Name) and e.func.value.id == p:
            if e.func.attr == "get" and e.args and isinstance(e.args[0], ast.Constant) and isinstance(e.args[0].value, int):
                return [{e.args[0].value: 1}]
            return [{"dyn": 1}]
        if isinstance(e, ast.Call):
            f = self._passthrough(e)
            if f is not None:
                if f.name in self.stack:
                    return [{"dyn": MANY}]
                return [function_reads(f, self.methods, self.stack + (f.name,))]
        return []

    # statements -> list of (counter, terminated)
    def block(self, stmts):
        paths = [({}, False)]
        for st in stmts:
            nxt = []
            for cnt, term in paths:
                if term:
                    nxt.append((cnt, True))
                    continue
                for c2, t2 in self.stmt(st):
                    nxt.append((_add(cnt, c2), t2))
            paths = nxt
            if len(paths) > 4096:
                done = [x for x in paths if x[1]]
                live = [x for x in paths if not x[1]]
                paths = ([(self._collapse([c for c, _t in done]), True)] if done else []) + \
                        ([(self._collapse([c for c, _t in live]), False)] if live else [])
        return paths

    def stmt(self, st):
        if isinstance(st, (ast.Return,)):
            return [(c, True) for c in self.expr(st.value)]
        if isinstance(st, ast.Raise):
            return [(c, True) for c in self.expr(st.exc)]
        if isinstance(st, (ast.Expr,)):
            return [(c, False) for c in self.expr(st.value)]
        if isinstance(st, (ast.Assign, ast.AnnAssign, ast.AugAssign)):
            return [(c, False) for c in self.expr(st.value)]
        if isinstance(st, ast.If):
            out = []
            for t in self.expr(st.test):
                for c, term in self.block(st.body) + self.block(st.orelse):
                    out.append((_add(t, c), term))
            return out
        if isinstance(st, ast.Try):
            out = []
            body = self.block(st.body)
            for c, term in body:
                # normal completion
                for c2, t2 in (self.block(st.orelse) if not term else [({}, True)]):
                    out.append((_add(c, c2), term or t2))
                # an exception anywhere in the body: upper bound = whole body + handler
                for h in st.handlers:
                    for c2, t2 in self.block(h.body):
                        out.append((_add(c, c2), t2))
            if st.finalbody:
                out = [(_add(c, f), term or ft) for c, term in out for f, ft in self.block(st.finalbody)]
            return out
        if isinstance(st, (ast.For, ast.While)):
            inner = {}
            for c, _t in self.block(st.body) + self.block(st.orelse):
                inner = _merge_max(inner, c)
            head = self.expr(st.iter if isinstance(st, ast.For) else st.test)
            if isinstance(st, ast.For) and isinstance(st.iter, ast.Name) and st.iter.id == self.param:
                head = [{"dyn": MANY}]
            return [(_add(h, _times_many(inner)), False) for h in head] if isinstance(st, ast.For) else \
                   [(_times_many(_add(h, inner)), False) for h in head]
        if isinstance(st, ast.With):
            out = [{}]
            for it in st.items:
                out = [_add(a, b) for a in out for b in self.expr(it.context_expr)]
            return [(_add(a, c), t) for a in out for c, t in self.block(st.body)]
        if isinstance(st, (ast.Pass, ast.Import, ast.ImportFrom, ast.Global, ast.Nonlocal, ast.Break, ast.Continue)):
            return [({}, False)]
        if isinstance(st, (ast.FunctionDef, ast.ClassDef)):
            inner = {}
            for n in ast.walk(st):
                if isinstance(n, ast.expr):
                    for c in self._direct(n):
                        inner = _merge_max(inner, c)
            return [(_times_many(inner), False)]
        if isinstance(st, ast.Delete):
            return [({}, False)]
        if isinstance(st, ast.Assert):
            return [(c, False) for c in self.expr(st.test)]
        raise Unsupported("%s:%d: statement %s not understood by the argument-read analysis" % (MAGICS, st.lineno, type(st).__name__))


def function_reads(fdef, methods, stack=()):
    """{index | 'dyn': max number of reads along one path} of the argument-list parameter (2nd parameter) of fdef"""
    if len(fdef.args.args) < 2:
        return {}
    r = _Reads(fdef.args.args[1].arg, methods, stack or (fdef.name,))
    out = {}
    for c, _t in r.block([s for s in fdef.body if not (isinstance(s, ast.Expr) and isinstance(s.value, ast.Constant))]):
        out = _merge_max(out, c)
    return out


def analyse_arg_reads(src, table, decorators_src=None):
    """table: the `magics` list of c03_magics.analyse_magics (name, cls, layers, origin ...).
    -> {"reads": {magic: {index: count}}, "problems": [...]}"""
    path = os.path.join(src, MAGICS)
    tree = ast.parse(open(path, encoding="utf8").read(), path)
    classes = {n.name: n for n in tree.body if isinstance(n, ast.ClassDef)}
    mod_funcs = {n.name: n for n in tree.body if isinstance(n, ast.FunctionDef)}
    reads, problems = {}, []
    for m in table:
        if m.get("strconst") or m["cls"] not in classes:
            continue
        cdef = classes[m["cls"]]
        methods = {f.name: f for f in cdef.body if isinstance(f, ast.FunctionDef)}
        # the def behind the (possibly renamed / aliased / wrapped) entry
        target = methods.get(m.get("defname") or m["name"].lstrip("#"))
        if target is None:
            if m["cls"] == "DummyResolver":
                continue
            problems.append("%s: def of %s.%s not found for the argument-read analysis" % (MAGICS, m["cls"], m["name"]))
            continue
        try:
            cnt = {}
            # decorators that receive the argument list (def wrap(self, args)) read it before the function does
            fixed_layers = []
            for layer in m.get("layers", []):
                d = mod_funcs.get(layer) or methods.get(layer)
                if d is None:
                    continue
                w = [s for s in d.body if isinstance(s, ast.FunctionDef)]
                if w and len(w[0].args.args) >= 2 and not w[0].args.vararg:
                    cnt = _add(cnt, function_reads(w[0], methods))
                fixed_layers.append(layer)
            passes_list = not fixed_layers or all(_forwards_list(mod_funcs.get(x) or methods.get(x)) for x in fixed_layers)
            if passes_list:
                cnt = _add(cnt, function_reads(target, methods))
        except Unsupported as e:
            problems.append(str(e))
            continue
        reads[m["name"]] = {str(k): v for k, v in sorted(cnt.items(), key=lambda kv: str(kv[0]))}
        for k, v in cnt.items():
            allowed = ARG_READS_ALLOWED.get((m["name"], k), 0 if k == "dyn" else 1)
            if v > allowed:
                what = "argument %s" % k if k != "dyn" else "an argument selected at run time (non-literal index/key, slice, or the list itself escapes)"
                problems.append("%s:%d: %s.%s reads %s %s time(s) on one control path (allowed %d): ArgumentList re-expands the argument's "
                                "node on every read (evaluate.pyx ArgumentList.get caches nothing), so k nested calls cost %s expansions"
                                % (MAGICS, target.lineno, m["cls"], m["name"], what, "many" if v >= MANY else v, allowed,
                                   "%d**k" % v if v < MANY else "unboundedly many"))
    return {"reads": reads, "problems": problems}


def _forwards_list(deco):
    """does the decorator's wrapper hand the argument LIST on to the wrapped function (fun(self, args) / fun(*args))?
    single_arg hands on a string (the list is read by the wrapper only), no_arg nothing."""
    if deco is None:
        return True
    w = [s for s in deco.body if isinstance(s, ast.FunctionDef)]
    if not w:
        return True
    w = w[0]
    param = deco.args.args[0].arg if deco.args.args else None
    names = {a.arg for a in w.args.args[1:]} | ({w.args.vararg.arg} if w.args.vararg else set())
    for c in ast.walk(w):
        if isinstance(c, ast.Call) and isinstance(c.func, ast.Name) and c.func.id == param:
            for a in c.args:
                a2 = a.value if isinstance(a, ast.Starred) else a
                if isinstance(a2, ast.Name) and a2.id in names:
                    return True
    return False
