"""C01 generator input: the attribute / style-property keys that the parser sources READ BY NAME.

util.parse_params turns every attribute string of an HTML-ish tag, table / row / cell / caption modifier and extension tag into a dict
(`vlist`); the refinement passes, the tag extensions, the post-processors and the tree cleaning stages look single keys up by name
(`vlist.get("style")`, `node.attributes.get("class")`, `vlist["colspan"]`, `"printonly" in ...`).  Each such lookup is a place where the VALUE
of that attribute is consumed by code that expects a particular type (parse_params stores purely numeric values as int, `style` as a dict,
everything else as str), i.e. a place where a parse can abort for an attribute value of the wrong kind.

This module collects those names from the snapshot of /repo/src with the `ast` module on every run (nothing is cached):
every string constant that is
  * the first argument of a `.get(..)` / `.pop(..)` / `.setdefault(..)` call,
  * the index of a subscript `x["name"]`, or
  * the left operand of `"name" in x` / `"name" not in x`
in any module under mwlib/parser, mwlib/extensions and mwlib/rendering, restricted to identifier-like strings.  It is a superset of the
attribute names (dict keys of other dicts are included - harmless: they only become more attribute names to try).

Fail-closed: raises when a source file cannot be parsed, when no lookup at all is found, or when `style` (read by TagParser and by
parse_params itself) is not among the names - the scan would then no longer be looking at the code it is meant for."""
import ast
import os
import re

PACKAGES = ("parser", "extensions", "rendering")
NAME_RE = re.compile(r"^[A-Za-z][A-Za-z0-9_-]{0,24}$")
LOOKUP_METHODS = ("get", "pop", "setdefault")


def _str_const(node):
    if isinstance(node, ast.Constant) and isinstance(node.value, str):
        return node.value
    return None


def scan(src):
    """src = snapshot of /repo/src.  Returns {name: [site, ...]} with site = 'relative/path.py:line:how'."""
    found = {}
    nfiles = 0
    for pkg in PACKAGES:
        base = os.path.join(src, "mwlib", pkg)
        if not os.path.isdir(base):
            raise RuntimeError("c01_attrnames: %s is missing" % base)
        for dp, dns, fns in os.walk(base):
            dns.sort()
            for fn in sorted(fns):
                if not fn.endswith(".py"):
                    continue
                path = os.path.join(dp, fn)
                with open(path, encoding="utf-8") as f:
                    tree = ast.parse(f.read(), filename=path)      # SyntaxError propagates: fail-closed
                nfiles += 1
                rel = os.path.relpath(path, src)
                for n in ast.walk(tree):
                    s = how = None
                    if (isinstance(n, ast.Call) and isinstance(n.func, ast.Attribute) and n.func.attr in LOOKUP_METHODS and n.args):
                        s, how = _str_const(n.args[0]), n.func.attr
                    elif isinstance(n, ast.Subscript):
                        s, how = _str_const(n.slice), "subscript"
                    elif isinstance(n, ast.Compare) and len(n.ops) == 1 and isinstance(n.ops[0], (ast.In, ast.NotIn)):
                        s, how = _str_const(n.left), "in"
                    if s is not None and NAME_RE.match(s):
                        found.setdefault(s, []).append("%s:%d:%s" % (rel, n.lineno, how))
    if not found:
        raise RuntimeError("c01_attrnames: no lookup by name found in %d files" % nfiles)
    if "style" not in found:
        raise RuntimeError("c01_attrnames: 'style' is not looked up by name any more (%d names found): the scan does not see the "
                           "attribute handling it was written for" % len(found))
    return {k: sorted(v) for k, v in sorted(found.items())}
