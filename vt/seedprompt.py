import json, sys
pid = sys.argv[1]
n = sys.argv[2] if len(sys.argv) > 2 else "2"
tag = sys.argv[3] if len(sys.argv) > 3 else ""
for l in open('/verif/properties.jsonl'):
    p = json.loads(l)
    if p['id'] == pid:
        break
wt = "/tmp/seed%s-%s" % (tag, pid.lower())
print(f"""You are helping test a verification tool by playing the role of a developer who introduces a subtle regression. You work ONLY inside the scratch git worktree {wt} (a checkout of the Python project pediapress/mwlib; built C extensions (.so) are already copied in; Cython .pyx/.cc sources can NOT be rebuilt here, so change only .py files). Do not read or touch anything under /verif or /repo. Run Python as: `cd {wt} && PYTHONPATH={wt}/src /venv/bin/python ...`; run the existing tests as: `cd {wt} && PYTHONPATH={wt}/src /venv/bin/python -m pytest -q -p no:cacheprovider tests` (about 25 s; 702 pass; one collection error for test_odfwriter is pre-existing and expected).

The property to break (a semantic property of mwlib that should always hold):

{pid} — {p['title']}
Statement: {p['statement']}
Quantifier: {p['quantifier']['text']}
Anchored in: {', '.join(p['anchors']['files'])}
Mechanisms meant to make it hold: {'; '.join((m.get('name') or '') + ' [' + (m.get('where') or '') + ']' for m in p['anchors']['mechanism'])}
Observable at: {'; '.join(p['anchors'].get('observe_at') or [])}

Task: produce {n} different, independent, realistic source changes (each a separate patch against the clean worktree) to the mwlib/qs code such that each (a) still imports/compiles, (b) passes the complete existing test suite exactly as before (same pass count), and (c) breaks the property — but only under something specific: a particular interleaving, a crash or fault at a particular point, a multi-step sequence of operations, an unusual input, or two cooperating sites that each look fine alone. Avoid changes that ordinary use would expose at once (do not simply delete the mechanism). Think of plausible refactorings / optimisations / "robustness improvements" a maintainer might make that are subtly wrong. Prefer less obvious places: error handlers and secondary code paths, interactions between two functions or two calls, state kept between calls, boundary values, rarely used options — not the first thing one would think of.

For each change i = 1..{n} write into /tmp/seed{tag}-{pid.lower()}-out/<i>/ : `patch.diff` (output of `git diff` in the worktree; must apply cleanly with `git apply` to a clean checkout), `demo.py` (a small standalone program, run as `PYTHONPATH=<tree>/src /venv/bin/python demo.py`, that exits 0 if the property holds on its scenario and 1 (printing what went wrong) if it is violated — it must exit 1 with the patch applied and 0 on the clean tree, be deterministic, run offline in under a minute, and confine any file-system activity to a temporary directory it creates), and `meta.json` with keys: property, summary, what_it_needs_to_manifest, files_changed, how_verified (the commands you ran and their results). After producing each patch reset the worktree with `git -C {wt} checkout -- .` before the next one. Verify (a), (b), (c) yourself for each patch, including that demo.py exits 0 on the clean tree. Final message: a short table of the changes and the verification results.""")
