#!/bin/bash
# runs the repo's baseline suite and prints the pass/fail summary line
cd /repo && /venv/bin/python -m pytest -q -p no:cacheprovider --timeout=900 --continue-on-collection-errors 2>&1 | grep -E "passed|failed|error" | tail -3
