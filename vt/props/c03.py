"""C03 — template expansion always terminates with a string, whatever templates contain.
Proof: coq/C03 (budgeted flatten model: total, TemplateRecursion never escapes the top level, nesting bounded by
the recursion limit; generated dispatch table Gen_magics.v: every registered magic accepts the resolver's call;
pad* output bounds).  Tie: extracted flatten model vs Expander on exhaustively enumerated small universes (cycles,
missing templates, unbalanced braces).  Search: every registered name x 0..3 args x 9 argument shapes under a CPU and
output-size limit proportional to the input."""
import json

from vt import core

LEVEL = "proof"


def generate(src):
    from vt.gen import c03_magics
    c03_magics.generate(src)


def build():
    from vt.harness import c03_tielib
    return c03_tielib.build()


def _merge(run, info):
    if not info:
        return
    run.rule = (run.rule + " || " if run.rule else "") + info.get("rule", "")
    run.trusted += info.get("trusted", [])
    run.assumptions += info.get("assumptions", [])
    run.coverage.setdefault("input_distribution", {}).update(info.get("distribution", {}))
    for k, v in info.get("coverage", {}).items():
        run.coverage[k] = v


def check(run):
    src = core.snapshot()
    run.trusted = ["Coq 8.16.1 kernel (coqc); vm_compute for the finite dispatch obligation",
                   "extraction (ExtrOcamlBasic directives only) + ocaml/c03/driver.ml"]
    run.check_proofs("C03", gen=lambda: generate(src))
    from vt.harness import c03_searchlib, c03_tielib
    _merge(run, c03_tielib.run(run, src))
    _merge(run, c03_searchlib.run(run, src))
    run.coverage["exhaustive"] = False


def replay(obj):
    src = core.snapshot()
    r = obj.get("replay", {})
    kind = r.get("kind")
    if kind == "call":
        from vt.harness import c03_searchlib
        return c03_searchlib.replay(r, src)
    if kind == "universe":
        from vt.harness import c03_tielib
        return c03_tielib.replay(r, src)
    print(json.dumps(r, indent=1))
    return 1
