"""C03 — template expansion always terminates with a string, whatever templates contain.
Proof: coq/C03 (budgeted flatten model with LAZY magic strategies `mreq`/`run_magic`: total, TemplateRecursion never escapes
the top level and passes through magic calls and sequences unchanged (ProofsLazy.v), nesting bounded by the recursion limit,
256 KiB caps incl. the named-argument cap; abstract cost theorem Cost.v: linear in the limit with the discipline, 3*2^b-2 when
swallowed; generated Gen_magics.v: every registered magic accepts the resolver's call, PADLEFT/PADRIGHT bodies pinned (cap =
source cap), exception-propagation discipline of MagicResolver.__call__ and of every magic's argument fetches; pad*/titleparts
output bounds).  Tie: extracted flatten model vs Expander on exhaustively enumerated small universes (cycles, missing templates,
unbalanced braces) and on cyclic universes recursing twice inside lazily fetched magic arguments (OCaml strategies for
#ifexpr/lc/padleft/#iferror).  Search: every registered name x 0..3 args x 9 argument shapes, the full numeric grammar at every
argument position, the recursion family under a dispatch budget, #expr OPERATOR CHAINS (each binary operator 3..8 times left-
associatively with operands at the extremes of every cheap range, plain / parenthesised / through functions / right-nested, chains of
prefix functions, random mixed chains), all under CPU and output-size limits proportional to the input.
#expr: the translator pins the callable registered for each of the 34 operators (`^` = math.pow, ...) and its size class; coq/C03/
ExprSize*.v prove that with these classes every intermediate value has at most (bits of the literals) + 1025 * (operators) bits, and
refute it for an exact integer power (9^64^64..^64, k >= 2 links: more than 3 * 64^k bits).
Round 4: DEEP SELF-NESTING family (every registered name inside its own argument 0..3, 5..30 levels, directly / through distinct
templates / through a template handing its argument on; dispatch budget 3 x calls + 4: ArgumentList re-expands an argument on
every read, a function reading one twice costs 2^depth) and PREPROCESSOR-TAG family (malformed / unterminated / attribute-laden
noinclude, includeonly, onlyinclude tags followed by runs of 10..2000 words or blanks, under a CPU cap; the worker's parent also
kills a call that cannot be interrupted from Python by its CPU time).  Translator (vt/gen/c03_static.py): the regexes of pp.py are
evaluated from the source, pinned, and checked for nested overlapping quantifiers (also on the patterns of the imported module);
per magic, the number of reads of each args[i] along one control path is at most 1 (allow-list).  Coq: nest_cost r k (k+1 for
r = 1, >= 2^(k+1) - 1 for r >= 2).
Round 5: HTML-ISH FRAGMENT family (`<TAG ATTR="` + runs of 10..2000 blanks / newlines / words inside the attribute value + closed or
unclosed tails, as argument 0..2 of every registered name; group testing: screening pages of a third of the names, a misbehaving
page is taken apart into single calls).  Translator: EVERY regular expression of the expansion path (magics.if_error_rx, magic_time,
the #expr tokenizer, templ/scanner split pattern, templ/parser name matchers) is evaluated statically, pinned by file + sha256 +
flags and checked for nested overlapping quantifiers (theorem C03_expansion_regexes_pinned); the worker also lists the compiled
patterns of the imported modules and of a Parser instance per known site and checks those objects.  When the translator's analysis
of magics.py gives up, the verdict is fail-closed but the search goes on with the names of the imported module (a helper called
from a method body is no longer mistaken for a decorator)."""
import json

from vt import core

LEVEL = "proof"


def generate(src):
    from vt.gen import c03_magics
    c03_magics.generate(src)


def build():
    from vt.harness import c03_tielib
    return c03_tielib.build()


def _merge(run, info):
    if not info:
        return
    run.rule = (run.rule + " || " if run.rule else "") + info.get("rule", "")
    run.trusted += info.get("trusted", [])
    run.assumptions += info.get("assumptions", [])
    run.coverage.setdefault("input_distribution", {}).update(info.get("distribution", {}))
    for k, v in info.get("coverage", {}).items():
        run.coverage[k] = v


def check(run):
    src = core.snapshot()
    run.trusted = ["Coq 8.16.1 kernel (coqc); vm_compute for the finite dispatch obligation",
                   "extraction (ExtrOcamlBasic directives only) + ocaml/c03/driver.ml"]
    run.check_proofs("C03", gen=lambda: generate(src))
    from vt.harness import c03_searchlib, c03_tielib
    _merge(run, c03_tielib.run(run, src))
    _merge(run, c03_searchlib.run(run, src))
    run.coverage["exhaustive"] = False


def replay(obj):
    src = core.snapshot()
    r = obj.get("replay", {})
    kind = r.get("kind")
    if kind == "call":
        from vt.harness import c03_searchlib
        return c03_searchlib.replay(r, src)
    if kind == "universe":
        from vt.harness import c03_tielib
        return c03_tielib.replay(r, src)
    print(json.dumps(r, indent=1))
    return 1
