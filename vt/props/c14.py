"""C14 — what is written into a collection archive is what is read back.
Proof: coq/C14 (record format writer/reader with the chunk re-join, revision index, lookups, fs_escape; title
normalisation = the C12 model).  Tie: extracted model vs FsOutput -> zip_dir -> make_wiki on generated page sets.
Search: the round-trip oracle on the real answers (independent of the model)."""
import concurrent.futures
import glob
import json
import os
import random
import subprocess

from vt import core
from vt.harness import c12_gen

LEVEL = "proof"
SEP = "\n\x0c --page-- "
TAIL = SEP[1:]
LANGS = ["de", "en", "fr", "ja", "es", "it", "nl", "no", "pl", "pt", "simple", "sv"]

TEXTS = ["", "x", "a\r\nb\r\n", "\n", "\r", " --page-- {", "--page--\n--page--", TAIL, TAIL + "tail text", TAIL + TAIL,
         TAIL + '{"title": "Evil", "ns": 0}\nbody', "line\n" + TAIL[:-1], "ends with lf\n", "ends\n\x0c", "\x0c", "\n\x0c --page--",
         "x\n --page-- {\"title\": \"Evil\", \"ns\": 0, \"revid\": 1}\nbody", "{}", " \u0085 z", "caf\xe9 \U0001F600 \U00010428",
         "==Heading==\n[[Link]] {{Tpl|a=b}}\n", " leading and trailing ", "\x00\x01", "tab\tsep"]
REDIRECT_TEXTS = ["#REDIRECT [[%s]]", "#redirect [[%s]]\nmore", " \n#REDIRECT: [[%s|label]]"]
TITLE_CHARS = list("abcxyzABXZ019") + ["é", "ß", "ö", "я", "の", "中", "\U00010428", "İ", "ǆ", "-", ".", "~", "(", ")", ",", "'", "!", "%", "&", "+"]
IMG_CHARS = list("abcxyzABXZ019") + ["é", "ß", "я", "の", "\U00010428", "-", ".", "~", "ö"]     # the property's alphabet (plus space below)


# normalize_and_get_image_path names its images/safe/ symlink sha256-hex (64 characters) + everything after the LAST dot
# of the stored name: a title whose last dot is followed by more than 190 characters cannot be served (ENAMETOOLONG,
# reported with /verif/fixes/C14-safe-link-extension.diff).  Until that fix is in /repo such titles are only generated when
# VERIF_C14_LONG_DOT_TAIL=1 is set (make that the default once the fix is committed).
DOT_TAIL_ROOM = 10 ** 6 if os.environ.get("VERIF_C14_LONG_DOT_TAIL") else 255 - 64


def esc_cost(s):
    """length of the file name the archive format spends on `s` (a title over the property's alphabet): one character per
    ASCII letter/digit/space/-/./_ , two per '~', '~<decimal code point>~' per non-ASCII character"""
    n = 0
    for c in s:
        if c == "~":
            n += 2
        elif ord(c) < 128:
            n += 1
        else:
            n += len(str(ord(c))) + 2
    return n


def load_sites(src):
    sites = {}
    for f in sorted(glob.glob(os.path.join(src, "mwlib", "network", "known_sites", "siteinfo-*.json"))):
        lang = os.path.basename(f)[len("siteinfo-"):-5]
        d = json.load(open(f, encoding="utf-8"))
        sites[lang] = {"namespaces": [(v["id"], v["*"], v.get("canonical")) for v in d["namespaces"].values()],
                       "aliases": [(a["id"], a["*"]) for a in d.get("namespacealiases", [])],
                       "capitalize": d.get("general", {}).get("case") == "first-letter"}
    return sites


class CaseGen:
    def __init__(self, rng, sites):
        self.rng = rng
        self.sites = sites
        self.g12 = c12_gen.Gen(rng, sites)
        self.skipped_dot_tail = 0

    def remainder(self, chars, maxlen=8):
        r = self.rng
        n = r.choice([1, 2, 3, 5, maxlen])
        out = []
        for i in range(n):
            if 0 < i < n - 1 and out[-1] != " " and r.random() < 0.2:
                out.append(" ")
            else:
                out.append(r.choice(chars))
        s = "".join(out).strip()
        return s or "x"

    def text(self):
        r = self.rng
        k = r.random()
        if k < 0.55:
            return r.choice(TEXTS)
        if k < 0.8:
            parts = [r.choice(TEXTS + ["\n", "\x0c", " --page-- ", "\n\x0c", "--page--", "\x0c --page--"]) for _ in range(r.choice([2, 3, 4]))]
            t = "".join(parts)
        else:
            t = "".join(chr(r.choice([r.randrange(0x20, 0x7F), r.randrange(0xA0, 0x2000), r.randrange(0x3040, 0x30FF), 10, 12, 13, 32,
                                      r.randrange(0x10000, 0x10450)])) for _ in range(r.choice([1, 5, 20, 60])))
        while SEP in t:
            t = t.replace(SEP, "\n\x0c--page-- ")
        return t

    def spellings(self, lang, ns, p, count):
        """equivalent spellings of the canonical title (ns, p) with the default namespace to use"""
        r = self.rng
        star, names = self.g12.names[lang]
        mine = [n for i, n, _k in names if i == ns]
        cap = self.sites[lang]["capitalize"]
        res = []
        for _ in range(count):
            pv = r.choice(self.g12.first_letter_variants(p)) if cap else p
            if ns != 0 and mine and r.random() < 0.8:
                n = self.g12.casevar(r.choice(mine))
                t = self.g12.edge(0.7) + (":" + self.g12.edge(0.8) if r.random() < 0.2 else "") + self.g12.spaces(n) + self.g12.wsrun() + ":" \
                    + self.g12.edge(0.7) + self.g12.spaces(pv) + self.g12.edge(0.7)
                res.append((t, r.choice([0, ns, 6, 10])))
            elif ":" not in p:
                lead = ":" + self.g12.edge(0.8) if (ns == 0 and r.random() < 0.3) else ""
                res.append((self.g12.edge(0.7) + lead + self.g12.spaces(pv) + self.g12.edge(0.7), ns))
        return res

    def case(self, cid):
        r = self.rng
        lang = r.choice(LANGS[:4]) if r.random() < 0.7 else r.choice(LANGS)
        site = self.sites[lang]
        star = {i: s for i, s, _c in site["namespaces"]}
        cap = site["capitalize"]

        def canon(ns, p):
            p = c12_gen.capitalize(p) if cap else p
            return (star[ns] + ":" if star[ns] else "") + p

        nss = [0, 0, 0, 1, 2, 4, 10, 10, 14, 6, 12]
        pages = {}          # canonical title -> dict(ns, p, kind, revs [(revid, text)])
        used_rev = set()
        ntitles = r.choice([1, 2, 3, 4, 6])
        while len(pages) < ntitles:
            ns = r.choice(nss)
            p = self.remainder(TITLE_CHARS)
            if ns == 0 and ":" in p:
                continue
            t = canon(ns, p)
            if t in pages:
                continue
            kind = r.choice(["revs", "revs", "revs", "norevid", "expanded"])
            revs = []
            if kind == "revs":
                for _ in range(r.choice([1, 1, 2, 3])):
                    rv = r.choice([r.randrange(1, 50), r.randrange(1, 10 ** 6), r.randrange(10 ** 9, 10 ** 12)])
                    if rv in used_rev:
                        continue
                    used_rev.add(rv)
                    revs.append((rv, self.text()))
                if not revs:
                    continue
            elif kind == "norevid":
                revs = [(None, self.text())]
            else:
                rv = None
                if r.random() < 0.5:
                    rv = r.randrange(10 ** 6, 2 * 10 ** 6)
                    if rv in used_rev:
                        continue
                    used_rev.add(rv)
                revs = [(rv, self.text())]
            pages[t] = {"ns": ns, "p": c12_gen.capitalize(p) if cap else p, "kind": kind, "revs": revs}
        titles = list(pages)
        # a redirect page text (followed by revid lookups): tie only
        redirect_text_titles = set()
        if r.random() < 0.15 and len(titles) >= 2:
            a, b = r.sample(titles, 2)
            if pages[a]["kind"] == "revs":
                rv, _t = pages[a]["revs"][-1]
                pages[a]["revs"][-1] = (rv, r.choice(REDIRECT_TEXTS) % b)
                redirect_text_titles.add(a)
        # ---- write operations: every revision once, in random order, in random batches; some duplicates
        units = []
        for t, pg in pages.items():
            for rv, tx in pg["revs"]:
                units.append((t, pg["ns"], rv, tx, pg["kind"]))
        r.shuffle(units)
        dup = [u for u in units if u[4] == "revs" and r.random() < 0.25]
        for u in dup:
            units.insert(r.randrange(len(units) + 1), u)         # the same revision delivered twice (same text)
        ops = []
        i = 0
        while i < len(units):
            t, ns, rv, tx, kind = units[i]
            if kind == "expanded":
                ops.append({"op": "expanded", "title": t, "ns": ns, "text": tx, "revid": rv})
                i += 1
                continue
            batch = []
            n = r.choice([1, 1, 2, 3])
            while n and i < len(units) and units[i][4] != "expanded":
                t, ns, rv, tx, kind = units[i]
                if batch and batch[-1]["title"] == t and r.random() < 0.6:
                    batch[-1]["revisions"].append({"revid": rv, "text": tx})
                else:
                    batch.append({"title": t, "ns": ns, "revisions": [{"revid": rv, "text": tx}]})
                i += 1
                n -= 1
            if r.random() < 0.1:
                batch.insert(r.randrange(len(batch) + 1), {"title": canon(0, "Missing page"), "ns": 0, "revisions": None})
            ops.append({"op": "pages", "pages": batch})
        # ---- redirects
        redirects = {}
        expect = []          # (query, oracle) ; oracle None = tie only
        if r.random() < 0.5 and titles:
            for _ in range(r.choice([1, 2])):
                dst = r.choice(titles)
                src = canon(r.choice([0, 0, 10]), self.remainder(TITLE_CHARS))
                if src in pages or src in redirects or ":" in src and src.split(":")[0] not in star.values():
                    continue
                redirects[src] = dst
        queries = []

        def newest(t):
            pg = pages[t]
            if pg["kind"] == "revs":
                return max(pg["revs"], key=lambda x: x[0])
            return pg["revs"][0]

        for t, pg in pages.items():
            for rv, tx in pg["revs"]:
                if rv is not None and t not in redirects:
                    rev_arg = str(rv) if r.random() < 0.1 else rv
                    oracle = None if "#REDIRECT" in tx.upper() else {"title": t, "revid": rv, "text": tx}
                    queries.append(({"q": "get", "name": t, "revision": rev_arg}, oracle))
            nrv, ntx = newest(t)
            if t not in redirects:
                queries.append(({"q": "get", "name": t, "revision": None}, {"title": t, "revid": nrv, "text": ntx}))
                for sp, dns in self.spellings(lang, pg["ns"], pg["p"], r.choice([1, 2, 3])):
                    queries.append(({"q": "norm", "name": sp, "dns": dns}, {"title": t, "revid": nrv, "text": ntx}))
        for src, dst in redirects.items():
            nrv, ntx = newest(dst)
            if dst not in redirects:
                queries.append(({"q": "get", "name": src, "revision": None}, {"title": dst, "revid": nrv, "text": ntx}))
        if r.random() < 0.3:
            queries.append(({"q": "get", "name": canon(0, "Absent page"), "revision": None}, "absent"))
            queries.append(({"q": "get", "name": canon(0, "Absent page"), "revision": 987654321}, None))
        # ---- images
        images = []
        img_titles = {}
        for _ in range(r.choice([0, 1, 2, 3])):
            alphabet_ok = r.random() < 0.8
            base = self.remainder(IMG_CHARS if alphabet_ok else TITLE_CHARS, 6)
            if alphabet_ok and r.random() < 0.3 and len(base) > 1:
                # near-collisions inside the property's alphabet: '.'/'-'/'~' next to digits, doubled '~'
                base = base[:1] + r.choice(["~", "~~", "~1", "1~", ".", "-", " ~ ", "~12~"]) + base[1:]
                base = " ".join(base.split())
            ext = r.choice([".png", ".jpg", ".svg", ".PNG", ""])
            base = base.replace("%", "")  or "x"
            p = c12_gen.capitalize(base + ext) if cap else base + ext
            store_ns_name = star[6] if r.random() < 0.9 else "File"
            t = store_ns_name + ":" + p
            key = t.replace("_", " ")
            if key in img_titles or "/" in t:
                continue
            data = "img-%d-%d" % (cid, len(images))
            img_titles[key] = data
            images.append({"title": t, "data": data})
            in_alphabet = alphabet_ok and store_ns_name == star[6]
            queries.append(({"q": "image", "name": t}, {"data": data} if in_alphabet else None))
            for sp, dns in self.spellings(lang, 6, p, r.choice([1, 2])):
                if "%" in sp:
                    continue
                queries.append(({"q": "image", "name": sp}, {"data": data} if in_alphabet else None))
            if in_alphabet:
                queries.append(({"q": "image", "name": p}, {"data": data}))      # default namespace 6
        # ---- families of LONG image titles (up to MediaWiki's 255-byte title limit and the 255-byte file-name limit)
        # that share a long prefix / differ only near the end, in the middle, at the start or in the extension: all stored
        # in this one archive, each with its own bytes, each asked under its canonical title and under other spellings
        if r.random() < 0.4:
            nsname = star[6]
            ext = r.choice([".png", ".jpg", ".svg", ".PNG", ".tiff", ""])
            room = 255 - esc_cost(nsname)                    # what fits into one file name after the namespace name
            total = min(room, r.choice([r.randrange(24, 120), r.randrange(120, 236), r.randrange(236, 256), 255, room]))
            words = []
            alphabet = IMG_CHARS if r.random() < 0.5 else list("abcdefghijklmnopqrstuvwxyzABCXYZ0123456789") + ["-", ".", "~"]
            k = r.choice([2, 2, 3, 4, 5])
            tails = r.sample(["1", "2", "12", "21", "a", "b", "A", "x y", "1-2", "1.2", "1~", "é", "9", "10", "III", "II"], k)
            where = r.choice(["end", "end", "end", "middle", "start", "ext"])
            exts = [ext] * k
            if where == "ext":
                exts = r.sample([".png", ".jpg", ".svg", ".gif", ".PNG", ".jpeg"], k)
                tails = [""] * k
            budget = total - max(esc_cost(e) for e in exts) - max(esc_cost(t) for t in tails) - 1
            body = ""
            while True:
                w = "".join(r.choice(alphabet) for _ in range(r.choice([1, 2, 3, 5, 8, 13])))
                cand = (body + " " + w) if body else w
                if esc_cost(cand) > budget or len(cand.encode("utf8")) > 240:
                    break
                body = cand
            body = body.strip() or "x"
            if not body[0].isalnum():
                body = "M" + body[1:]
            for tail, e in zip(tails, exts):
                if where in ("end", "ext"):
                    base = body + (" " + tail if tail else "")
                elif where == "start":
                    base = tail + " " + body
                else:
                    cut = len(body) // 2
                    base = " ".join((body[:cut] + " " + tail + " " + body[cut:]).split())
                p = c12_gen.capitalize(base + e) if cap else base + e
                t = nsname + ":" + p
                key = t.replace("_", " ")
                if key in img_titles or len(p.encode("utf8")) > 255 or esc_cost(t.replace(":", "")) > 255:
                    continue
                if "." in p and esc_cost(p.rsplit(".", 1)[1]) + 1 > DOT_TAIL_ROOM:
                    self.skipped_dot_tail += 1
                    continue
                data = "img-%d-%d" % (cid, len(images))
                img_titles[key] = data
                images.append({"title": t, "data": data})
                queries.append(({"q": "image", "name": t}, {"data": data}))
                for sp, dns in self.spellings(lang, 6, p, r.choice([0, 1, 2])):
                    if "%" not in sp:
                        queries.append(({"q": "image", "name": sp}, {"data": data}))
        case = {"id": cid, "site": lang, "ops": ops, "redirects": redirects, "images": images, "queries": [q for q, _o in queries]}
        meta = {"oracles": [o for _q, o in queries], "image_alphabet": [im["title"] for im in images], "pages": len(pages),
                "redirect_texts": len(redirect_text_titles)}
        return case, meta


# ---------------------------------------------------------------------------------------------- model I/O
def header_json(title, ns, revid, expanded):
    rev = {"title": title, "ns": ns}
    if expanded:
        rev["expanded"] = 1
    if revid is not None:
        rev["revid"] = revid
    return json.dumps(rev, sort_keys=True)


def nocomma(s):
    return core.cps(s)


def model_line(case, rtab):
    ops = []
    for op in case["ops"]:
        if op["op"] == "pages":
            for p in op["pages"]:
                if p.get("revisions") is None:
                    continue
                for rv in p["revisions"]:
                    ops.append(",".join(["P", core.cps(p["title"]), str(p["ns"]), "N" if rv["revid"] is None else str(rv["revid"]), "0",
                                         core.cps(header_json(p["title"], p["ns"], rv["revid"], False)), core.cps(rv["text"])]))
        else:
            ops.append(",".join(["X", core.cps(op["title"]), str(op["ns"]), "N" if op["revid"] is None else str(op["revid"]), "1",
                                 core.cps(header_json(op["title"], op["ns"], op["revid"], True)), core.cps(op["text"])]))
    reds = [core.cps(a) + "," + core.cps(b) for a, b in case["redirects"].items()]
    rt = [core.cps(a) + "," + core.cps(b) for a, b in rtab]
    imgs = [core.cps(im["title"]) for im in case["images"]]
    qs = []
    for q in case["queries"]:
        if q["q"] == "get":
            qs.append("G,%s,%s" % (core.cps(q["name"]), "N" if q["revision"] is None else str(int(q["revision"]))))
        elif q["q"] == "norm":
            qs.append("M,%s,%d" % (core.cps(q["name"]), q["dns"]))
        else:
            qs.append("I,%s" % core.cps(q["name"]))
    for im in case["images"]:
        qs.append("F,%s" % core.cps(im["title"]))
    return "|".join([core.cps(case["site"]), ";".join(ops), ";".join(reds), ";".join(rt), ";".join(imgs), ";".join(qs)])


def parse_model(line):
    line = line.rstrip("\n")
    if line.startswith("READERR"):
        return None, "READERR"
    f, ans = line.split("|")
    out = []
    for a in ans.split(";") if ans else []:
        if a == "N":
            out.append(None)
        elif a == "K":
            out.append("KeyError")
        elif a.startswith("S"):
            out.append(core.uncps(a[1:]))
        else:
            t, ns, rv, ex, tx = a.split(",")
            out.append([core.uncps(t), int(ns), None if rv.strip() == "N" else int(rv), int(ex), core.uncps(tx)])
    return core.uncps(f), out


def canon_real(ans, q):
    if ans is None:
        return None
    if "exc" in ans:
        return "EXC " + ans["exc"]
    if q["q"] == "image":
        return ans["target"]
    return [ans["title"], ans["ns"], ans["revid"], int(ans["expanded"] or 0), ans["text"]]


def run_shard(args):
    src, lines, shard = args
    sbox = os.path.join(core.scratch(), "c14box%d" % shard)
    os.makedirs(sbox, exist_ok=True)
    rc, out = core.run_impl("vt.harness.c14_impl", [sbox], src=src, input=lines, timeout=3400)
    res = []
    for ln in out.splitlines():
        if ln.startswith("{"):
            res.append(json.loads(ln))
    if rc != 0:
        raise RuntimeError("c14 harness failed rc=%s: %s" % (rc, out[-1500:]))
    return res


def evaluate(run, cases, metas, results, exe, stats):
    """monitor on the real answers + correspondence with the model"""
    dis = []
    lines = "".join(model_line(c, r.get("redirect_of") or []) + "\n" for c, r in zip(cases, results))
    p = subprocess.run([exe], input=lines, capture_output=True, text=True, timeout=3000)
    mlines = p.stdout.split("\n")
    if p.returncode != 0 or len(mlines) < len(cases):
        raise RuntimeError("model driver failed: rc=%s %s" % (p.returncode, p.stderr[-500:]))
    for case, meta, res, ml in zip(cases, metas, results, mlines):
        cid = case["id"]
        if "harness_error" in res:
            raise RuntimeError("harness error: " + res["harness_error"])
        nq = len(case["queries"])
        key = (case["site"], json.dumps(case["ops"], sort_keys=True), json.dumps(case["queries"], sort_keys=True))
        run.count(key, nontrivial=True)
        stats["cases"] += 1
        stats["pages"] += meta["pages"]
        stats["queries"] += nq
        stats["images"] += len(case["images"])
        stats["redirects"] += len(case["redirects"])
        stats["records"] += len(res["writes"]) // 2
        stats["texts_starting_with_separator_tail"] += sum(1 for w in res["writes"][1::2] if w.startswith(TAIL))
        stats["redirect_page_texts"] += meta["redirect_texts"]
        replay = {"case": case, "oracles": meta["oracles"]}
        # ---------------- monitor (independent of the model)
        found = monitor_case(case, meta["oracles"], res)
        for fp, what, _qi in found:
            run.hit(fp, what, replay)
        if res["error"]:
            continue
        # ---------------- correspondence
        mfile, mans = parse_model(ml)
        if mans == "READERR":
            dis.append("case %d: model reader fails, real archive opened" % cid)
            continue
        if mfile != res["revfile"]:
            dis.append("case %d: revisions file differs: real %r model %r" % (cid, res["revfile"][:200], mfile[:200]))
            continue
        real = [canon_real(a, q) for a, q in zip(res["answers"], case["queries"])]
        if mans[:nq] != real:
            for q, a, b in zip(case["queries"], real, mans):
                if a != b:
                    dis.append("case %d site %s query %s: real %r model %r" % (cid, case["site"], json.dumps(q), a, b))
                    break
            continue
        if mans[nq:] != res["image_files"]:
            dis.append("case %d: image file names differ: real %r model %r" % (cid, res["image_files"], mans[nq:]))
        # the directory as the model sees it (Model.v store_images: a later write to the same name replaces the content)
        # against the bytes really served
        mstore = {}
        for im, fname in zip(case["images"], mans[nq:]):
            mstore[fname] = im["data"]
        for q, a, b in zip(case["queries"], res["answers"], mans):
            if q["q"] == "image" and isinstance(b, str) and b not in ("KeyError",) and a is not None and "exc" not in a:
                if mstore.get(b) != a["data"]:
                    dis.append("case %d query %s: bytes served %r, model directory holds %r under %r" % (cid, json.dumps(q), a["data"], mstore.get(b), b))
                    break
        if len(run.samples) < 4 and meta["pages"] > 1 and case["images"]:
            run.sample({"site": case["site"], "ops": case["ops"][:2], "queries": case["queries"][:4], "answers": real[:4]})
    return dis


def monitor_case(case, oracles, res):
    """The property's round-trip oracle on the REAL answers of one archive.  -> [(fingerprint, what, query index | None)]"""
    out = []
    cid = case["id"]
    stored = [im["title"] for im in case["images"]]
    if res["error"]:
        return [("error:%s:%d" % (res["error"][:60], cid), "real pipeline failed: " + res["error"], None)]
    for i, (q, orc, ans) in enumerate(zip(case["queries"], oracles, res["answers"])):
        if ans is not None and "exc" in ans:
            out.append(("exc:%s" % json.dumps(q, sort_keys=True), "query %r raised %s" % (q, ans["exc"]), i))
            continue
        if orc is None:
            continue
        if orc == "absent":
            if ans is not None:
                out.append(("phantom:%s" % json.dumps(q, sort_keys=True), "query %r for a page never written returned %r" % (q, ans), i))
            continue
        if q["q"] == "image":
            if ans is None or ans["data"] != orc["data"]:
                whose = [im["title"] for im in case["images"] if ans is not None and im["data"] == ans["data"]]
                out.append(("image:%s:%s" % (case["site"], q["name"]),
                            "image stored as one of %r asked as %r: got %r%s, stored data %r"
                            % (stored, q["name"], ans, (" = the bytes of %r" % whose[0]) if whose else "", orc["data"]), i))
            continue
        if ans is None or ans["text"] != orc["text"] or ans["title"] != orc["title"] or ans["revid"] != orc["revid"]:
            got = None if ans is None else {k: ans[k] for k in ("title", "revid", "text")}
            out.append(("page:%s:%s" % (case["site"], json.dumps(q, sort_keys=True)), "query %r: expected %r got %r" % (q, orc, got), i))
    return out


# ---------------------------------------------------------------------------------------------- minimisation
class Shrinker:
    """Delta debugging of one failing archive on the REAL code: keep one failing query, drop pages (with everything that
    refers to them), redirects and images, then delete the same characters from all image titles — as long as the monitor
    still reports a hit of the same kind.  Every candidate is a full write -> zip -> open -> query run in one of
    `workers` long-lived harness processes; of the candidates tried together the FIRST one (in order) that still fails wins."""

    def __init__(self, src, kind, seconds=60, workers=6):
        import time
        self.kind, self.deadline, self.runs = kind, time.time() + seconds, 0
        self.time = time
        self.procs = []
        for i in range(workers):
            box = os.path.join(core.scratch(), "c14min%d" % i)
            os.makedirs(box, exist_ok=True)
            self.procs.append(subprocess.Popen([core.PY, "-m", "vt.harness.c14_impl", box], cwd=core.VERIF, env=core.impl_env(src),
                                               stdin=subprocess.PIPE, stdout=subprocess.PIPE, stderr=subprocess.DEVNULL))
        self.pool = concurrent.futures.ThreadPoolExecutor(max_workers=workers)
        self.serial = 0

    def close(self):
        for p in self.procs:
            try:
                p.stdin.close()
                p.wait(timeout=20)
            except Exception:  # noqa: BLE001
                p.kill()
        self.pool.shutdown(wait=False)

    def spent(self):
        return self.time.time() > self.deadline

    def _one(self, slot, cand):
        case, oracles = cand
        self.serial += 1
        c = dict(case, id=1000000 + self.serial * 8 + slot)
        p = self.procs[slot]
        p.stdin.write((json.dumps(c) + "\n").encode("ascii"))
        p.stdin.flush()
        line = p.stdout.readline()
        if not line.startswith(b"{"):
            return None
        r = json.loads(line)
        if "harness_error" in r:
            return None
        return [h for h in monitor_case(c, oracles, r) if h[0].split(":", 1)[0] == self.kind]

    def all_hits(self, cand):
        self.runs += 1
        return self._one(0, cand) or []

    def first(self, cands):
        """-> (index, hit) of the first candidate (in order) that still fails, or None"""
        k = len(self.procs)
        for off in range(0, len(cands), k):
            if self.spent():
                return None
            chunk = cands[off:off + k]
            self.runs += len(chunk)
            res = list(self.pool.map(lambda a: self._one(a[0], a[1]), list(enumerate(chunk))))
            for j, hs in enumerate(res):
                if hs:
                    return off + j, hs[0]
        return None

    @staticmethod
    def page_titles(case):
        ts = []
        for op in case["ops"]:
            for t in ([p["title"] for p in op["pages"]] if op["op"] == "pages" else [op["title"]]):
                if t not in ts:
                    ts.append(t)
        return ts

    @staticmethod
    def drop_titles(case, oracles, gone):
        """the archive without the page titles `gone`: their write ops, the queries about them, redirects to/from them"""
        gone = set(gone)
        ops = []
        for op in case["ops"]:
            if op["op"] == "pages":
                pages = [p for p in op["pages"] if p["title"] not in gone]
                if pages:
                    ops.append(dict(op, pages=pages))
            elif op["title"] not in gone:
                ops.append(op)
        via = {a for a, b in case["redirects"].items() if b in gone}
        reds = {a: b for a, b in case["redirects"].items() if a not in gone and b not in gone}
        keep = [i for i, (q, o) in enumerate(zip(case["queries"], oracles))
                if q["q"] == "image" or o == "absent" or (isinstance(o, dict) and o.get("title") not in gone and q.get("name") not in via)]
        return dict(case, ops=ops, redirects=reds, queries=[case["queries"][i] for i in keep]), [oracles[i] for i in keep]

    def run(self, case, oracles):
        try:
            return self._run(case, oracles)
        finally:
            self.close()

    def _run(self, case, oracles):
        hits = self.all_hits((case, oracles))
        if not hits:
            return None
        cur, cor, hit = case, oracles, hits[0]
        # 1. one failing query (prefer one that asks with the stored / canonical title itself, then the shortest)
        stored = {im["title"] for im in cur["images"]} | set(self.page_titles(cur))
        qhits = [h for h in hits if h[2] is not None]
        qhits.sort(key=lambda h: (cur["queries"][h[2]].get("name") not in stored, len(cur["queries"][h[2]].get("name", ""))))
        cands = [(dict(cur, queries=[cur["queries"][h[2]]]), [cor[h[2]]]) for h in qhits[:6]]
        got = self.first(cands)
        if got:
            (cur, cor), hit = cands[got[0]], got[1]
        # 2. pages, redirects, images that the remaining queries do not talk about: all at once, then one by one
        needed_titles = {o["title"] for o in cor if isinstance(o, dict) and "title" in o}
        needed_titles |= {b for a, b in cur["redirects"].items() if a in {q.get("name") for q in cur["queries"]}}
        needed_data = {o["data"] for o in cor if isinstance(o, dict) and "data" in o}
        c2, o2 = self.drop_titles(cur, cor, [t for t in self.page_titles(cur) if t not in needed_titles])
        c2 = dict(c2, redirects={a: b for a, b in c2["redirects"].items() if b in needed_titles})
        got = self.first([(c2, o2)])
        if got:
            cur, cor, hit = c2, o2, got[1]
        while not self.spent():
            cands = [self.drop_titles(cur, cor, [t]) for t in self.page_titles(cur) if t not in needed_titles]
            cands += [(dict(cur, redirects={x: y for x, y in cur["redirects"].items() if x != a}), cor) for a in cur["redirects"]]
            cands += [(dict(cur, images=[x for x in cur["images"] if x is not im]), cor) for im in cur["images"] if im["data"] not in needed_data]
            got = self.first(cands)
            if not got:
                break
            (cur, cor), hit = cands[got[0]], got[1]
        # 3. the same characters deleted from every image title (and from the query, when it asks with the stored title)
        if self.kind in ("image", "exc") and len(cur["queries"]) == 1 and cur["queries"][0]["q"] == "image" and cur["queries"][0]["name"] in {im["title"] for im in cur["images"]}:
            cur, hit = self.shrink_image_titles(cur, cor, hit)
        return cur, cor, hit

    def shrink_image_titles(self, cur, cor, hit):
        def apply(case, f):
            """f maps the part after 'Ns:' of every title; None when a title becomes non-canonical or two titles collide"""
            imgs, seen = [], set()
            newq = None
            for im in case["images"]:
                ns, p = im["title"].split(":", 1)
                p2 = f(p)
                if not p2 or p2 != " ".join(p2.split()) or p2[0] != c12_gen.capitalize(p2)[0] or not p2[0].isalnum() or p2 in seen:
                    return None
                seen.add(p2)
                imgs.append(dict(im, title=ns + ":" + p2))
                if im["title"] == case["queries"][0]["name"]:
                    newq = ns + ":" + p2
            return dict(case, images=imgs, queries=[dict(case["queries"][0], name=newq)])

        # plain ASCII letters first
        c2 = apply(cur, lambda p: c12_gen.capitalize("".join(ch if ord(ch) < 128 else "a" for ch in p)))
        if c2 is not None and c2 != cur:
            got = self.first([(c2, cor)])
            if got:
                cur, hit = c2, got[1]
        c2 = apply(cur, lambda p: p[0] + "".join("a" if ch.isalnum() else ch for ch in p[1:]))
        if c2 is not None and c2 != cur:
            got = self.first([(c2, cor)])
            if got:
                cur, hit = c2, got[1]
        size = max(len(im["title"]) for im in cur["images"]) // 2
        while size >= 1 and not self.spent():
            i = 1
            while not self.spent():
                length = max(len(im["title"].split(":", 1)[1]) for im in cur["images"])
                if i >= length:
                    break
                pos, cands = [], []
                j = i
                while j < length and len(cands) < len(self.procs):
                    c2 = apply(cur, lambda p, j=j: p[:j] + p[j + size:] if len(p) > j else p)
                    if c2 is not None and c2 != cur:
                        pos.append(j)
                        cands.append((c2, cor))
                    j += size
                got = self.first(cands) if cands else None
                if got:
                    cur, hit = cands[got[0]][0], got[1]
                    i = pos[got[0]]
                else:
                    i = j
            size //= 2
        return cur, hit


class Collect:
    """stands in for the Run while evaluate() runs: keeps the monitor's hits for minimisation"""

    def __init__(self, run):
        self._run = run
        self.found = []

    def hit(self, fp, what, replay):
        self.found.append((fp, what, replay))

    def __getattr__(self, name):
        return getattr(self._run, name)


def build():
    return core.ocaml_build("c14", "C14/Extract.v", "driver.ml", dirs=["C12", "C14"])


def check(run):
    from vt.props import c12
    run.rule = ("one case = one archive: 1-6 canonical titles (12 sites, namespaces 0/1/2/4/6/10/12/14, Unicode remainders) with 1-3 revisions "
                "each (distinct revids, written in random order and random write_pages batches, some delivered twice), pages without "
                "revid, expanded pages, absent-revision pages; texts from a pool of record-format edge cases (empty, CR/LF, '--page--' "
                "lines, texts starting with the separator tail, ending with a separator prefix, embedded fake headers) and random "
                "Unicode, never containing the separator; redirects.json entries; 0-3 images with titles over the property's alphabet "
                "(and a few outside it, tie only); queries by revid, by title, by 1-3 equivalent spellings (C12 grammar), through "
                "redirects, image lookups by spelling.  40% of the archives additionally hold a FAMILY of 2-5 long image titles (file "
                "names of 24..255 characters, up to MediaWiki's 255-byte title limit and the 255-byte file-name limit) that share a "
                "long prefix and differ only at the end / in the middle / at the start / in the extension, each image with its own "
                "bytes; the monitor demands for every title (and its spellings) ITS OWN bytes.  Failing archives are minimised on the "
                "real code (one query, unrelated pages/redirects/images dropped, the same characters deleted from all image titles). "
                "distinct = distinct (site, ops, queries)")
    run.trusted = [
        "Coq 8.16.1 kernel (coqc); vm_compute in the Examples and the C12 table obligations",
        "extraction (ExtrOcamlBasic directives only) + ocaml/c14/driver.ml",
        "JSON codec of the header line (json.dumps / loads): Section hypotheses loads(dumps m) = m, no LF in dumps m; exercised by "
        "comparing the model's file (headers computed with stdlib json) with the real revisions-1.txt byte for byte",
        "zipfile + filesystem (zip_dir / extractall give back the same files), sqlitedict; urllib.parse.unquote is the identity "
        "on names without %XX (excluded by the property); the redirect matcher regex is an oracle table in the tie",
        "hand-written model of FsOutput.write_pages/write_expanded_page, NuWiki._read_revisions/_get_page/normalize_and_get_page/"
        "normalize_and_get_image_path, fs_escape, python2sort (coq/C14/Model.v); tie = differential run",
        "everything C12 trusts (title normalisation model, Unicode and site tables)",
    ]
    run.assumptions = [
        "texts do not contain the record separator '\\n\\x0c --page-- ' (excluded by the property); no excluded.json is written",
        "titles are written in canonical form; titles contain no %XX escapes",
        "a page whose own text is a redirect (#REDIRECT [[..]]) is served by following it when asked by revision id: such texts are "
        "outside the by-revid round-trip claim (tie only)",
        "one revision id is written with one text (duplicates are re-deliveries of the same revision)",
        "image titles are storable: the escaped file name fits into 255 bytes (a longer one cannot be created on the file systems "
        "in use: open() fails at write time, nothing is stored); image titles whose LAST dot is followed by more than 190 "
        "characters are not generated until /verif/fixes/C14-safe-link-extension.diff is in /repo (VERIF_C14_LONG_DOT_TAIL=1 "
        "generates them: normalize_and_get_image_path raises OSError ENAMETOOLONG for the images/safe symlink)",
    ]
    src = core.snapshot(need_ext=True)
    ok = run.check_proofs("C14", gen=lambda: c12.generate(src), dirs=["C12"])
    exe = build()
    sites = load_sites(src)
    quick = run.tier == "quick"
    ncases = 520 if quick else 20000
    nshards = 6 if quick else 16
    gen = CaseGen(run.rng, sites)
    cases, metas = [], []
    corpus = os.path.join(core.VERIF, "corpus", "C14")
    if os.path.isdir(corpus):
        for fn in sorted(os.listdir(corpus)):
            obj = json.load(open(os.path.join(corpus, fn)))
            obj["case"]["id"] = len(cases)
            cases.append(obj["case"])
            metas.append({"oracles": obj["oracles"], "image_alphabet": [im["title"] for im in obj["case"]["images"]],
                          "pages": 1, "redirect_texts": 0})
    while len(cases) < ncases:
        c, m = gen.case(len(cases))
        cases.append(c)
        metas.append(m)
    shards = [[] for _ in range(nshards)]
    for i, c in enumerate(cases):
        shards[i % nshards].append(c)
    jobs = [(src, "".join(json.dumps(c) + "\n" for c in sh), k) for k, sh in enumerate(shards)]
    with concurrent.futures.ThreadPoolExecutor(max_workers=nshards) as ex:
        outs = list(ex.map(run_shard, jobs))
    byid = {}
    for o in outs:
        for r in o:
            byid[r["id"]] = r
    if len(byid) != len(cases):
        raise RuntimeError("harness returned %d results for %d cases" % (len(byid), len(cases)))
    results = [byid[c["id"]] for c in cases]
    stats = {k: 0 for k in ["cases", "pages", "queries", "images", "redirects", "records", "texts_starting_with_separator_tail",
                            "redirect_page_texts"]}
    col = Collect(run)
    dis = evaluate(col, cases, metas, results, exe, stats)
    stats["image_titles_skipped_dot_tail"] = gen.skipped_dot_tail
    stats["image_name_length_max"] = max([len(f) for r in results for f in r.get("image_files", [])] or [0])
    stats["image_names_longer_than_200"] = sum(1 for r in results for f in r.get("image_files", []) if len(f) > 200)
    stats["archives_with_4_or_more_images"] = sum(1 for c in cases if len(c["images"]) >= 4)
    # ---- report: the first failing archives minimised on the real code, a few more as found
    minimised_cases, raw_cases, seen_fp = set(), set(), set()
    for fp, what, rp in col.found:
        cid = rp["case"]["id"]
        if cid in minimised_cases or cid in raw_cases:
            continue
        if len(minimised_cases) < 2:
            minimised_cases.add(cid)
            small = None
            try:
                small = Shrinker(src, fp.split(":", 1)[0], seconds=60 if quick else 150).run(rp["case"], rp["oracles"])
            except Exception as e:  # noqa: BLE001   (the hit as found is still a hit)
                core.log("C14: minimisation failed: %r" % (e,))
            if small is not None:
                case2, or2, hit2 = small
                case2 = dict(case2, id=0)
                if hit2[0] in seen_fp:
                    continue
                seen_fp.add(hit2[0])
                run.hit(hit2[0], hit2[1] + "   [minimised on the real code from an archive with %d write ops, %d images, %d queries]"
                        % (len(rp["case"]["ops"]), len(rp["case"]["images"]), len(rp["case"]["queries"])),
                        {"case": case2, "oracles": or2, "found_as": {"fingerprint": fp, "case": rp["case"], "oracles": rp["oracles"]}})
                continue
            run.hit(fp, what, rp)
        elif len(raw_cases) < 3:
            raw_cases.add(cid)
            run.hit(fp, what, rp)
    run.tie("archive: model vs FsOutput/zip_dir/make_wiki (revisions file bytes, every lookup answer, image file names)", len(cases), dis)
    run.coverage["input_distribution"] = stats
    run.coverage["exhaustive"] = False


def replay(obj):
    src = core.snapshot(need_ext=True)
    rp = obj["replay"]
    if "case" not in rp:
        print(json.dumps(rp, indent=1)[:3000])
        return 1
    case = rp["case"]
    sbox = os.path.join(core.scratch(), "c14box")
    os.makedirs(sbox, exist_ok=True)
    rc, out = core.run_impl("vt.harness.c14_impl", [sbox], src=src, input=json.dumps(case) + "\n")
    res = json.loads([ln for ln in out.splitlines() if ln.startswith("{")][-1])

    class R:
        hits = []
        samples = [0] * 9

        def hit(self, fp, what, replay):
            self.hits.append(what)

        def count(self, *a, **k):
            pass

        def sample(self, *a, **k):
            pass
    r = R()
    meta = {"oracles": rp["oracles"], "image_alphabet": [im["title"] for im in case["images"]], "pages": 1, "redirect_texts": 0}
    stats = {k: 0 for k in ["cases", "pages", "queries", "images", "redirects", "records", "texts_starting_with_separator_tail",
                            "redirect_page_texts"]}
    evaluate(r, [case], [meta], [res], build(), stats)
    for h in r.hits[:5]:
        print(h[:600])
    print("REPRODUCED" if r.hits else "not reproduced")
    return 1 if r.hits else 0
