"""C06/C07 — fix_nesting: tie of the Coq model (coq/C06/ModelNesting.v) to /repo's current source.

generate(src)      vt/gen/c06_nesting.py: regenerates coq/C06/Gen_nesting.v (forbidden_parents / outside_parents_invisible
                   from TreeCleaner.__init__) and checks the shape of _mark_nodes (identity) / _filter_tree / _fix_nesting;
                   coq/C06/ProofsNestingGen.v proves the generated tables equal to the model's.
build()            ocaml/c06n/driver.exe around the EXTRACTED fix_nesting / nest_step (identity marks, real tables).
nesting_tie(run, src)   random class skeletons -> extracted model vs the real TreeCleaner.fix_nesting on real advtree
                   objects (vt/harness/c06_nesting.py): outcome kind, number of repairs, resulting tree (classes, exception
                   flags, words, shape; identities of copies are not compared)."""
import subprocess
import time

from vt import core
from vt.gen import c06_nesting as gen
from vt.harness.c05_snap import CLS

TIE_NAME = ("fix_nesting: extracted model (identity marks) vs real TreeCleaner.fix_nesting on random class skeletons "
            "(result skeleton, RAISED)")
EXTRA = ["Div", "Span", "Table", "Section", "Reference", "Row", "Cell", "Item", "Strong", "Article"]
FALLBACK_KEYS = ["ImageLink", "ItemList", "Source", "DefinitionList", "Blockquote", "Center", "Paragraph", "Section", "Gallery",
                 "Table", "PreFormatted"]
FALLBACK_VALS = ["PreFormatted", "Paragraph", "DefinitionDescription", "DefinitionList", "DefinitionTerm", "Code", "Emphasized",
                 "Big", "Center"]


def generate(src):
    return gen.generate(src)


def build():
    return core.ocaml_build("c06n", "C06/ExtractNesting.v", "driver.ml", dirs=["C05", "C06", "C07"])


# --------------------------------------------------------------------------- random trees
class Gen:
    def __init__(self, rng, table):
        self.rng = rng
        self.table = {CLS[k]: [CLS[v] for v in vs] for k, vs in table}
        self.keys = sorted(self.table)
        self.vals = sorted({v for vs in self.table.values() for v in vs})
        self.pool = sorted(set(self.keys + self.vals + [CLS[n] for n in EXTRA]))
        self.text = CLS["Text"]

    def pick_class(self, anc):
        r = self.rng.random()
        if r < 0.30:
            return self.text
        if r < 0.60 and anc:
            cands = [k for k in self.keys if any(a in self.table[k] for a in anc)]
            if cands:
                return self.rng.choice(cands)
        if r < 0.75:
            return self.rng.choice(self.vals)
        return self.rng.choice(self.pool)

    def node(self, cls, anc, depth, budget):
        """returns (tree, nodes used); tree = [cls, exc, words, kids]"""
        rng = self.rng
        if cls == self.text:
            return [cls, 0, [rng.randint(1, 9) for _ in range(rng.choice((1, 1, 2)))], []], 1
        exc = 1 if rng.random() < 0.04 else 0
        kids = []
        used = 1
        if depth < 5:
            want = rng.choice((0, 1, 1, 2, 2, 3, 4))
            for _ in range(want):
                if used >= budget:
                    break
                if kids and rng.random() < 0.15:
                    dup = self.clone(rng.choice(kids))
                    sz = self.size(dup)
                    if used + sz <= budget:
                        kids.append(dup)
                        used += sz
                        continue
                k, u = self.node(self.pick_class([cls] + anc), [cls] + anc, depth + 1, budget - used)
                kids.append(k)
                used += u
        return [cls, exc, [], kids], used

    def clone(self, t):
        return [t[0], t[1], list(t[2]), [self.clone(k) for k in t[3]]]

    def size(self, t):
        return 1 + sum(self.size(k) for k in t[3])

    def tree(self):
        rng = self.rng
        root = CLS["Article"] if rng.random() < 0.93 else rng.choice(self.vals)
        for _ in range(50):
            t, used = self.node(root, [], 1, rng.randint(3, 14))
            if used >= 3:
                return t
        return t


def serialise(t):
    out = []
    counter = [0]

    def go(n):
        counter[0] += 1
        out.extend([counter[0], n[0], n[1], len(n[2])] + n[2] + [len(n[3])])
        for k in n[3]:
            go(k)

    go(t)
    return " ".join(str(x) for x in out), counter[0]


def has_equal_siblings(t):
    seen = [repr(k) for k in t[3]]
    return len(set(seen)) < len(seen) or any(has_equal_siblings(k) for k in t[3])


def compare(m, p):
    """m: model line, p: implementation line -> None if they agree, else a description"""
    mt, pt = m.split(" ", 3), p.split(" ", 2)
    if mt[0] == "DONE" and pt[0] == "DONE":
        if mt[1] != pt[1]:
            return "number of repairs: model %s impl %s" % (mt[1], pt[1])
        if mt[3] != pt[2]:
            return "result: model %s impl %s" % (mt[3], pt[2])
        return None
    if mt[0] == "RAISED" and pt[0] == "RAISED":
        q = p.split(" ")
        if q[1] != "AttributeError":
            return "impl raises %s, model: AttributeError (root is the bad parent)" % q[1]
        if int(q[2]) != int(mt[1]) + 1:
            return "repairs before the raise: model %s impl %s-1" % (mt[1], q[2])
        return None
    return "outcome: model %s | impl %s" % (m[:80], p[:120])


def nesting_tie(run, src, n=None, exe=None):
    t0 = time.time()
    n = n or (1500 if run.tier == "quick" else 15000)
    exe = exe or build()
    g = Gen(run.rng, gen.analyse(src)["forbidden_parents"])
    lines, sizes, eqsib = [], [], 0
    for _ in range(n):
        t = g.tree()
        s, sz = serialise(t)
        lines.append(s)
        sizes.append(sz)
        eqsib += 1 if has_equal_siblings(t) else 0
    inp = "\n".join(lines) + "\n"
    mp = subprocess.run([exe], input=inp, capture_output=True, text=True, timeout=600)
    mout = mp.stdout.strip("\n").split("\n")
    rc, pout = core.run_impl("vt.harness.c06_nesting", [], src=src, input=inp, timeout=900)
    pout = [x for x in pout.strip("\n").split("\n")]
    dis = []
    if mp.returncode != 0 or len(mout) != n:
        dis.append("model driver: rc=%s, %d lines for %d cases: %s" % (mp.returncode, len(mout), n, (mp.stderr or "")[-300:]))
    if rc != 0 or len(pout) != n:
        dis.append("harness: rc=%s, %d lines for %d cases: %s" % (rc, len(pout), n, "\n".join(pout[-3:])[-300:]))
    kinds = {}
    it1 = it2 = it3 = 0
    maxit = 0
    if not dis:
        for i in range(n):
            m, p = mout[i], pout[i]
            k = m.split(" ", 1)[0]
            kinds[k] = kinds.get(k, 0) + 1
            d = compare(m, p) if k in ("DONE", "RAISED") and p.split(" ", 1)[0] in ("DONE", "RAISED") else \
                "outcome: model %s | impl %s" % (m[:80], p[:160])
            if d is not None:
                dis.append("%s  INPUT %s" % (d, lines[i]))
            its = int(m.split(" ")[1]) if k in ("DONE", "RAISED") else 0
            it1 += its >= 1
            it2 += its >= 2
            it3 += its >= 3
            maxit = max(maxit, its)
            run.count("nest:" + lines[i], nontrivial=its >= 1 or k == "RAISED")
        for i in range(min(3, n)):
            run.sample({"fix_nesting_tree": lines[i], "model": mout[i][:300], "impl": pout[i][:300]})
    run.tie(TIE_NAME, n, dis[:20])
    run.coverage.setdefault("input_distribution", {})["fix_nesting_differential"] = {
        "cases": n, "nodes_min": min(sizes), "nodes_max": max(sizes), "nodes_mean": round(sum(sizes) / float(n), 2),
        "outcome_kinds_model": kinds, "trees_with_structurally_equal_siblings": eqsib,
        "needed_ge_1_iteration": it1, "needed_ge_2_iterations": it2, "needed_ge_3_iterations": it3,
        "max_iterations": maxit, "seconds": round(time.time() - t0, 2)}
    return dis
