"""C12 — title normalisation is canonical and idempotent.
Proof: coq/C12 (model of NsHandler.splitname generic in Unicode tables + site; theorems instantiated for the 12
bundled sites with tables regenerated from /repo and from the running CPython).
Tie: extracted model vs NsHandler.splitname on structured titles.  Search: idempotence / spelling invariance /
shape oracle on the real outputs."""
import base64
import concurrent.futures
import json
import os

from vt import core
from vt.gen import c12_sites, c12_unicode

LEVEL = "proof"
CDIR = os.path.join(core.COQ, "C12")


def generate(src):
    info = c12_unicode.generate(os.path.join(CDIR, "Gen_unicode.v"), core.write_if_changed)
    langs = c12_sites.generate(src, os.path.join(CDIR, "Gen_sites.v"), core.write_if_changed)
    return info, langs


def build():
    return core.ocaml_build("c12", "C12/Extract.v", "driver.ml")


def run_shard(args):
    src, seed, shard, ngroups, exe, corpus = args
    rc, out = core.run_impl("vt.harness.c12_impl", ["run", str(seed), str(shard), str(ngroups), exe] + ([corpus] if corpus else []),
                            src=src, timeout=3000)
    line = [ln for ln in out.splitlines() if ln.startswith("{")]
    if rc != 0 or not line:
        raise RuntimeError("c12 harness shard %d failed rc=%s: %s" % (shard, rc, out[-1500:]))
    return json.loads(line[-1])


def run_life(args):
    src, seed, shard, njobs = args
    rc, out = core.run_impl("vt.harness.c12_impl", ["lifetimes", str(seed), str(shard), str(njobs)], src=src, timeout=3000)
    line = [ln for ln in out.splitlines() if ln.startswith("{")]
    if rc != 0 or not line:
        raise RuntimeError("c12 lifetimes shard %d failed rc=%s: %s" % (shard, rc, out[-1500:]))
    return json.loads(line[-1])


def show_ops(ops, limit=14):
    out = []
    for o in ops:
        if o[0] == "load":
            out.append("load#%d %s(%s)" % (o[1], o[2], o[3]))
        elif o[0] == "drop":
            out.append("drop#%d+gc" % o[1])
        else:
            out.append("#%d.%s(%r, %d)" % (o[1], "get_fqname" if o[2] == "fq" else "splitname", o[3], o[4]))
    if len(out) > limit:
        out = out[:4] + ["... %d more ..." % (len(out) - limit + 2)] + out[-(limit - 6):]
    return "; ".join(out)


def minimise_life(src, h):
    """shorter lifetime history (jobs load siteinfo -> handler -> lookups -> drop) that still ends in a wrong answer; every
    candidate runs as a history of its own in a fresh process"""
    out = dict(h)
    try:
        rc, txt = core.run_impl("vt.harness.c12_impl", ["minimise"], src=src, input=json.dumps({"ops": h["ops"]}), timeout=900)
        m = json.loads([ln for ln in txt.splitlines() if ln.startswith("{")][-1])
        if m.get("reproduced") and m.get("problems"):
            out.update(ops=m["ops"], lang=m["lang"], dns=m["dns"], title=m["title"], api=m["api"], kind=m["problems"][0][0],
                       detail=m["problems"][0][1])
    except Exception:  # noqa: BLE001   (the unminimised hit is still a hit)
        pass
    return out


def minimise_hit(src, h):
    """ask the harness (fresh process, forked children per candidate) for the smallest failing history + title"""
    obj = {"lang": h["lang"], "dns": h["dns"], "title": h["title"], "expect": h.get("expect"), "history": h["history"], "inst": h["inst"],
           "api": h.get("api", "split"), "calls": h.get("calls") or []}
    out = dict(obj, kind=h["kind"], detail=h["detail"])
    try:
        rc, txt = core.run_impl("vt.harness.c12_impl", ["minimise"], src=src, input=json.dumps(obj), timeout=300)
        m = json.loads([ln for ln in txt.splitlines() if ln.startswith("{")][-1])
        if m.get("reproduced") and m.get("problems"):
            out.update(lang=m["lang"], dns=m["dns"], title=m["title"], expect=m.get("expect"), history=m["history"], inst=m["inst"], calls=m.get("calls") or [],
                       kind=m["problems"][0][0], detail=m["problems"][0][1])
    except Exception:  # noqa: BLE001   (the unminimised hit is still a hit)
        pass
    hist = out["history"]
    out["history_note"] = ""
    if len(hist) > 1:
        out["history_note"] = ("   [handlers created in this process, in order: %s; the failing call is on handler #%d]"
                               % (", ".join("%s(%s)" % (e[0], e[1]) for e in hist), out["inst"]))
    if out["calls"]:
        shown = ", ".join("#%d.%s(%r, %d)" % (c[1], "get_fqname" if c[2] == "fq" else "splitname", c[3], c[4]) for c in out["calls"][:6])
        out["history_note"] += ("   [earlier lookups on the handler, in order (%d): %s%s]"
                                % (len(out["calls"]), shown, ", ..." if len(out["calls"]) > 6 else ""))
    return out


def corpus_file():
    d = os.path.join(core.VERIF, "corpus", "C12")
    items = []
    if os.path.isdir(d):
        for fn in sorted(os.listdir(d)):
            if fn.endswith(".json"):
                obj = json.load(open(os.path.join(d, fn)))
                items.extend(obj if isinstance(obj, list) else [obj])
    if not items:
        return None
    p = os.path.join(core.scratch(), "c12_corpus.json")
    json.dump(items, open(p, "w"))
    return p


def check(run):
    run.rule = ("groups of spellings of one canonical title from the grammar of the property: edge* (':' edge*)* <namespace name: local/"
                "canonical/alias of the site, per-letter case variants, each space as a run of ' '/'_'> ws* ':' edge* <remainder, first "
                "letter in either case> edge*  (edge = the 29 white-space code points, U+200E, U+200F, '_'); remainders over letters "
                "that exercise the case tables (ß ŉ ǆ ǅ İ ı σ ς Σ ſ µ K ﬁ ǰ U+0345, non-BMP, random code points of cased blocks); "
                "prefix-less titles; 'wild' mixes of name fragments, colons and marks; 12 sites x default namespaces {0,6,10,14}; every "
                "canonical full name produced by the real code is fed back under each default namespace.  Spaces are written as runs "
                "of 1..9 ' '/'_'.  HISTORIES OF LOOKUPS ON ONE HANDLER: per shard max(60, groups/2) sequences of 2-8 splitname/get_fqname "
                "calls on one handler (new or living) that share one or two prefixes (a text that is no namespace anywhere such as "
                "'Star Trek', a namespace name of another site, a name/alias of this site; letter case varied), every call with its "
                "own default namespace from {0,6,10,14,1,2,4,12} in random order; EVERY evaluation of the run is also compared with the "
                "answer of a handler just made from the same siteinfo (history independence).  Every lookup on every handler is "
                "logged, so a hit carries the lookups made before on that handler (and on the handlers it was pickled from) and is "
                "minimised to the shortest sequence that still fails.  SEVERAL NsHandler OBJECTS OF DIFFERENT SITES LIVE IN ONE PROCESS: each of the 8 (16) harness "
                "processes first creates and uses handlers of all 12 sites in a shard-dependent order (odd shard = reverse of the "
                "even one, so every pair of sites is set up in both orders), later further handlers (constructor, deep copy, "
                "get_nshandler_for_lang, pickle round trip); every shard sweeps EVERY (site, namespace name of ANY bundled site) and "
                "'foreign' groups ask one name of 2-3 sites in a row.  The monitor judges every answer against the canonical form "
                "computed from the site's OWN siteinfo JSON (vt/harness/c12_ref.py; None = outside the grammar, not judged), plus "
                "shape, idempotence and invariance under folding runs / stripping the surroundings.  Hits are minimised on the real "
                "code (smallest handler history in forked children, then greedy title shrinking).  OBJECT LIFETIMES: each of the 8 (16) "
                "further processes runs 400 (6000) jobs 'load the siteinfo of a site afresh (json.load of its file / json.loads / deep "
                "copy) -> NsHandler -> 1-4 lookups with a namespace name of this or of another site -> drop everything -> gc.collect()', "
                "up to 3 jobs overlapping, sites changing from job to job (address space randomisation off, fixed hash seed, so "
                "a history is replayable); every answer is judged against the site's own table; a wrong answer is minimised by "
                "delta debugging over whole jobs, each candidate history in a fresh process.  distinct = distinct (site, "
                "default namespace, title); non-trivial = the title has a decoration, a separator or a non-ASCII character")
    run.trusted = [
        "Coq 8.16.1 kernel (coqc); vm_compute for the finite table/site obligations",
        "extraction (ExtrOcamlBasic directives only) + ocaml/c12/driver.ml",
        "translators vt/gen/c12_unicode.py (CPython's white-space set, full upper/lower mappings, Cased/Case_Ignorable recovered "
        "behaviourally from str.lower and re-validated) and vt/gen/c12_sites.py (siteinfo JSON as NsHandler reads it)",
        "hand-written model of splitname/_find_namespace/maybe_capitalize and of str.replace/strip/lower/split, re.sub(' +',' '), "
        "the _edge_rex substitution (coq/C12/Model.v); tie = differential run against the real code",
    ]
    run.assumptions = [
        "the interpreter that runs mwlib is the CPython whose tables were translated (same process family: /venv/bin/python)",
        "idempotence of a main-namespace name is stated under default namespace 0 (an unprefixed name is by definition read in "
        "the default namespace); names of every other namespace are fixed points under every default namespace",
        "case variants of a namespace name are per-letter one-to-one case changes (x, x.upper(), x.lower() when one character)",
        "the model's splitname takes the site as a VALUE; that the answer of a real handler depends only on the value of its siteinfo (not "
        "on object identity, addresses, or objects of other sites that lived before in the process) is not a Coq statement: it is what the "
        "handler-history and object-lifetime runs check on the real code",
    ]
    src = core.snapshot(need_ext=False)
    info = {}

    def gen():
        info["gen"] = generate(src)
    ok = run.check_proofs("C12", gen=gen)
    exe = build()
    quick = run.tier == "quick"
    nshards = 8 if quick else 16
    ngroups = 300 if quick else 12000
    corpus = corpus_file()
    jobs = [(src, run.seed, i, ngroups, exe, corpus) for i in range(nshards)]
    njobs = 400 if quick else 6000
    with concurrent.futures.ThreadPoolExecutor(max_workers=nshards) as ex:
        life_f = [ex.submit(run_life, (src, run.seed, i, njobs)) for i in range(nshards)]
        results = list(ex.map(run_shard, jobs))
        life = [f.result() for f in life_f]
    dis = []
    tie_cases = 0
    dist = {}
    raw_hits = []
    orders = []
    for r in results:
        tie_cases += r["tie_cases"]
        dis.extend(r["disagreements"])
        run.evaluations += r["tie_cases"]
        for d in r["digests"]:
            run.nontrivial.add(bytes.fromhex(d))
        for k, v in r["dist"].items():
            dist[k] = dist.get(k, 0) + v
        for s in r["samples"]:
            run.sample(s)
        raw_hits.extend(r["hits"])
        orders.append(" ".join(r["site_order"]))
    # ---- minimise: smallest history of handler objects, then smallest title, that still makes the oracle fire (each
    # candidate is judged in a fresh process image); one report per (kind, site, minimised title)
    seen_fp = set()
    classes = {}
    for h in raw_hits:
        if classes.get((h["kind"], h["lang"]), 0) >= 2 or len(seen_fp) >= 8:
            continue
        classes[(h["kind"], h["lang"])] = classes.get((h["kind"], h["lang"]), 0) + 1
        m = minimise_hit(src, h)
        fp = "%s:%s:%d:%s" % (m["kind"], m["lang"], m["dns"], m["title"])
        if len(m["history"]) > 1:
            fp += ":after:" + ",".join(e[0] for e in m["history"])
        if m["calls"]:
            fp += ":after-lookups:" + ";".join("%s/%d" % (c[3], c[4]) for c in m["calls"][:4])
        anysite = (m["kind"], m["dns"], m["title"], json.dumps(m["calls"])) if len(m["history"]) <= 1 else fp
        if fp in seen_fp or anysite in seen_fp:
            continue              # the same minimal title fails on another site too: one report
        seen_fp.add(fp)
        seen_fp.add(anysite)
        run.hit(fingerprint=fp, what="%s: site %s: %s%s" % (m["kind"], m["lang"], m["detail"], m["history_note"]),
                replay={"lang": m["lang"], "dns": m["dns"], "title": m["title"], "expect": m.get("expect"),
                        "history": m["history"], "inst": m["inst"], "api": m["api"], "calls": m["calls"], "title_codepoints": [ord(c) for c in m["title"]],
                        "found_as": {"title": h["title"], "dns": h["dns"], "handlers_in_process": len(h["history"]),
                                     "group": h["group"]}})
    # ---- object lifetimes: handlers on freshly loaded siteinfo objects that are dropped and re-created across sites
    life_hits = []
    lstats = {"processes": len(life), "jobs": 0, "loads": 0, "lookups": 0, "drops_with_gc": 0, "judged_by_site_reference": 0, "wrong_answers": 0}
    for r in life:
        lstats["jobs"] += r["jobs"]
        lstats["loads"] += r["stats"]["loads"]
        lstats["lookups"] += r["stats"]["uses"]
        lstats["drops_with_gc"] += r["stats"]["drops"]
        lstats["judged_by_site_reference"] += r["stats"]["judged_by_site_reference"]
        lstats["wrong_answers"] += r["problems"]
        run.evaluations += r["stats"]["uses"]
        for d in r["digests"]:
            run.nontrivial.add(bytes.fromhex(d))
        life_hits.extend(r["hits"])
    life_hits.sort(key=lambda h: h["op_index"])
    for h in life_hits[:1]:
        m = minimise_life(src, h)
        loads = [o for o in m["ops"] if o[0] == "load"]
        run.hit(fingerprint="lifetime:%s:%s:%d:%s:after:%s" % (m["kind"], m["lang"], m["dns"], m["title"], ",".join(o[2] for o in loads)),
                what="%s: site %s: %s   [object lifetimes in this process, in order (%d jobs): %s]"
                     % (m["kind"], m["lang"], m["detail"], len(loads), show_ops(m["ops"])),
                replay={"ops": m["ops"], "lang": m["lang"], "dns": m["dns"], "title": m["title"], "api": m["api"],
                        "found_as": {"ops": len(h["ops"]), "first_wrong_answer_at_op": h["op_index"]}})
    run.obligation("lifetime histories: every answer of a handler on a freshly loaded siteinfo agrees with the site's own table",
                   lstats["wrong_answers"] == 0, "%d wrong answers in %d lookups" % (lstats["wrong_answers"], lstats["lookups"]))
    run.coverage["lifetime_histories"] = lstats
    dist["raw_monitor_hits"] = len(raw_hits) + lstats["wrong_answers"]
    run.coverage["handler_creation_orders"] = orders
    run.tie("splitname: extracted model vs NsHandler.splitname (ns, remainder, full name / KeyError)", tie_cases, dis)
    if "gen" in info:
        g, langs = info["gen"]
        run.obligation("translator: 12 bundled sites", len(langs) == 12, "sites: " + ",".join(langs))
        run.coverage["generated_tables"] = g
    dist["mean_title_length"] = round(dist.pop("len_sum", 0) / max(1, dist.get("spellings", 1)), 1)
    run.coverage["input_distribution"] = dist
    run.coverage["exhaustive"] = False
    run.coverage["exhaustive_part"] = ("the Unicode obligations are checked for every code point (tables cover 0..0x10FFFF); the site "
                                       "obligations for every namespace name/alias of the 12 sites")


def replay(obj):
    src = core.snapshot(need_ext=False)
    rc, out = core.run_impl("vt.harness.c12_impl", ["replay"], src=src, input=json.dumps(obj["replay"]))
    print(out)
    try:
        r = json.loads([ln for ln in out.splitlines() if ln.startswith("{")][-1])
    except Exception:
        return 0
    bad = bool(r.get("problems"))
    print("REPRODUCED" if bad else "not reproduced")
    return 1 if bad else 0
