"""C05 — document trees stay well-formed and meet the writers' structural contract.

Proof: coq/C05 (Heap.v model of the AdvancedNode tree API; wfb_spec, contract_spec; the five API operations
preserve WF under their stated preconditions, for all heaps and all op sequences).
Tie: the five API methods on real AdvancedNode objects vs the model, random heaps and op sequences.
Monitor (decides the universal statement about the ~58 passes by exploration): the EXTRACTED wfb / contractb run on
snapshots of the real tree after build_advanced_tree and after every cleaner pass, over an adversarial and a
well-formed input space.  This module also hosts the exploration shared with C06 and C07."""
import collections
import hashlib
import json
import os
import subprocess
import threading

from vt import core
from vt.harness import c05_gen as G
from vt.harness import c05_snap as S

LEVEL = "proof"
NSHARD = min(16, core.NPROC)
NAMES = {v: k for k, v in S.CLS.items() if k != "TableCaption"}


def build():
    return core.ocaml_build("c05", "C05/Extract.v", "driver.ml", dirs=["C05"])


# ------------------------------------------------------------------ running the real code (sharded)
def run_sharded(module, args, jobs, src, timeout=3000):
    """jobs: list of JSON-able dicts with an "id"; returns {id: result}"""
    n = max(1, min(NSHARD, len(jobs)))
    outs = [None] * n
    procs = []
    for k in range(n):
        p = subprocess.Popen([core.PY, "-m", module] + list(args), cwd=core.VERIF, env=core.impl_env(src),
                             stdin=subprocess.PIPE, stdout=subprocess.PIPE, stderr=subprocess.DEVNULL, text=True)
        procs.append(p)

    def feed(k):
        try:
            outs[k] = procs[k].communicate("".join(json.dumps(j) + "\n" for j in jobs[k::n]), timeout=timeout)[0]
        except subprocess.TimeoutExpired:
            procs[k].kill()
            outs[k] = ""

    ths = [threading.Thread(target=feed, args=(k,)) for k in range(n)]
    for t in ths:
        t.start()
    for t in ths:
        t.join()
    res = {}
    for o in outs:
        for ln in (o or "").splitlines():
            if ln.startswith("{"):
                r = json.loads(ln)
                res[r.get("id")] = r
    return res


def run_model(exe, lines, timeout=3000):
    """lines: list of protocol lines; sharded over processes; returns list of output lines"""
    n = max(1, min(NSHARD, (len(lines) + 199) // 200))
    outs = [None] * n

    def go(k):
        try:
            p = subprocess.run([exe], input="".join(l + "\n" for l in lines[k::n]), capture_output=True, text=True, timeout=timeout)
            outs[k] = p.stdout.splitlines()
        except subprocess.TimeoutExpired:
            outs[k] = []

    ths = [threading.Thread(target=go, args=(k,)) for k in range(n)]
    for t in ths:
        t.start()
    for t in ths:
        t.join()
    res = [None] * len(lines)
    for k in range(n):
        idx = list(range(len(lines)))[k::n]
        for i, o in zip(idx, outs[k]):
            res[i] = o
    return res


def parse_R(out):
    """'R w c W w:s:d:r:t ... T id:r:c ...' -> (wf, contract, cwords, tables)"""
    if not out or not out.startswith("R "):
        return None
    head, rest = out[2:].split(" W ", 1) if " W " in out else (out[2:].split(" W")[0], "")
    wpart, tpart = (rest.split(" T ", 1) + [""])[:2] if " T " in rest else (rest.split(" T")[0], "")
    w, c = head.split()[:2]
    cw = [tuple(int(x) for x in t.split(":")) for t in wpart.split()]
    tabs = {}
    for t in tpart.split():
        a, b, d = t.split(":")
        tabs[int(a)] = (int(b), int(d))
    return (w == "1", c == "1", cw, tabs)


# ------------------------------------------------------------------ exploration shared by C05 / C06 / C07
ATTR_FILES = ["mwlib/parser/treecleaner.py", "mwlib/parser/treecleanerhelper.py", "mwlib/parser/advtree.py",
              "mwlib/rendering/styleutils.py", "mwlib/rendering/miscutils.py"]


def read_attr_names(src):
    """Literal keys that the anchored sources read from node.attributes / vlist / style (x.get("k"), x["k"], `key in [..]` /
    `key == ".."` inside AdvancedNode._clean_attrs).  They extend the numeric-attribute alphabet of the generator (every
    attribute the CURRENT source reads by name gets the full number-spelling sweep).  Pure syntax; a source that cannot be
    parsed contributes nothing (the static alphabet of c05_gen remains)."""
    import ast
    names = set()
    styles = set()
    recv = ("attributes", "vlist", "style", "attrs", "attr", "get_style", "get_attributes", "vlist_")
    for rel in ATTR_FILES:
        try:
            tree = ast.parse(open(os.path.join(src, rel), encoding="utf8").read())
        except (OSError, SyntaxError):
            continue

        def last_name(e):
            while isinstance(e, (ast.Call, ast.Subscript)):
                e = e.func if isinstance(e, ast.Call) else e.value
            if isinstance(e, ast.Attribute):
                return e.attr
            if isinstance(e, ast.Name):
                return e.id
            return ""

        for n in ast.walk(tree):
            if (isinstance(n, ast.Call) and isinstance(n.func, ast.Attribute) and n.func.attr in ("get", "pop", "setdefault", "has_key")
                    and n.args and isinstance(n.args[0], ast.Constant) and isinstance(n.args[0].value, str)
                    and last_name(n.func.value) in recv):
                (styles if "style" in last_name(n.func.value) else names).add(n.args[0].value)
            elif (isinstance(n, ast.Subscript) and isinstance(n.slice, ast.Constant) and isinstance(n.slice.value, str)
                  and last_name(n.value) in recv):
                (styles if "style" in last_name(n.value) else names).add(n.slice.value)
            elif isinstance(n, ast.FunctionDef) and n.name == "_clean_attrs":
                for c in ast.walk(n):
                    if isinstance(c, ast.Compare) and isinstance(c.left, ast.Name):
                        for comp in c.comparators:
                            for k in ast.walk(comp):
                                if isinstance(k, ast.Constant) and isinstance(k.value, str):
                                    names.add(k.value)
    ok = lambda x: x and len(x) < 30 and all(ch.isalnum() or ch in "-_" for ch in x)
    return sorted(x for x in names if ok(x)), sorted(x for x in styles if ok(x))


def gen_docs(rng, space, n, first=True):
    docs = []
    if space == 1:
        for t in G.SEEDS:
            docs.append(t)
        while len(docs) < n:
            docs.append(G.adversarial(rng))
        if first:      # on top of the n documents: numeric attribute x number spelling, exhaustively (small documents)
            docs.extend(G.numeric_sweep())
            docs.extend(G.captioned_table_sweep())      # caption richness x trigger of every table pass
            docs.extend(G.refname_sweep())              # footnote name x spelling, definition / empty use, both orders
            docs.extend(G.refgroup_sweep())             # one footnote name x group of every occurrence (absent / g / h / empty), all orders
    elif space == 3:
        while len(docs) < n:
            docs.append(G.deep(rng))
    else:
        while len(docs) < n:
            docs.append(G.wellformed(rng, named_refs=(rng.random() < 0.25)))
        if first:      # on top: one article linked twice, label x label x place (small documents)
            docs.extend(G.reflink_sweep())
            docs.extend(G.ordinary_table_sweep())       # small table shape x caption richness x caption above / below
    return docs


def wf_reason(line):
    root, cells = S.parse_line(line)
    why = S.py_wf(root, cells)
    if not why:
        return "?"
    import re
    m = re.match(r"node (\d+) \((\d+)\) listed twice", why)
    if m:
        return "a node is listed twice"
    m = re.match(r"parent link of (\d+) is (\d+), listed by (\d+)", why)
    if m:
        d = {c[0]: c for c in cells}
        k, p = int(m.group(1)), int(m.group(2))
        return "stale parent link (%s)" % ("None" if p == 0 else ("outside the tree" if p not in d else "another node"))
    if "has children" in why:
        return "a text node has children"
    return re.sub(r"\d+", "N", why)


def evaluate(exe, results, space):
    """Run the extracted checkers on every distinct snapshot and attach the verdicts.
    Returns (per-doc findings, tie disagreements, stats)."""
    lines = []
    index = {}
    pyv = {}
    for r in results.values():
        if r.get("status") != "ok":
            continue
        ls = [(ln, pv) for _lab, ln, pv in r["snaps"]]
        if not r.get("cycle_ca"):
            ls += [(ln, pv) for _lab, ln, pv in r.get("snaps_ca", [])]
        ca = r.get("clean_all") or {}
        for k in ("before", "after"):
            if ca.get(k):
                ls.append((ca[k], ca.get("pv_" + k)))
        for ln, pv in ls:
            if ln not in index and not (r.get("cycle")):
                index[ln] = len(lines)
                lines.append(ln)
                pyv[ln] = pv
    outs = run_model(exe, ["S " + ln for ln in lines])
    verdict = {}
    dis = []
    for ln, o in zip(lines, outs):
        v = parse_R(o)
        if v is None:
            dis.append("model gave no verdict (%r) on snapshot %s" % ((o or "")[:60], ln[:200]))
            continue
        verdict[ln] = v
        # cross-check with the untrusted Python reading of the same snapshot (computed in the harness)
        dm = S.digest_model(*v)
        if pyv[ln] is not None and dm != pyv[ln]:
            what = ["wfb", "contractb", "cwords", "table_dims"][[a == b for a, b in zip(dm, pyv[ln])].index(False)]
            dis.append("%s: model and python reading differ on %s" % (what, ln[:300]))
    findings = {}
    for did, r in results.items():
        f = {"c05": [], "c06": [], "c07": [], "changed": []}
        findings[did] = f
        if r.get("status") != "ok":
            continue
        broken_at = None
        if r.get("cycle"):
            broken_at = r["cycle"][0]
            f["c05"].append(("wf-broken after %s" % broken_at.split(":")[-1], ["wf", broken_at], "the tree contains a cycle after %s" % broken_at))
        prev_cw = None
        first_cw = None
        loss_pass = None
        for lab, ln, _pv in r["snaps"]:
            f["changed"].append(lab.split(":")[-1])
            v = verdict.get(ln)
            if v is None:
                continue
            if not v[0] and broken_at is None:
                broken_at = lab
                why = wf_reason(ln)
                f["c05"].append(("wf-broken after %s" % lab.split(":")[-1], ["wf", lab],
                                 "after %s the document is not a proper tree (%s)" % (lab, why)))
            if v[0]:
                lw = S.labelled(v[2])
                if first_cw is None:
                    first_cw = lw
                if prev_cw is not None and loss_pass is None and lw != prev_cw:
                    loss_pass = lab.split(":")[-1]
                    f["first_word_change"] = loss_pass
                prev_cw = lw
        # the same passes through TreeCleaner.clean([name]) (only run when a directly called pass raised)
        if broken_at is None:
            if r.get("cycle_ca"):
                lab = r["cycle_ca"][0]
                broken_at = lab
                f["c05"].append(("wf-broken after %s (catch-all path)" % lab.split(":")[-1], ["wf", lab], "the tree contains a cycle after %s" % lab))
            for lab, ln, _pv in r.get("snaps_ca", []):
                v = verdict.get(ln)
                if v is not None and not v[0] and broken_at is None:
                    broken_at = lab
                    f["c05"].append(("wf-broken after %s (catch-all path)" % lab.split(":")[-1], ["wf", lab],
                                     "after clean([%s]) swallowed an exception the document is not a proper tree (%s)" % (lab.split(":")[-1], wf_reason(ln))))
            if broken_at is not None and broken_at.startswith("catchall"):
                broken_at = None          # the direct run below was on a proper tree
        for k, name, ek, dt in r.get("passes", []):
            if ek is None:
                continue
            kind = "timeout" if ek == "TIMEOUT" else "exc"
            if broken_at is not None and broken_at != "build":
                fp = "pass raises or hangs downstream of the ill-formed tree left by %s" % broken_at.split(":")[-1]
            else:
                fp = "%s in %s: %s" % (kind, name, ek)
            f["c06"].append((fp, ["timeout", name] if kind == "timeout" else ["exc", name, ek.split(":")[0]],
                             "pass %s called directly %s (%s)" % (name, "exceeded the time limit" if kind == "timeout" else "raised", ek)))
        ca = r.get("clean_all") or {}
        if ca.get("exc"):
            f["c06"].append(("clean_all: %s" % ca["exc"], ["clean_all", ca["exc"]], "clean_all did not return: %s" % ca["exc"]))
        if ca.get("errors") and not f["c06"]:
            f["c06"].append(("clean_all reported: %s" % ca["errors"][0][:80], ["report-error"], "the catch-all hid an error: %s" % ca["errors"][0][:200]))
        va = verdict.get(ca.get("after"))
        vb = verdict.get(ca.get("before"))
        if va is not None:
            if not va[0] and broken_at is None:
                f["c05"].append(("wf-broken after clean_all", ["wf", "clean_all"], "after clean_all the document is not a proper tree"))
            elif va[0] and not va[1]:
                root, cells = S.parse_line(ca["after"])
                why = S.py_contract(root, cells) or ""
                import re
                m = re.match(r"edge (\d+)\(cls (\d+)\) -> (\d+)\(cls (\d+)\)", why)
                pc, cc = (int(m.group(2)), int(m.group(4))) if m else (0, 0)
                f["c05"].append(("contract: %s lists %s" % (NAMES.get(pc, "cls%d" % pc), NAMES.get(cc, "cls%d" % cc)), ["contract", pc, cc],
                                 "after clean_all a %s node lists a %s child" % (NAMES.get(pc, pc), NAMES.get(cc, cc))))
            if space == 2 and va[0] and vb is not None and vb[0]:
                c7 = S.c07_compare(vb[2], vb[3], va[2], S.py_columns(*S.parse_line(ca["before"])), S.py_columns(*S.parse_line(ca["after"])))
                if c7:
                    def where(x):
                        return "in a reference" if x[3] else ("in a table" if x[4] else ("in a list" if x[2] else "in running text"))
                    if c7[0] in ("word-lost", "word-duplicated"):
                        cnt_b = collections.Counter(x[0] for x in vb[2])
                        cnt_a = collections.Counter(x[0] for x in va[2])
                        odd = set((cnt_b - cnt_a).keys()) | set((cnt_a - cnt_b).keys())
                        # the pass at which each such word's count first changes (direct-run snapshots)
                        fps = {}
                        for x in vb[2]:
                            if x[0] not in odd:
                                continue
                            at = "?"
                            for lab, ln, _pv in r["snaps"]:
                                v = verdict.get(ln)
                                if v and v[0] and sum(1 for y in v[2] if y[0] == x[0]) != cnt_b[x[0]]:
                                    at = lab.split(":")[-1]
                                    break
                            fps.setdefault(("%s %s by %s" % (c7[0], where(x), at), where(x), at), []).append(x[0])
                        for (fp, wh, at), ws in sorted(fps.items()):
                            f["c07"].append((fp, ["c07", c7[0], wh, at], "%s: word ids %r" % (fp, ws[:8])))
                    else:
                        f["c07"].append(("%s (first change of the word stream: %s)" % (c7[0], f.get("first_word_change", "?")),
                                         ["c07", c7[0]], c7[1]))
    return findings, dis, {"snapshots": len(lines)}


def explore(run, src, exe, space, ndocs, limit, first=True):
    import time
    t0 = time.time()
    docs = gen_docs(run.rng, space, ndocs, first)
    jobs = [{"id": i, "text": t, "full": True} for i, t in enumerate(docs)]
    results = run_sharded("vt.harness.c05_impl", ["run", str(limit)], jobs, src)
    t1 = time.time()
    missing = [j["id"] for j in jobs if j["id"] not in results]
    findings, dis, st = evaluate(exe, results, space)
    core.log("[c05] space %d: %d docs, real code %.1fs, model+oracles %.1fs" % (space, len(docs), t1 - t0, time.time() - t1))
    return docs, results, findings, dis, missing, st


def confirm(src, exe, text, space, prop, fp, limit, pre=None):
    """does `text` show finding `fp` in a FRESH process (after cleaning the documents `pre` in that process first)?"""
    res = run_sharded("vt.harness.c05_impl", ["run", str(limit)], [{"id": 0, "text": text, "full": True, "pre": list(pre or [])}], src)
    if 0 not in res:
        return False
    findings, _dis, _st = evaluate(exe, res, space)
    return any(x[0] == fp for x in findings[0][prop])


def find_history(src, exe, text, space, prop, fp, limit, earlier):
    """The finding does not show when `text` is cleaned in a fresh process: it depends on state left behind by documents
    cleaned earlier in the same process (`earlier`, in order).  Returns a minimal-ish sub-list of `earlier` after which the
    finding shows again, or None."""
    if not earlier or not confirm(src, exe, text, space, prop, fp, limit, pre=earlier):
        return None
    # one earlier document is usually enough: try each alone (one fresh process per candidate, in parallel batches)
    for lo in range(0, len(earlier), NSHARD):
        cand = earlier[lo:lo + NSHARD]
        res = {}
        ths = []

        def go(k, c):
            res[k] = confirm(src, exe, text, space, prop, fp, limit, pre=[c])

        for k, c in enumerate(cand):
            th = threading.Thread(target=go, args=(k, c))
            th.start()
            ths.append(th)
        for th in ths:
            th.join()
        for k, c in enumerate(cand):
            if res.get(k):
                return [c]
    hist = list(earlier)        # otherwise: drop halves / single documents while the finding still shows
    chunk = max(1, len(hist) // 2)
    evals = 0
    while chunk >= 1 and evals < 40:
        i = 0
        changed = False
        while i < len(hist) and evals < 40:
            c2 = hist[:i] + hist[i + chunk:]
            evals += 1
            if c2 and confirm(src, exe, text, space, prop, fp, limit, pre=c2):
                hist = c2
                changed = True
            else:
                i += chunk
        if chunk == 1 and not changed:
            break
        chunk = max(1, chunk // 2) if chunk > 1 else (1 if changed else 0)
    return hist


def report_hits(run, src, exe, space, docs, findings, prop, limit, max_shrink=8):
    """group by fingerprint, shrink the smallest witness inside the harness, confirm with the extracted checker"""
    groups = {}
    for did, f in findings.items():
        for fp, key, what in f[prop]:
            g = groups.setdefault(fp, [])
            # prefer a witness showing only this finding (the shrinker then cannot drift to another one)
            g.append((len(f[prop]) > 1, len(docs[did]), did, key, what))
    todo = []
    for fp, g in sorted(groups.items()):
        g.sort()
        todo.append((fp, g[0], len(g)))
    shrunk = {}
    if todo:
        jobs = [{"id": i, "text": docs[g[2]], "key": g[3]} for i, (fp, g, _n) in enumerate(todo[:max_shrink])]
        out = run_sharded_shrink(jobs, src, limit)
        for i, (fp, g, _n) in enumerate(todo[:max_shrink]):
            t = out.get(i)
            if t is not None and t != docs[g[2]] and confirm(src, exe, t, space, prop, fp, limit):
                shrunk[fp] = t
    nsh = max(1, min(NSHARD, len(docs)))
    nhist = 0
    for fp, g, n in todo:
        text = shrunk.get(fp, docs[g[2]])
        if "timeout" in fp and fp not in shrunk and not confirm(src, exe, text, space, prop, fp, limit * 2):
            core.log("[c05] time-out not reproduced with twice the limit, dropped: %s" % fp)
            continue
        rp = {"text": text, "space": space, "prop": prop, "fingerprint": fp, "minimised": fp in shrunk, "limit": limit}
        extra = ""
        if fp not in shrunk and "timeout" not in fp and len(docs) > 1 and nhist < 6 and not confirm(src, exe, text, space, prop, fp, limit):
            # seen in the exploration but not in a fresh process: the outcome depends on documents cleaned before in the
            # same process (shard k of run_sharded gets the documents k, k+n, k+2n, ... in that order)
            nhist += 1
            did = g[2]
            earlier = [docs[j] for j in range(did % nsh, did, nsh)]
            hist = find_history(src, exe, text, space, prop, fp, limit, earlier)
            if hist is not None:
                rp["pre"] = hist
                extra = "; ONLY after cleaning %d other document(s) in the same process first, e.g. %r" % (len(hist), hist[0][:200])
            else:
                rp["not_reproduced_in_a_fresh_process"] = True
        run.hit(fingerprint="%s: %s" % (run.prop, fp),
                what="%s  [%d documents of space %d; minimised wikitext: %r%s]" % (g[4], n, space, text[:300], extra),
                replay=rp)
    return groups


def run_sharded_shrink(jobs, src, limit):
    n = max(1, min(NSHARD, len(jobs)))
    res = {}
    procs = []
    for j in jobs:
        p = subprocess.Popen([core.PY, "-m", "vt.harness.c05_impl", "shrink", str(limit)], cwd=core.VERIF, env=core.impl_env(src),
                             stdin=subprocess.PIPE, stdout=subprocess.PIPE, stderr=subprocess.DEVNULL, text=True)
        procs.append((j, p))
        if len(procs) >= n:
            for jj, pp in procs:
                res.update(_collect(jj, pp))
            procs = []
    for jj, pp in procs:
        res.update(_collect(jj, pp))
    return res


def _collect(j, p):
    try:
        out = p.communicate(json.dumps({"text": j["text"], "key": j["key"]}) + "\n", timeout=900)[0]
        for ln in out.splitlines():
            if ln.startswith("{"):
                r = json.loads(ln)
                if r.get("reproduced"):
                    return {j["id"]: r["text"]}
    except subprocess.TimeoutExpired:
        p.kill()
    return {}


def coverage(run, space, docs, results, findings):
    acc = run.notes.setdefault("_cov%d" % space, {"documents": 0, "status": collections.Counter(), "sizes": collections.Counter(),
                                                  "act": collections.Counter()})
    acc["documents"] += len(docs)
    acc["status"].update(r.get("status") for r in results.values())
    for did, r in results.items():
        if r.get("status") != "ok":
            continue
        for lab in findings[did]["changed"][1:]:
            acc["act"][lab] += 1
        for _k, name, ek, _dt in r.get("passes", []):
            if ek is not None:
                acc.setdefault("raised", collections.Counter())["%s: %s" % (name, ek.split(":")[0])] += 1
        if "snaps_ca" in r:
            acc["catchall_runs"] = acc.get("catchall_runs", 0) + 1
        nn = r["snaps"][0][1].count(";") if r.get("snaps") else 0
        acc["sizes"]["<=20 nodes" if nn <= 20 else "<=100 nodes" if nn <= 100 else "<=500 nodes" if nn <= 500 else ">500 nodes"] += 1
        run.count(hashlib.blake2b(docs[did].encode("utf8", "replace"), digest_size=8).hexdigest(), nontrivial=len(r.get("snaps", [])) > 1)
    d = run.coverage.setdefault("input_distribution", {})
    d["space%d" % space] = {"documents": acc["documents"], "status": dict(acc["status"]), "tree_sizes_after_build": dict(acc["sizes"]),
                            "documents_in_which_a_pass_changed_the_tree": dict(acc["act"]),
                            "passes_never_changing_a_tree": sorted(set(PASS_NAMES) - set(acc["act"])),
                            "pass_calls_that_raised_or_timed_out": dict(acc.get("raised", {})),
                            "documents_rerun_pass_by_pass_through_the_catch_all": acc.get("catchall_runs", 0)}


PASS_NAMES = []


def load_corpus(prop):
    d = os.path.join(core.VERIF, "corpus", prop)
    res = []
    if os.path.isdir(d):
        for fn in sorted(os.listdir(d)):
            if fn.endswith(".json"):
                res.append(json.load(open(os.path.join(d, fn))))
    return res


def monitor(run, prop, spaces, src, exe):
    """the exploration + oracle of `prop` ("c05" | "c06" | "c07") over the given spaces"""
    ndocs = 2000 if run.tier == "quick" else 20000
    limit = 5 if run.tier == "quick" else 10
    all_dis = []
    nsnap = 0
    seen_fp = set()
    G.set_read_attrs(*read_attr_names(src))
    run.coverage.setdefault("input_distribution", {})["numeric_attribute_family"] = {
        "attributes_read_by_name_in_the_current_source": list(G.READ_ATTRS),
        "style_properties_read_by_name_in_the_current_source": list(G.READ_STYLES), "attribute_alphabet": list(G.NUM_ATTRS),
        "number_spellings": len(G.NUM_SPELLINGS), "exhaustive_sweep_documents": len(G.numeric_sweep()) if 1 in spaces else 0}
    # corpus first
    for c in load_corpus(run.prop):
        sp = c.get("space", 1)
        res = run_sharded("vt.harness.c05_impl", ["run", str(limit)], [{"id": 0, "text": c["text"], "full": True}], src)
        findings, dis, st = evaluate(exe, res, sp)
        all_dis += dis
        seen_fp.update(report_hits(run, src, exe, sp, [c["text"]], findings, prop, limit, max_shrink=0))
    for space in spaces:
        left = ndocs if space != 3 else ndocs * 3 // 20
        first = True
        while left > 0:
            nb = min(left, 2000)
            left -= nb
            docs, results, findings, dis, missing, st = explore(run, src, exe, space, nb, limit, first)
            if missing:
                run.obligation("harness answered for every document (space %d)" % space, False,
                               "%d documents without result, e.g. %r" % (len(missing), docs[missing[0]][:200]))
            all_dis += dis
            nsnap += st["snapshots"]
            if not PASS_NAMES:
                try:
                    from vt.gen import c06_api
                    PASS_NAMES.extend(c06_api.analyse(src)["cleaner_methods"])
                except Exception:
                    pass
            coverage(run, space, docs, results, findings)
            for f in findings.values():          # report each fingerprint once per run
                f[prop] = [x for x in f[prop] if x[0] not in seen_fp]
            seen_fp.update(report_hits(run, src, exe, space, docs, findings, prop, limit))
            if first:
                first = False
                for did in sorted(results)[:2]:
                    r = results[did]
                    run.sample({"space": space, "wikitext": docs[did][:300], "status": r.get("status"),
                                "passes_that_changed_the_tree": findings[did]["changed"][1:]})
    for k in [k for k in run.notes if k.startswith("_cov")]:
        del run.notes[k]
    run.tie("extracted wfb/contractb/cwords/table_dims vs an independent Python reading of the same snapshots", nsnap, all_dis)
    return nsnap


# ------------------------------------------------------------------ API differential (unit level)
API_CLS = [1, 2, 3, 4, 6, 7, 8, 10, 24, 25, 26]


def gen_api_case(rng, cid):
    n = rng.randint(2, 9)
    cls = {i: rng.choice(API_CLS) for i in range(1, n + 1)}
    par = {i: 0 for i in range(1, n + 1)}
    kids = {i: [] for i in range(1, n + 1)}
    # a forest: node i may hang under a smaller non-text node
    for i in range(2, n + 1):
        if rng.random() < 0.7:
            cand = [j for j in range(1, i) if cls[j] != 1]
            if cand:
                p = rng.choice(cand)
                par[i] = p
                kids[p].insert(rng.randint(0, len(kids[p])), i)
    mode = rng.random()
    if mode < 0.25:   # corrupt: stale parent / shared child / self loop (the four exact ops are total)
        i = rng.randint(1, n)
        k = rng.random()
        if k < 0.4:
            par[i] = rng.randint(0, n)
        elif k < 0.8:
            j = rng.randint(1, n)
            if cls[j] != 1:
                kids[j].append(i)
        else:
            par[i] = i
    ops = []
    for _ in range(rng.randint(1, 5)):
        k = rng.random()
        roots = [i for i in par if par[i] == 0]
        att = [i for i in par if par[i] != 0]
        nontext = [i for i in cls if cls[i] != 1]
        a, b = rng.randint(1, n), rng.randint(1, n)
        good = rng.random() < 0.8
        if k < 0.22:
            if good and roots and nontext:
                a, b = rng.choice(nontext), rng.choice(roots)
            ops.append(["a", a, b])
        elif k < 0.4:
            if good and att:
                b = rng.choice(att)
                a = par[b]
            ops.append(["r", a, b])
        elif k < 0.6:
            if good and att:
                b = rng.choice(att)
                a = par[b]
            news = kids[b][:] if rng.random() < 0.5 else (rng.sample(roots, min(len(roots), rng.randint(0, 2))) if good else rng.sample(range(1, n + 1), rng.randint(0, 2)))
            ops.append(["x", a, b, news])
        elif k < 0.85:
            if good and len(att) >= 2:
                a, b = rng.sample(att, 2)
            ops.append(["m", a, b, rng.randint(0, 1)])
        elif mode >= 0.25:
            ops.append(["c", a])
    return {"id": cid, "cells": [[i, cls[i], par[i], kids[i]] for i in range(1, n + 1)], "ops": ops}


def api_line(case):
    cells = " ; ".join("%d %d %d %d%s 0" % (i, c, p, len(ks), "".join(" %d" % k for k in ks)) for i, c, p, ks in case["cells"])
    ops = []
    for o in case["ops"]:
        if o[0] == "x":
            ops.append("x %d %d %d%s" % (o[1], o[2], len(o[3]), "".join(" %d" % k for k in o[3])))
        else:
            ops.append(" ".join(str(x) for x in o))
    return "A 1 ; %s # %s" % (cells, " ; ".join(ops))


def api_tie(run, src, exe):
    n = 6000 if run.tier == "quick" else 60000
    cases = [gen_api_case(run.rng, i) for i in range(n)]
    res = run_sharded("vt.harness.c05_api", [], cases, src)
    outs = run_model(exe, [api_line(c) for c in cases])
    dis = []
    stats = collections.Counter()
    for c, o in zip(cases, outs):
        r = res.get(c["id"])
        if r is None or "harness_error" in r:
            dis.append("harness: %r" % (r,))
            continue
        if not o or not o.startswith("H "):
            dis.append("model output %r for %s" % (o, api_line(c)))
            continue
        head, _, cells = o.partition(" ; ")
        _h, k, st = head.split()
        k = int(k)
        stats["%s/%s" % (r["status"], st)] += 1
        for op in c["ops"]:
            stats["op " + op[0]] += 1
        copy_err = (st == "ERR" and k < len(c["ops"]) and c["ops"][k][0] == "c")
        if copy_err:
            stats["copy outside its precondition (not compared)"] += 1
            continue
        if (r["status"], r["done"]) != (st, k):
            dis.append("status: impl %s after %d ops, model %s after %d: %s" % (r["status"], r["done"], st, k, api_line(c)))
            continue
        if st == "OK":
            mc = []
            for s in cells.split(";"):
                t = [int(x) for x in s.split()]
                if t:
                    mc.append([t[0], t[1], t[2], t[4:4 + t[3]]])
            if mc != r["cells"]:
                dis.append("heap differs: %s  impl %r  model %r" % (api_line(c), r["cells"], mc))
    run.tie("AdvancedNode.append_child/remove_child/replace_child/move_to/copy vs the heap model (final heap, error position)", n, dis)
    run.coverage.setdefault("input_distribution", {})["api_differential"] = dict(stats)


# ------------------------------------------------------------------ fix_reference_nodes vs C05/Refs.v
def refs_shape(src):
    """Source-shape obligation for coq/C05/Refs.v (fail-closed, pure syntax): TreeCleaner._handle_reference_node_children
    (a) hands the definition's nodes over by `for child in <name2children[K]>: ref_node.append_child(child)`, (b) empties a
    node by `ref_node.children = []`, and (c) every access to the two bookkeeping tables name2children / ref_defined - in the
    helper and in fix_reference_nodes - uses ONE key expression per function (the hand-over and the emptying are then driven
    by the same key, which is what the model's `handover` = loop + emptying assumes).  Returns (ok, detail)."""
    import ast
    try:
        tree = ast.parse(open(os.path.join(src, "mwlib/parser/treecleaner.py"), encoding="utf8").read())
    except (OSError, SyntaxError) as e:
        return False, "treecleaner.py cannot be parsed: %s" % e
    funs = {n.name: n for n in ast.walk(tree) if isinstance(n, ast.FunctionDef)}
    tables = ("name2children", "ref_defined")
    detail = []
    for fname in ("_handle_reference_node_children", "fix_reference_nodes"):
        f = funs.get(fname)
        if f is None:
            return False, "TreeCleaner.%s not found" % fname
        keys = {}
        for n in ast.walk(f):
            if isinstance(n, ast.Subscript) and isinstance(n.value, ast.Name) and n.value.id in tables:
                keys.setdefault(ast.dump(n.slice), []).append("%s[..] line %d" % (n.value.id, n.lineno))
            elif (isinstance(n, ast.Call) and isinstance(n.func, ast.Attribute) and n.func.attr in ("get", "setdefault", "pop")
                  and isinstance(n.func.value, ast.Name) and n.func.value.id in tables and n.args):
                keys.setdefault(ast.dump(n.args[0]), []).append("%s.%s line %d" % (n.func.value.id, n.func.attr, n.lineno))
            elif isinstance(n, ast.Compare) and len(n.ops) == 1 and isinstance(n.ops[0], (ast.In, ast.NotIn)) \
                    and isinstance(n.comparators[0], ast.Name) and n.comparators[0].id in tables:
                keys.setdefault(ast.dump(n.left), []).append("in %s line %d" % (n.comparators[0].id, n.lineno))
        if fname == "_handle_reference_node_children" and not keys:
            return False, "%s does not use name2children / ref_defined" % fname
        if len(keys) > 1:
            return False, "%s indexes name2children / ref_defined by %d different key expressions: %s" % (
                fname, len(keys), "; ".join("%s" % ", ".join(v[:3]) for v in keys.values()))
        detail.append("%s: %d table accesses, one key" % (fname, sum(len(v) for v in keys.values())))
    f = funs["_handle_reference_node_children"]
    loop = [n for n in ast.walk(f) if isinstance(n, ast.For) and len(n.body) == 1 and isinstance(n.body[0], ast.Expr)
            and isinstance(n.body[0].value, ast.Call) and isinstance(n.body[0].value.func, ast.Attribute)
            and n.body[0].value.func.attr == "append_child" and isinstance(n.target, ast.Name)
            and len(n.body[0].value.args) == 1 and isinstance(n.body[0].value.args[0], ast.Name)
            and n.body[0].value.args[0].id == n.target.id]
    clear = [n for n in ast.walk(f) if isinstance(n, ast.Assign) and len(n.targets) == 1 and isinstance(n.targets[0], ast.Attribute)
             and n.targets[0].attr == "children" and isinstance(n.value, ast.List) and not n.value.elts]
    if len(loop) != 1 or len(clear) != 1:
        return False, "_handle_reference_node_children: %d append_child loops, %d `x.children = []` (modelled: one each)" % (len(loop), len(clear))
    return True, "; ".join(detail) + "; one append_child loop, one emptying"


REF_CONTAINERS = [8, 10, 24, 25, 26]


def gen_refs_case(rng, cid):
    """a small real tree with two named <ref>s: u (no content) and d (1..3 content subtrees), the same name and group (or, 25%,
    different names), in either document order, next to other text and unnamed footnotes; expected result of the whole pass
    fix_reference_nodes as operations of the model: u before d -> handover d u, then d (now empty) is removed; otherwise u
    (empty) is removed"""
    cls, par, kids = {}, {}, {}

    def new(c, p, at=None):
        i = len(cls) + 1
        cls[i], par[i], kids[i] = c, p, []
        if p:
            kids[p].insert(len(kids[p]) if at is None else at, i)
        return i

    root = new(8, 0)
    slots = [root]
    for _ in range(rng.randint(0, 5)):
        p = rng.choice(slots)
        c = new(rng.choice(REF_CONTAINERS[1:]), p, rng.randint(0, len(kids[p])))
        slots.append(c)
        if rng.random() < 0.6:
            new(1, c)
    pu, pd = rng.choice(slots), rng.choice(slots)
    u = new(9, pu, rng.randint(0, len(kids[pu])))
    d = new(9, pd, rng.randint(0, len(kids[pd])))
    for _ in range(rng.randint(1, 3)):
        if rng.random() < 0.6:
            new(1, d)
        else:
            s = new(rng.choice([25, 26]), d)
            new(1, s)
            if rng.random() < 0.3:
                new(1, new(25, s))
    vl = {}
    for _ in range(rng.randint(0, 2)):          # unnamed footnotes (and ones with another name) keep their text
        p = rng.choice(slots)
        x = new(9, p, rng.randint(0, len(kids[p])))
        new(1, x)
        if rng.random() < 0.3:
            vl[str(x)] = {"name": "z%d" % x}      # (a name of its own: a second definition of one name is merged by design)
    same = rng.random() < 0.75
    g = rng.choice([None, None, "g", ""])
    for i, nm in ((u, "x"), (d, "x" if same else "y")):
        vl[str(i)] = {"name": nm}
        if g is not None:
            vl[str(i)]["group"] = g
    order = []
    stack = [root]
    while stack:
        i = stack.pop()
        order.append(i)
        stack.extend(reversed(kids[i]))
    if same and order.index(u) < order.index(d):
        expect = [["h", d, u], ["r", pd, d]]
    else:
        expect = [["r", pu, u]]
    n = len(cls)
    return {"id": cid, "cells": [[i, cls[i], par[i], kids[i]] for i in range(1, n + 1)], "ops": [["f", root]], "expect": expect,
            "vlist": vl, "text": "xy", "kind": ("same key, " + ("use first" if expect[0][0] == "h" else "definition first")) if same else "different names"}


def refs_tie(run, src, exe):
    ok, detail = refs_shape(src)
    run.obligation("fix_reference_nodes has the shape modelled by coq/C05/Refs.v (one key for both bookkeeping tables)", ok, detail)
    n = 1500 if run.tier == "quick" else 15000
    import random
    rng = random.Random(run.seed * 1000003 + 905)      # own stream (the documents of the monitor stay the same)
    cases = [gen_refs_case(rng, i) for i in range(n)]
    res = run_sharded("vt.harness.c05_api", [], cases, src)
    outs = run_model(exe, [api_line(dict(c, ops=c["expect"])) for c in cases])
    dis = []
    stats = collections.Counter()
    for c, o in zip(cases, outs):
        r = res.get(c["id"])
        stats[c["kind"]] += 1
        if r is None or "harness_error" in r:
            dis.append("harness: %r on %r" % (r, c))
            continue
        if not o or not o.startswith("H "):
            dis.append("model output %r for %s" % (o, api_line(dict(c, ops=c["expect"]))))
            continue
        head, _, cells = o.partition(" ; ")
        _h, k, st = head.split()
        if r["status"] != "OK" or st != "OK" or int(k) != len(c["expect"]):
            dis.append("status: impl %s (%s), model %s after %s ops: %r" % (r["status"], r.get("exc"), st, k, c))
            continue
        mc = []
        for s in cells.split(";"):
            t = [int(x) for x in s.split()]
            if t:
                mc.append([t[0], t[1], t[2], t[4:4 + t[3]]])
        if mc != r["cells"]:
            dis.append("heap after fix_reference_nodes differs: %r  impl %r  model %r" % (c, r["cells"], mc))
    run.tie("TreeCleaner.fix_reference_nodes on real trees with a content-less and a defining <ref> of one name vs Refs.handover "
            "(+ remove_child of the emptied / empty reference): final heap", n, dis)
    run.coverage.setdefault("input_distribution", {})["fix_reference_nodes_differential"] = dict(stats)


# ------------------------------------------------------------------ the check
TRUSTED = [
    "Coq 8.16.1 kernel (coqc); vm_compute only in the non-vacuity Examples",
    "extraction (ExtrOcamlBasic directives only) + ocaml/c05/driver.ml (parsing of the heap text, printing of the verdicts)",
    "vt/harness/c05_snap.py: the snapshot of the real object graph (identity-based traversal from the root, class codes, "
    "tokenisation of visible words by str.split) - cross-checked on every snapshot against an independent Python reading; a new "
    "snapshot is taken after a pass only if the hash of (identity, parent, class, number of children, caption, target) over the "
    "reachable nodes changed (c05_impl.quick_fingerprint)",
    "the pass under test always gets 1000 interpreter frames (CPython's default recursion limit) below the harness (c05_impl.limited)",
    "coq/C05/Heap.v as a faithful restatement of advtree.py:94-150 (tie: differential run on real AdvancedNode objects)",
    "coq/C05/Refs.v as a restatement of the hand-over in treecleaner.py _handle_reference_node_children (ties: syntactic shape "
    "obligation on the current source + differential run of the real fix_reference_nodes against the model)",
    "CPython semantics of list slicing/insert/append, copy.deepcopy on a self-contained object graph",
]


def check(run):
    run.rule = ("space 1: %d hand-written seeds + grammar-based adversarial wikitext (headings, lists, tables incl. nested/wide/"
                "single-column, 55 html tags with style/class/id values that switch passes on, refs incl. named, galleries, math, "
                "links, templates) followed by 0-4 random mutations, 10%% numeric-attribute documents (every numeric attribute x number "
                "spelling), 5%% documents with 2..25 structurally equal offenders under one forbidden ancestor, 4%% captioned tables (caption "
                "of 0..16 inline nodes x the trigger of every table pass), 4%% one footnote name in 2..6 spellings (blanks around / inside "
                "the quoted value, quoting style, case, Unicode look-alikes; definition / empty use / empty pair, any order), plus the "
                "exhaustive sweeps attribute read by the source x number spelling, table trigger x caption, footnote name x spelling x "
                "definition/use x order, footnote group (absent / first / second / empty, drawn per <ref> independently of the name) x "
                "definition / empty use / second definition x order; space 2: documents of a recursive grammar of ordinary content "
                "(unique words, or one repeated fragment) incl. link-only section bodies, multi-block table cells, preformatted blocks, "
                "named footnotes whose name is spelled differently at definition and use and whose group "
                "attribute varies per <ref>, footnotes linking one article several times; "
                "space 3: forbidden-nesting pairs / row-copying tables / adversarial documents with one fragment wrapped into 41..%d "
                "nested tags (passes fail half-way with RecursionError; the tree is checked after the failed pass on the direct and on "
                "the catch-all path). distinct = distinct wikitext; non-trivial = at least one cleaner pass changed the tree"
                % (len(G.SEEDS), G.DEEP_MAX))
    run.trusted = TRUSTED
    run.assumptions = ["the property's universal statement about the cleaner passes themselves is decided by exploration (verified "
                       "monitor), not by proof; proved are the checker (wfb_spec, contract_spec), the tree API the passes are built from "
                       "and the footnote hand-over of fix_reference_nodes (two references of one key)",
                       "articles are parsed with DummyDB (English siteinfo) plus five small templates"]
    src = core.snapshot()
    run.check_proofs("C05")
    exe = build()
    api_tie(run, src, exe)
    refs_tie(run, src, exe)
    monitor(run, "c05", [1, 2, 3], src, exe)
    run.coverage["exhaustive"] = False


def replay(obj):
    src = core.snapshot()
    exe = build()
    rp = obj["replay"]
    if "text" not in rp:
        print(json.dumps(rp, indent=1))
        return 1
    ok = confirm(src, exe, rp["text"], rp.get("space", 1), rp["prop"], rp["fingerprint"], rp.get("limit", 5), pre=rp.get("pre"))
    for t in rp.get("pre", []):
        print("cleaned first, in the same process: %r" % t)
    print("wikitext: %r" % rp["text"])
    print("fingerprint: %s" % rp["fingerprint"])
    print("REPRODUCED" if ok else "not reproduced")
    return 1 if ok else 0
