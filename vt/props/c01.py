"""C01 — parsing is total.
Proof (coq/C01): resolve_entity (chr domain explicit, caught exceptions regenerated from util.py), compute_path with the
de-duplication of states by (apocount, bold, italic) (<=32 states kept, fan-out <=6, <=192 states generated per step, path length =
number of counts, for every tie-breaking order), and — coq/C01/Passes.v, ProofsPasses.v — the index-walking loops of the
refinement passes with explicit termination measures (ParseSections/Lines/Paragraphs/SingleQuote/Urls, ParsePreformatted, TableCell/Row/TableParser),
and - coq/C01/PassesPost.v, ProofsPassesPost.v, ProofsPostGen.v - the post-processor remove_boilerplate on every article tree (lookup attribute and
except clause regenerated from post_processors.py on every run: reading the attribute dict, where parse_params stores ints, breaks the proof).
Tie: extracted models vs the real code: resolve_entity on entity strings; compute_path on count lists (real path is a successor chain
of the model, states per step measured on the real code <= 192 and equal to the model's when no cut can occur, each case under a CPU
budget); the passes on abstract token lists (vt/harness/c01_passes.py, c01_passtie.py); remove_boilerplate on real article trees parsed from
generated wikitext without post-processors vs the model on their abstraction (vt/harness/c01_post.py, model evaluated by coqc).
Search: grammar/mutation strings over the whole wikitext alphabet x 12 languages x template universes, plus the deterministic
families `attrnum` (number-like Unicode attribute values x every construct that takes attributes), `readattrs` (every attribute name the
sources look up by name - ast scan of the snapshot, vt/gen/c01_attrnames.py - x int-like / numeric-looking / mixed values x every element kind
x 4 attribute forms x 7 position classes), `quoteruns` (10..60 apostrophe
runs on one line), `reparse` (wiki databases whose pages re-parse themselves through every re-parsing tag extension, direct and mutual cycles;
`reparse-fanout` with >= 2 recursive edges per page), `longdigits` (a 4301-digit string at every numeric position) and `uniqmarkers`
(strip markers \\x7fUNIQ-tag-n-hex-QINU\\x7f - unknown, in the table of the parse, ill-formed, truncated, nested - at every position class); oracle = parse_string returns an Article, raises nothing, stays within the CPU budget C0 + C*n^2 + Cdb*ndb (ndb = size of the wiki database)."""
import collections
import concurrent.futures as cf
import json
import os
import re
import subprocess

from vt import core
from vt.harness import c01_gen as G

LEVEL = "proof"
NSHARDS = 16
# two input classes found defects of /repo that are fixed since (imagemap coordinates beyond the 4300-digit int() limit; cycles that re-parse
# a page >= 2 times per level: MAX_NESTED_WORK).  On by default; VERIF_C01_OPEN_DEFECTS=0 leaves them out (to look at an older tree).
OPEN_DEFECTS = os.environ.get("VERIF_C01_OPEN_DEFECTS", "1") == "1"

PENDING_HITS = []      # unit-level monitor hits of the ties, reported after the search (which minimises)

SEEDS = ["{{#switch:|}}", "&#99999999999;", "<nowiki>&#99999999999;</nowiki>", "&#xFFFFFFFFF;", "&#-1;", "&#x110000;", "&#0;", "&#xD800;", "[[&#xD800;]]",
         "<pre>&#99999999999;</pre>", "<inputbox/>", "<inputbox>x</inputbox>", "{{rec}}", "<ref>{{#ifexist:X|y|n}}</ref>",
         '<pages from="a" to="b" />', '<pages from=1 to=300000 index=I />', "<imagemap>\nrect 0 0 [[A]]\n</imagemap>",
         "<timeline>x</timeline>", "<gallery>\nx\n</gallery>", "{|\n|", "'''''", "''" * 60, "[[" * 40, "{|\n" * 40, "<div>" * 40,
         "*" * 40 + " x", "= =", "==\n", "=", "\n", " ", "\x00", "\U0010FFFF", "[[Image:|]]", "[[:]]", "<br", "<ref name=/>",
         "<ref><ref><ref>x</ref></ref></ref>", "{{#tag:ref|{{#tag:ref|x}}}}", "<poem>\n:*#; x\n</poem>", "<source lang=>x</source>"]


# ------------------------------------------------------------------ running the real parser, sharded

def _run_lines(src, lines, timeout):
    return core.run_impl("vt.harness.c01_search", ["search"], src=src, input="".join(lines), timeout=timeout)


def _solo(src, case, call_depth=None):
    """re-run one input alone (fresh interpreter, faulthandler on); returns result dict"""
    env = core.impl_env(src)
    if call_depth is not None:
        env["C01_CALL_DEPTH"] = str(call_depth)
    last = {"id": case["id"], "ok": True, "exc": None, "frame": None, "msg": "no result", "cpu": 0, "n": len(case["raw"]), "nexp": 0, "fp": None}
    for _ in range(3):
        p = subprocess.run([core.PY, "-X", "faulthandler", "-m", "vt.harness.c01_search", "search"], input=json.dumps(case) + "\n",
                           capture_output=True, text=True, cwd=core.VERIF, env=env, timeout=600)
        if p.returncode < 0 or (p.returncode != 0 and "Fatal Python error" in p.stderr):
            where = "?"
            for ln in p.stderr.splitlines():
                m = re.search(r'File ".*?/mwlib/([^"]+)", line \d+ in (\S+)', ln)
                if m:
                    where = "%s:%s" % (m.group(1), m.group(2))
                    break
            sig = -p.returncode if p.returncode < 0 else 0
            return {"id": case["id"], "ok": False, "exc": "ProcessDied", "frame": where, "msg": "interpreter died (signal %s)" % sig,
                    "cpu": 0, "n": len(case["raw"]), "nexp": 0, "fp": "crash@%s" % where}
        for ln in p.stdout.splitlines():
            if ln.startswith("{"):
                r = json.loads(ln)
                if r.get("id") == case["id"]:
                    last = r
    return last


def run_shard(src, shard):
    """Feed one worker process; when it dies, the first input without a result is re-run alone and the
    rest of the shard goes to a fresh worker."""
    results = {}
    remaining = list(shard)
    guard = 0
    while remaining and guard < 40:
        guard += 1
        _rc, out = _run_lines(src, [json.dumps(c) + "\n" for c in remaining], timeout=7200)
        got = {}
        for ln in out.splitlines():
            if ln.startswith('{"ok"'):
                try:
                    r = json.loads(ln)
                except ValueError:
                    continue
                got[r["id"]] = r
        results.update(got)
        missing = [c for c in remaining if c["id"] not in got]
        if not missing:
            break
        suspect = missing[0]
        results[suspect["id"]] = _solo(src, suspect)
        remaining = missing[1:]
    return results


def run_cases(src, cases):
    shards = [cases[k::NSHARDS] for k in range(NSHARDS)]
    results = {}
    with cf.ThreadPoolExecutor(NSHARDS) as ex:
        for r in ex.map(lambda sh: run_shard(src, sh), shards):
            results.update(r)
    return results


def minimise(src, case, fp):
    if fp.startswith("crash@"):
        return minimise_crash(src, case, fp)
    obj = {"raw": case["raw"], "lang": case["lang"], "db": case["db"], "fp": fp}
    rc, out = core.run_impl("vt.harness.c01_search", ["min"], src=src, input=json.dumps(obj), timeout=1800)
    for ln in out.splitlines():
        if ln.startswith('{"raw"'):
            m = json.loads(ln)
            return m["raw"], m["db"]
    return case["raw"], case["db"]


def minimise_crash(src, case, fp, limit=40):
    raw, db = case["raw"], case["db"]
    probes = [0]

    def keeps(r, d):
        probes[0] += 1
        res = _solo(src, {"id": 0, "raw": r, "lang": case["lang"], "db": d})
        return res.get("fp") == fp
    if db:
        for k in list(db):
            d2 = {a: b for a, b in db.items() if a != k}
            if keeps(raw, d2):
                db = d2
    n = 2
    while len(raw) >= 2 and probes[0] < limit:
        chunk = max(1, len(raw) // n)
        red = False
        i = 0
        while i < len(raw) and probes[0] < limit:
            cand = raw[:i] + raw[i + chunk:]
            if cand and keeps(cand, db):
                raw, n, red = cand, max(n - 1, 2), True
                break
            i += chunk
        if not red:
            if chunk == 1:
                break
            n = min(len(raw), n * 2)
    return raw, db


# ------------------------------------------------------------------ input generation

def read_names(run, src):
    """attribute / style-property keys the parser sources look up BY NAME, scanned from the snapshot with ast on every run (fail-closed: a
    scan that fails is a failed obligation, the search then goes on with the standard attribute names only)"""
    from vt.gen import c01_attrnames
    try:
        names = c01_attrnames.scan(src)
    except Exception as e:  # noqa: BLE001
        run.obligation("attribute-names-read-by-name-scanned", False, "%s: %s" % (type(e).__name__, str(e)[:300]))
        names = {}
    else:
        run.obligation("attribute-names-read-by-name-scanned", True, "%d names looked up by name in mwlib/parser, extensions, rendering: %s"
                       % (len(names), " ".join(names)))
    G.READ_NAMES[:] = list(names)
    run.coverage["attribute_names_read_by_name"] = {k: v[:3] for k, v in names.items()}
    return names


def gen_inputs(run, src=None):
    rng = run.rng
    if src is not None:
        read_names(run, src)
    quick = run.tier == "quick"
    maxlen = 400 if quick else 5000
    cases = []

    def add(raw, lang, db, kind):
        cases.append({"id": len(cases), "raw": raw, "lang": lang, "db": db, "kind": kind})
    # corpus (minimised past failures) first
    cdir = os.path.join(core.VERIF, "corpus", "C01")
    if os.path.isdir(cdir):
        for fn in sorted(os.listdir(cdir)):
            o = json.load(open(os.path.join(cdir, fn)))
            add(o["raw"], o.get("lang", "de"), o.get("db"), "corpus")
    for i, s in enumerate(SEEDS):
        for db in (None, G.TEMPLATE_UNIVERSES[2], G.TEMPLATE_UNIVERSES[5]):
            add(s, G.LANGS[i % 12], db, "seed")
    # attribute values over the number-like corner of Unicode, in every construct that takes attributes (exhaustive: char x construct)
    for i, raw in enumerate(G.attr_family()):
        add(raw, G.LANGS[i % 12], G.TEMPLATE_UNIVERSES[2] if (i % 3 == 0 or "{{" in raw) else None, "attrnum")
    # every attribute name the sources read by name (+ the standard ones) x int-like / numeric-looking / mixed values on every element kind
    # that carries attributes, 4 attribute forms x 7 position classes rotating (thorough: all of them); exempt from the 400-char cap
    for i, (raw, db, _desc) in enumerate(G.readattr_family(run.tier)):
        add(raw, G.LANGS[i % 12], db, "readattrs")
    # one line with 10..60 apostrophe runs of lengths 2..6 (plain and with the runs supplied by a template)
    for i, raw in enumerate(G.quote_family()):
        add(raw, G.LANGS[i % 12], None, "quoteruns")
        if i % 4 == 0:
            add(raw.replace("'" * 5, "{{q5}}") + "\n\nnext\n", G.LANGS[i % 12], G.TEMPLATE_UNIVERSES[2], "quoteruns")
    # unterminated / malformed tag openings followed by 4..60 attributes in 7 spellings (regex backtracking in the tag patterns)
    for i, raw in enumerate(G.unterminated_tag_family(run.tier)):
        add(raw, G.LANGS[i % 12], G.TEMPLATE_UNIVERSES[2] if i % 5 == 0 else None, "unterminated-tag")
    # wiki databases in which a page re-parses itself through a tag extension (cycle of 1..3 pages x every re-parsing tag / #tag / plain call)
    for i, (raw, db) in enumerate(G.reparse_family()):
        for lang in (G.LANGS[i % 12], "en" if i % 2 else "de"):      # "en" has a Page namespace alias path of its own; cover both lookups
            add(raw, lang, db, "reparse")
    # long digit strings (above the interpreter's 4300-digit int<->str limit) at every numeric position; exempt from the 400-char cap
    for i, raw in enumerate(G.longdigit_family(run.tier)):
        if "<imagemap" in raw and not OPEN_DEFECTS and len(raw) > G.INT_MAX_STR_DIGITS:
            continue        # left out only with VERIF_C01_OPEN_DEFECTS=0
        add(raw, G.LANGS[i % 12], G.TEMPLATE_UNIVERSES[2] if "{{" in raw else None, "longdigits")
    # strip markers (\x7fUNIQ-tag-n-hex-QINU\x7f): unknown / in-table / ill-formed / truncated / nested variants x every position class
    for i, (raw, db, _desc) in enumerate(G.uniq_family(run.tier)):
        add(raw, G.LANGS[i % 12], db, "uniqmarkers")
    if OPEN_DEFECTS:
        # fan-out >= 2 cycles: 2^40 nested parses on a tree without a total bound on the nested work (core.MAX_NESTED_WORK)
        for i in range(60 if quick else 600):
            raw, db = G.reparse_case(rng, 100, fanout=rng.choice([2, 2, 3]))
            add(raw, G.LANGS[i % 12], db, "reparse-fanout")
    # exhaustive repetition families: every alphabet token alone, and pairs, repeated up to the length bound
    alpha = G.alphabet()
    for i, t in enumerate(alpha):
        for size in ((40, maxlen) if quick else (40, 400, maxlen)):
            raw = (t * max(1, size // max(1, len(t))))[:size]
            if raw and G.nesting(raw) <= G.MAXDEPTH:
                add(raw, G.LANGS[i % 12], G.TEMPLATE_UNIVERSES[(i % 3) * 2], "single")
    npairs = 1500 if quick else len(alpha) * len(alpha)
    if quick:
        pairs = [(rng.choice(alpha), rng.choice(alpha)) for _ in range(npairs)]
    else:
        pairs = [(a, b) for a in alpha for b in alpha]
    for i, (a, b) in enumerate(pairs):
        unit = a + b
        size = maxlen if quick else rng.choice([400, 2000])
        raw = (unit * max(1, size // max(1, len(unit))))[:size]
        if raw and G.nesting(raw) <= G.MAXDEPTH:
            add(raw, G.LANGS[i % 12], G.TEMPLATE_UNIVERSES[(i % 4) * 2] if i % 5 else None, "pair")
    nrand = 5000 if quick else 60000
    for i in range(nrand):
        c = G.gen_case(rng, i, maxlen)
        add(c["raw"], c["lang"], c["db"], c["kind"])
    return cases, maxlen


# ------------------------------------------------------------------ the check

def search(run, src):
    cases, maxlen = gen_inputs(run, src)
    results = run_cases(src, cases)
    by_fp = collections.defaultdict(list)
    dist = collections.Counter()
    sizes = collections.Counter()
    langs = collections.Counter()
    worst = (0.0, None)
    missing = 0
    excluded = 0
    skipped = 0
    for c in cases:
        r = results.get(c["id"])
        if r is None:
            missing += 1
            continue
        if r.get("skipped"):
            skipped += 1
            continue
        n = max(r["n"], r["nexp"])
        nontrivial = any(ch in c["raw"] for ch in "[{<'=|&*#:;\n")
        run.count((c["raw"], c["lang"], json.dumps(c["db"], sort_keys=True)), nontrivial=nontrivial)
        dist[c["kind"]] += 1
        langs[c["lang"]] += 1
        sizes["<=50" if n <= 50 else "<=400" if n <= 400 else "<=2000" if n <= 2000 else ">2000"] += 1
        frac = r["cpu"] / (r.get("budget") or (3.0 + 2e-6 * n * n))
        if frac > worst[0] and not r.get("fp"):
            worst = (frac, {"cpu_s": r["cpu"], "n": n, "raw_head": c["raw"][:80]})
        if r.get("excluded"):
            excluded += 1
        if r.get("fp"):
            by_fp[r["fp"]].append((len(c["raw"]), c["id"]))
        elif len(run.samples) < 5 and c["kind"] in ("grammar", "deep") and len(c["raw"]) < 160:
            run.sample({"raw": c["raw"], "lang": c["lang"], "templates": sorted(c["db"]) if c["db"] else None, "cpu_s": r["cpu"]})
    run.obligation("search-harness-complete", missing == 0, "%d inputs without a result" % missing)
    run.obligation("search-not-cut-short", skipped == 0, "%d inputs skipped after a worker saw 10 over-budget inputs with one fingerprint" % skipped)
    byid = {c["id"]: c for c in cases}
    for fp in sorted(by_fp):
        _, cid = min(by_fp[fp])
        c = byid[cid]
        raw, db = minimise(src, c, fp)
        r = results[cid]
        run.hit(fp, "parse_string(title='t', raw=%r, lang=%r, wikidb=%s) -> %s: %s  [%d inputs of this run]"
                % (raw[:300], c["lang"], "None" if db is None else "pages %r" % db, fp, r.get("msg"), len(by_fp[fp])),
                {"raw": raw, "lang": c["lang"], "db": db, "fp": fp, "original_raw": c["raw"][:2000]})
    run.coverage["exhaustive"] = False
    run.coverage["exhaustive_part"] = "every alphabet token alone (%d tokens) repeated to the length bound%s" % (
        len(G.alphabet()), "" if run.tier == "quick" else "; every ordered pair of alphabet tokens repeated")
    run.coverage["input_distribution"] = {"kinds": dict(dist), "expanded_length": dict(sizes), "languages": dict(langs),
                                          "max_length": maxlen, "template_universes": len(G.TEMPLATE_UNIVERSES),
                                          "recursion_errors_excluded_because_expanded_nesting_exceeds_40": excluded,
                                          "failing_fingerprints": {k: len(v) for k, v in by_fp.items()}}
    run.coverage["cpu_budget"] = {"formula": "3.0 s + 2e-6 s * n^2 + 0.02 s * ndb (CPU; ndb = characters of page names and texts in the wiki database, "
                                             "n = max(len(raw), len(expanded text), ndb))",
                                  "worst_fraction_of_budget_used_by_a_passing_input": round(worst[0], 4), "that_input": worst[1]}


def check(run):
    run.rule = ("inputs = corpus + seed list + every alphabet token (markup, entities incl. out-of-range, control/non-BMP chars, links, "
                "template calls, HTML/extension tags) alone and in (sampled: quick / all: thorough) ordered pairs repeated to the length "
                "bound + every number-like character (ASCII, Unicode digits that int() rejects, decimal digits of other scripts incl. non-BMP, "
                "fractions/roman/ideographic numbers) as attribute value with sign/whitespace/quoting variants in every construct that takes "
                "attributes (HTML tags, table/row/cell/caption modifiers, extension tags, #tag, image options) + (family readattrs) every attribute / "
                "style-property name that the sources look up BY NAME (scanned on every run with python's ast from the snapshot: string constants in "
                ".get/.pop/.setdefault calls, subscripts and `in` tests of mwlib/parser, mwlib/extensions, mwlib/rendering - e.g. class, id, style, "
                "display, colspan, from, to, index, enclose, name; listed in coverage.attribute_names_read_by_name) and the standard HTML attribute "
                "names x 25 values (12 that int() accepts, so that parse_params stores an int - 5, 2024, 0, 007, -1, +5, blank-padded, 5_0, "
                "Arabic-Indic and full-width digits, 25 digits, tab/newline-padded - and 13 numeric-looking / mixed / trivial ones: 1.5, 1e3, 5%, "
                "0x10, superscript two, 5px, x5, '5 a', 'a 5', 5;6, 5:6, empty, a) on EVERY element kind that carries attributes (86: all HTML-ish "
                "tags the scanner lets through incl. void ones, table / caption / tr / td / th, ol / ul / li, dl / dt / dd, unclosed and self-nested "
                "div, wiki table / row / cell / header / caption modifiers, all extension tags, #tag:ref/poem/gallery/source/pages), in 4 forms "
                "(double-quoted, single-quoted, unquoted, as a property of style=) and 7 position classes (top level, nested in div+span, table "
                "cell, list item of each list kind, reference body, image caption, produced by a template that receives the value as argument); one "
                "document per (name, value) holds every element kind once, forms and positions rotate with the document number (quick); thorough "
                "runs all 28 (form, position) rotations for the int-like values and 4 for the others; exempt from the 400-character cap (documents "
                "of ~5-6 k characters) + one line with 10..60 apostrophe "
                "runs of lengths 2..6 after each opener (plain / runs from a template) + wiki databases in which a page re-parses itself: a cycle of 1..3 pages "
                "closed through EVERY re-parsing tag extension (ref, poem, gallery caption and line, pages by number and by title, imagemap, rot13, nowiki, "
                "named ref) and through #tag:ref/poem/pages and plain calls, direct and mutual (every ordered pair of recursing wrappers), entered by the "
                "article through the same wrapper or a plain call, in a language with and one without a Page namespace; random cycles of 1..4 pages with one "
                "recursive edge per page amid grammar text, and (family reparse-fanout) with 2-3 recursive edges per page + a long digit string (4301 digits "
                "= one above the interpreter's int<->str limit; thorough also 4300, 4990, leading zeros, 1 followed by 4300 zeros) at EVERY numeric position: "
                "each maximal digit run of each construct of a pool of ~260 constructs (attribute values of every attribute context, image options, imagemap "
                "coordinates, gallery/pages/table/list/font attributes, entities, magic links, timeline scripts, ~120 parser-function / template argument "
                "positions, short expressions with long results such as 10^4500) replaced one at a time - this family is EXEMPT from the 400-character cap of "
                "the quick tier (inputs of 4.3-5 k characters, the thorough bound) + strip markers (family uniqmarkers): the DEL-delimited markers "
                "\\x7fUNIQ-<tag>-<n>-<hex>-QINU\\x7f that uniq.Uniquifier substitutes for extension tags, as INPUT (forged, or pasted from rendered "
                "output): 46 variants - well-formed but not in the table of the parse (foreign random string, every tag name, counters 0 / 00 / 20 "
                "digits, short and long hex), with the process's own random string (the harness fixes it) and a counter inside the table (names "
                "another real tag of the text, or the very tag the marker sits in) or beyond it, ill-formed (Unicode-digit counter that Python's \\d "
                "accepts and the scanner does not, upper-case hex / name, empty fields), truncated (no leading / trailing DEL, head, tail, DEL alone), "
                "nested (marker inside the name / hex field of a marker, adjacent, sharing a DEL, an in-table marker inside an unknown one, a tag "
                "inside a marker) - x 89 position classes (plain text, heading, list, definition, pre line, comment, entity, table cell / table, row, "
                "cell, caption attributes, HTML attribute value double / single / un-quoted, style value, attribute name, valueless attribute, tag "
                "name, closing tag, table / list / heading / font attributes, unclosed tag, attributes and bodies of every extension tag, link target "
                "/ label / anchor / namespace, image caption / options / name, URL and label of external links, quotes, magic words, template "
                "argument / argument name / template name, parameters, a tag with the marker in its attributes inside a template argument, ~30 "
                "parser-function argument positions, #tag body / attribute / name, and wiki pages whose text holds the marker or passes an argument "
                "into an HTML / extension tag attribute) x {text without, text with real extension tags in front}; quick: one representative of each "
                "variant group meets every class, the other variants rotate (each meets >= 1/3 of the classes); thorough: the full product; "
                "markers and marker-carrying attributes are also alphabet tokens of the random kinds, and a random kind `uniq` draws marker fields "
                "and 1..3 position classes amid grammar text + random inputs: recursive grammar (sections, lists, tables, HTML blocks, extension elements, styles, links, refs, "
                "templates), 1-4 random mutations of grammar outputs, token soup, one construct nested 5..40 deep, short units repeated, random attribute constructs, random lines of 10..60 quote runs, random self-re-parsing wikis; "
                "each with one of 12 languages and one of 9 template universes (none, empty, or pages incl. self-recursive ones through ref/poem/gallery/pages); "
                "syntactic nesting measure <= 40; distinct = distinct (raw, lang, universe); non-trivial = contains a markup character")
    run.trusted = ["Coq 8.16.1 kernel (coqc); vm_compute in Examples/finite obligations only",
                   "extraction (ExtrOcamlBasic directives only) + ocaml/c01/driver.ml",
                   "hand-written Gallina models of resolve_entity, State.get_next/compute_path (coq/C01/Model.v) and of the index loops of the "
                   "refinement passes (coq/C01/Passes.v); tied by differential runs only",
                   "Python int()/chr() semantics: int(str, base) raises only ValueError; chr(i) raises OverflowError outside C int, "
                   "ValueError outside range(0x110000)",
                   "the harness's wiki database double (production interface of nuwiki.Adapt over a dict of pages)",
                   "CPU time as reported by time.process_time / ITIMER_VIRTUAL",
                   "uniq.Uniquifier.random_string (8 bytes of os.urandom per process) is set to a fixed value by the search harness: the state of a "
                   "process whose urandom call returned those bytes; needed so that inputs can hold markers that ARE in the table of the parse",
                   "pass loop models: abstraction of tokens to the kinds the loops branch on; functional encoding of two aliasing sites "
                   "(the open-section stack of ParseSections, the styles list of ParseSingleQuote); compute_path as a parameter of the "
                   "ParseSingleQuote model (replayed in call order in the tie) — all covered by the differential runs",
                   "post-processor model (coq/C01/PassesPost.v): article trees abstracted to node kinds (div TagNode with the value stored under "
                   "'class': absent / int / str with or without 'boilerplate'; other TagNode; Text; other), the lookup attribute and the except clause "
                   "generated from post_processors.py by vt/gen/c01_post.py (shape of the whole function compared with a reference AST, fail-closed); "
                   "`child.values` raises AttributeError because no tree node has such an attribute (checked on every real tree of the tie); "
                   "post_processors.simplify is not modelled (its only operations are list deletion at collected indices and str + str)",
                   "table / preformatted loop models (coq/C01/PassesPre.v, PassesTable.v): util.parse_params / Token.join_as_text (modifier -> vlist) and "
                   "core.TagParser for <caption> inside make_table are not modelled (exercised by the search on real wikitext only); the token kinds "
                   "cover everything these loops branch on (type, blocknode, tagname, rawtagname, text None / blank / column mark); ParsePreformatted's "
                   "tree walk (get_token_walker) is not modelled, only run() on one list"]
    run.assumptions = ["inputs are sequences of Unicode scalar values (no lone surrogates in the raw text), length <= 400 (quick) / 5000 (thorough); "
                       "the deterministic quote-run lines are up to 660 characters, the strip-marker family up to ~450 and the long-digit family up to "
                       "~5100 characters, the read-by-name attribute family up to ~6000 characters in both tiers",
                       "syntactic nesting <= 40, of the raw text, of the raw text with its <!-- comments --> removed (the parser strips them first, which glues "
                       "the markup on both sides: '*#:;<!-- c -->*#:;' is a list prefix of length 8) and of the text after template expansion (deeper nesting exhausts the interpreter "
                       "stack by construction and is excluded by the property): a RecursionError on an input whose expanded text nests "
                       "deeper is counted as excluded, not as a violation",
                       "time budget 3 s + 2e-6 s*n^2 + 0.02 s*ndb CPU stands for 'polynomial, no blow-up' (n = max of raw length, expanded length and ndb = size of the "
                       "wiki database, which is part of the input; the linear term covers the bounded number (MAX_PARSE_DEPTH, MAX_NESTED_WORK) of nested parses "
                       "that database pages can cause, each linear in the page text)"]
    src = core.snapshot()
    del PENDING_HITS[:]
    try:
        proofs(run, src)
    except Exception as e:  # noqa: BLE001  a broken proof phase must not stop the search for a concrete input (verdict stays fail-closed)
        run.obligation("proof-and-tie-phase-completed", False, "%s: %s" % (type(e).__name__, str(e)[:400]))
    search(run, src)
    have = {h["fingerprint"] for h in run.hits}
    for fp, what, rp in PENDING_HITS:
        if fp not in have:
            have.add(fp)
            run.hit(fp, what, rp)


def generate(src):
    from vt.gen import c01_path, c01_resolve
    r = c01_resolve.generate(src)
    r.update(c01_path.generate(src))
    from vt.gen import c01_post
    r.update(c01_post.generate(src))
    return r


def build():
    return core.ocaml_build("c01", "C01/Extract.v", "driver.ml")


def _units(src, cases):
    rc, out = core.run_impl("vt.harness.c01_units", [], src=src, input="".join(json.dumps(c) + "\n" for c in cases), timeout=1800)
    res = {}
    for ln in out.splitlines():
        if ln.startswith('{"id"'):
            r = json.loads(ln)
            res[r["id"]] = r
    if len(res) != len(cases):
        raise RuntimeError("c01_units: %d/%d results: %s" % (len(res), len(cases), out[-600:]))
    return res


def entity_cases(rng, tier):
    ents = list(G.ENTITIES) + ["&amp;", "&lt;", "&gt;", "&quot;", "&nbsp;", "&euro;", "&AMP;", "&Auml;", "&;", "&#;", "&#x;", "&#X;", "&x;", "&#xx;"]
    bounds = [0, 1, 9, 10, 127, 128, 255, 0xD7FF, 0xD800, 0xDFFF, 0xE000, 0xFFFF, 0x10000, 0x10FFFF, 0x110000, 2**31 - 1, 2**31, 2**31 + 1,
              2**32, 2**63, 2**64, 10**18, 10**19, 10**30, 10**100]
    for b in bounds:
        ents += ["&#%d;" % b, "&#x%x;" % b, "&#X%X;" % b, "&#-%d;" % b, "&#0%d;" % b, "&#x-%x;" % b]
    n = 1500 if tier == "quick" else 20000
    for _ in range(n):
        k = rng.choice([1, 2, 3, 5, 8, 12, 20, 40])
        body = "".join(rng.choice("##xX0123456789abcdefABCDEF0123456789_ +-.g\u0663\uff11") for _ in range(k))
        ents.append("&" + body.replace(";", "") + ";")
    for _ in range(n // 3):
        ents.append("&#" + rng.choice(["", "x", "X"]) + "".join(rng.choice("0123456789abcdef") for _ in range(rng.randint(1, 30))) + ";")
    return ents


def count_cases(rng, tier):
    import itertools
    cs = []
    for ln in range(0, 5 if tier == "quick" else 6):
        cs += [list(t) for t in itertools.product([2, 3, 4, 5, 6, 7], repeat=ln)]
    for _ in range(1500 if tier == "quick" else 20000):
        ln = rng.choice([5, 6, 8, 12, 20, 40])
        cs.append([rng.choice([2, 2, 3, 3, 4, 5, 6, 9]) for _ in range(ln)])
    # unbalanced opener followed by k runs of one length (the state space can only be kept small by pruning / de-duplication)
    for first in (2, 3, 4, 5):
        for n in (2, 3, 4, 5, 6):
            for k in (10, 20, 40, 60):
                cs.append([first] + [n] * k)
    # balanced italic(bold*k) / bold(italic*k) families (see C02_quotes_balanced)
    for k in range(1, 30):
        cs.append([2] + [3, 3] * k + [2])
        cs.append([3] + [2, 2] * k + [3])
    return cs


def proofs(run, src):
    run.check_proofs("C01", gen=lambda: generate(src))
    exe = build()
    # ---- tie 1: resolve_entity, real vs extracted model; Python's own int()/name-table outcome is fed to the model
    ents = entity_cases(run.rng, run.tier)
    cases = [{"id": i, "k": "R", "e": e} for i, e in enumerate(ents)]
    res = _units(src, cases)
    lines = "".join("R %s|%s|%s\n" % (core.cps(c["e"]), res[c["id"]].get("int", "N"), res[c["id"]].get("name", "N")) for c in cases)
    out = subprocess.run([exe], input=lines, capture_output=True, text=True, timeout=600).stdout.splitlines()
    dis = []
    outcomes = collections.Counter()
    for c, m in zip(cases, out):
        r = res[c["id"]]
        real = ("RAISE " + r["exc"]) if "exc" in r else ("OK " + core.cps(r["out"])).rstrip()
        outcomes["raise" if "exc" in r else "literal" if r["out"] == c["e"] else "char"] += 1
        if real != m.rstrip():
            dis.append("resolve_entity(%r): real %s, model %s" % (c["e"], real, m))
        if "exc" in r:
            # monitor at unit level: an exception escaping resolve_entity aborts the whole parse
            run.hit("exc:%s@parser/refine/util.py:resolve_entity" % r["exc"], "resolve_entity(%r) raised %s" % (c["e"], r["exc"]),
                    {"raw": c["e"], "lang": "de", "db": None, "fp": "exc:%s@parser/refine/util.py:resolve_entity" % r["exc"]})
    run.tie("resolve_entity: extracted model vs util.resolve_entity (result string / exception)", len(cases), dis)
    run.coverage["resolve_entity_outcomes"] = dict(outcomes)
    # ---- tie 2: compute_path
    counts = count_cases(run.rng, run.tier)
    cases = [{"id": i, "k": "P", "counts": c} for i, c in enumerate(counts)]
    res = _units(src, cases)
    lines = "".join("P %s|%s\n" % (" ".join(map(str, c["counts"])), ";".join("%d,%d,%d" % tuple(t) for t in res[c["id"]].get("path", []))) for c in cases)
    out = subprocess.run([exe], input=lines, capture_output=True, text=True, timeout=1800).stdout.splitlines()
    dis = []
    pruned = 0
    maxwork = 0
    for c, m in zip(cases, out):
        r = res[c["id"]]
        # the bound of C01_compute_path_bounded, measured on the real code: states handed to sort_states per step
        w = r.get("work") or []
        if w:
            maxwork = max(maxwork, max(w))
        if w and max(w) > 192:
            dis.append("compute_path(%r): real code generated %d states in one step (theorem bound 192 = 6*32)" % (c["counts"], max(w)))
        if "exc" in r:
            dis.append("compute_path(%r): real raised %s after %s s CPU, model %s" % (c["counts"], r["exc"], r.get("cpu"), m))
            continue
        if len(w) != len(c["counts"]):
            dis.append("compute_path(%r): sort_states called %d times for %d counts" % (c["counts"], len(w), len(c["counts"])))
        f = m.split()
        if f[0] != "LEN":
            dis.append("compute_path(%r): model %s, real returned %d states" % (c["counts"], m, len(r["path"])))
            continue
        mlen, valid, sa, sb, maxnew = int(f[1]), f[3] == "1", int(f[5]), int(f[7]), int(f[9])
        mwork = [int(x) for x in f[11].split(",")] if len(f) > 11 and f[11] else []
        path = r["path"]
        score = (path[-1][0] + path[-1][1] + path[-1][2]) if path else 0
        if len(path) != mlen or len(path) != len(c["counts"]):
            dis.append("compute_path(%r): length real %d model %d" % (c["counts"], len(path), mlen))
        elif not valid:
            dis.append("compute_path(%r): real path %r is not a chain of get_next successors of the model" % (c["counts"], path))
        elif maxnew <= 32 and not (score == sa == sb):
            dis.append("compute_path(%r): no pruning possible, final scores real %d model %d/%d" % (c["counts"], score, sa, sb))
        elif maxnew <= 32 and w != mwork:
            # without a cut the set of kept keys does not depend on the tie-breaking order: the work per step is determined
            dis.append("compute_path(%r): no pruning possible, states per step real %r model %r (de-duplication differs)" % (c["counts"], w, mwork))
        if maxnew > 32:
            pruned += 1
    run.tie("compute_path: real path is a get_next chain of the model, same length; <= 192 states per step; same final score and same "
            "number of states per step when no pruning can occur",
            len(cases), dis)
    run.coverage["compute_path_cases_with_pruning"] = pruned
    run.coverage["compute_path_max_states_per_step_real"] = maxwork
    # ---- ties 3-7: the index-walking loops of five refinement passes, real vs extracted loop models (coq/C01/Passes.v)
    from vt.harness import c01_passtie
    pres = c01_passtie.tie(run, src)
    run.coverage["pass_loop_ties"] = {nm: {k: v for k, v in r.items() if k != "disagreement_list"} for nm, r in pres.items()}
    # ---- tie 17: the post-processor remove_boilerplate (coq/C01/PassesPost.v, configuration generated from the source)
    post_tie(run, src)


def _coq_tree(t):
    kinds = {10: "KDiv None", 11: "KDiv (Some AInt)", 12: "KDiv (Some (AStr false))", 13: "KDiv (Some (AStr true))",
             20: "KTagNode", 21: "KText", 22: "KOtherNode"}
    return "(Node (%s) [%s])" % (kinds[t[0]], "; ".join(_coq_tree(c) for c in t[1]))


def post_tie(run, src):
    """tie 17: the real post_processors.remove_boilerplate on real article trees (parsed from generated wikitext without post-processors)
    vs the model rb of coq/C01/PassesPost.v under the configuration generated from the source (Gen_post.post_cfg), evaluated by coqc
    (vm_compute) on the abstraction of the same trees; compares the resulting tree / the exception kind."""
    n = 400 if run.tier == "quick" else 2000
    docs = [G.post_doc(run.rng) for _ in range(n)]
    inp = "".join(json.dumps({"id": i, "raw": d, "lang": G.LANGS[i % 12]}) + "\n" for i, d in enumerate(docs))
    _rc, out = core.run_impl("vt.harness.c01_post", [], src=src, input=inp, timeout=1800)
    res = {}
    for ln in out.splitlines():
        if ln.startswith('{"id"'):
            r = json.loads(ln)
            res[r["id"]] = r
    dis = []
    if len(res) != n:
        dis.append("c01_post: %d/%d results: %s" % (len(res), n, out[-300:]))
    usable = [i for i in sorted(res) if "pre" in res[i]]
    outcomes = collections.Counter()
    model = {}
    for k in range(0, len(usable), 400):
        chunk = usable[k:k + 400]
        fn = "cases_post_%d_%d.v" % (os.getpid(), k)
        path = os.path.join(core.COQ, "C01", fn)
        text = ("From Coq Require Import List.\nFrom MW Require Import C01.PassesPost C01.Gen_post.\nImport ListNotations.\n"
                "Eval vm_compute in (map (rb_run post_cfg) [\n%s]).\n" % ";\n".join(_coq_tree(res[i]["pre"]) for i in chunk))
        try:
            with open(path, "w") as f:
                f.write(text)
            ok, cout = core.coqc_file("C01/" + fn, timeout=600)
        finally:
            for ext in (".v", ".vo", ".vok", ".vos", ".glob"):
                try:
                    os.unlink(path[:-2] + ext)
                except OSError:
                    pass
            try:
                os.unlink(os.path.join(core.COQ, "C01", "." + fn[:-2] + ".aux"))
            except OSError:
                pass
        m = re.search(r"=\s*(\[.*\])\s*:\s*list \(list nat\)", cout, re.DOTALL)
        if not ok or not m:
            dis.append("coqc on the model cases failed: %s" % cout[-300:])
            continue
        vals = json.loads(m.group(1).replace(";", ","))
        if len(vals) != len(chunk):
            dis.append("model returned %d results for %d cases" % (len(vals), len(chunk)))
            continue
        for i, v in zip(chunk, vals):
            model[i] = v
    nvalues = 0
    for i in usable:
        r = res[i]
        nvalues += r.get("values_attr", 0)
        for u in r.get("unmodelled", []):
            dis.append("remove_boilerplate(%r): tree outside the model: %s" % (docs[i][:120], u))
        if i in model and model[i] != r["out"]:
            dis.append("remove_boilerplate on the tree of %r: real %r, model %r" % (docs[i][:160], r["out"][:12], model[i][:12]))
        outcomes["tree" if r["out"][0] == 0 else "TypeError" if r["out"][0] == 1 else "AttributeError" if r["out"][0] == 2 else "other exception"] += 1
        if r["out"][0] != 0:
            # monitor at unit level: an exception escaping a post-processor aborts the whole parse (uparser.py:102)
            fp = "exc:%s@parser/post_processors.py:remove_boilerplate" % {1: "TypeError", 2: "AttributeError"}.get(r["out"][0], r.get("exc", "?"))
            # (reported after the search, and only when the search has no minimised input with the same fingerprint)
            PENDING_HITS.append((fp, "remove_boilerplate raised on the article tree of %r" % docs[i][:200],
                                 {"raw": docs[i], "lang": G.LANGS[i % 12], "db": None, "fp": fp}))
    if nvalues:
        dis.append("%d tree nodes have an attribute `values`: the model's LAbsent (AttributeError on child.values) does not hold" % nvalues)
    run.tie("remove_boilerplate: real post-processor on real article trees vs model rb under the generated configuration (result tree / exception kind)",
            len(usable), dis)
    run.coverage["remove_boilerplate_tie"] = {"documents": n, "trees": len(usable), "outcomes": dict(outcomes),
                                              "trees_with_an_int_class": sum(1 for i in usable if "[11," in json.dumps(res[i]["pre"]))}


def replay(obj):
    src = core.snapshot()
    rp = obj["replay"]
    if "raw" not in rp:
        print(json.dumps(rp, indent=1))
        return 1
    case = {"id": 0, "raw": rp["raw"], "lang": rp.get("lang", "de"), "db": rp.get("db")}
    r = _solo(src, case)
    print(json.dumps(r))
    bad = bool(r.get("fp"))
    if not bad and "RecursionError" in str(rp.get("fp")):
        # whether a stack overflow escapes depends on where it strikes, i.e. on the caller's stack depth (the property quantifies over callers):
        # try a few more caller depths than the search's standard one
        for d in (41, 42, 43, 45, 50):
            r = _solo(src, case, call_depth=d)
            if r.get("fp"):
                print(json.dumps(r))
                print("(reproduced with %d caller frames instead of 40)" % d)
                bad = True
                break
    print("REPRODUCED" if bad else "not reproduced")
    return 1 if bad else 0
