"""C06 — every cleaning pass completes on every parsed document.

Static: vt/gen/c06_api.py regenerates coq/C06/Gen_api.v from the snapshot (attribute names used by the cleaner vs
names defined by the node classes); C06_api_closed / C06_cleaner_methods_exist re-checked by vm_compute.
Proof: termination of fix_paragraphs, of the remove_breaking_returns loop (candidates computed by a model of the four
navigation functions) and of fix_nesting (labelled trees, any forbidden/invisible table) with explicit measures.
fix_nesting's repair step is also replayed on the HEAP model (copy / remove_child / replace_child cell by cell): no exception but
the IndexError of middle_tree.children[0], and the document stays a proper tree, for any markings.
Search: each pass called DIRECTLY (not through the catch-all) in the documented order on trees of the adversarial and
the well-formed input space, under a time limit; exception or time-out = failing input; clean_all's error reports too.
Families in both spaces: 2..25 structurally EQUAL offenders under one forbidden ancestor (fix_nesting must stay linear), every
numeric attribute the current source reads by name x every number spelling (exhaustive sweep + random combinations); space 1:
captioned tables (caption of 0..16 inline nodes x the trigger of every table pass; exhaustive sweep + random members), one
footnote name in many spellings."""
import json

from vt import core
from vt.gen import c06_api
from vt.harness import c05_gen as G
from vt.props import c05
from vt.props import c06_nesting

LEVEL = "proof"


def generate(src):
    a = c06_api.generate(src)
    a["nesting"] = c06_nesting.generate(src)      # Gen_nesting.v: forbidden_parents / outside_parents_invisible + code-shape checks
    return a


def build():
    c06_nesting.build()
    return c05.build()


def check(run):
    run.rule = c05.check.__doc__ or ""
    run.rule = ("space 1: %d seeds (one per trigger: region_list, overflow:auto, absolute positioning, named refs, noprint, wide/"
                "nested/single-column tables, ...; trigger x css unit exhaustively: overflow:auto/position on div, span and table with the "
                "length the pass reads in each of %d units) + grammar-based adversarial wikitext with mutations, whose style attributes "
                "are drawn from a css grammar (every trigger with every number x unit / keyword / garbage of the length it makes the "
                "cleaner read, %d length properties, %d keyword properties); 10%% of the documents: one element context (tables, nested/"
                "single-column tables, lists, div/span/font/hr, gallery, ref, dl, stray table parts, image size modifiers) whose attribute "
                "slots carry numeric attributes (colspan/rowspan 40%%, else one of the html numeric attributes or an attribute the current "
                "source reads by name) with one of the number spellings (ints, floats, exponents that overflow, inf/nan spellings, hex/"
                "octal/binary, underscores, Unicode digits, signs, blanks, units, garbage, digit strings around CPython's 4300-digit "
                "limit); 5%%: 2..25 structurally equal (85%%) or distinct offenders under one forbidden ancestor for every expressible "
                "pair of forbidden_parents; 4%%: a captioned table = one of %d table-pass triggers (every size / shape / class / style "
                "condition a table pass of treecleaner.py tests: big cells by list length / characters / nested rows / nested columns, "
                "split class and id, bordered nested tables, headings+lists, single-column long / one-row / images / gallery / > 200 cells, "
                "container and wide nested tables, tall cells, list rows, navbox, scroll, trailing empty rows, ending cell, colspans, "
                "wide, long, noprint, infobox, sections in cells) x 1-2 captions of 0..16 inline nodes (text, bold, italics, links, big, "
                "ref, image, break) above / below / on both sides of the rows, mostly after lead text (not an infobox); 4%%: one footnote "
                "name in 2..6 spellings (blanks, quoting, case, look-alikes) as definition / empty use / empty pair; on top, exhaustively: "
                "every attribute / style property the source reads by name x every number spelling on a small table / div, trigger x "
                "caption (%d documents), footnote name x spelling x definition/use x order (%d documents); space 2: well-formed documents (2%% of the blocks: 2..25 equal captioned images "
                "in a preformatted line or equal indented lines inside one paragraph). "
                "Each of the 58 entries of cleaner_methods is called directly, in order, under a CPU-time limit. distinct = distinct "
                "wikitext; non-trivial = at least one pass changed the tree" % (len(G.SEEDS), len(G.UNITS), len(G.LENGTH_PROPS), len(G.KEYWORD_PROPS),
                                                                             len(G.TABLE_TRIGGERS), len(G.captioned_table_sweep()), len(G.refname_sweep())))
    run.trusted = c05.TRUSTED + ["vt/gen/c06_api.py (Python ast): which attribute reads count as obligations (Load/Del on non-module "
                                 "receivers; getattr/hasattr with literal names are guarded reads and are not), which sources define names",
                                 "the fixed allow-list of builtin-type attributes in vt/gen/c06_api.py",
                                 "CPU-time limit (5 s quick / 10 s thorough per pass call; ITIMER_VIRTUAL wakes the check up, the verdict is taken on "
                                 "the precise per-process CPU clock time.process_time()) as the meaning of 'bounded time'",
                                 "vt/gen/c06_nesting.py (Python ast) reading of TreeCleaner.__init__'s tables and of the shape of "
                                 "_mark_nodes/_filter_tree/_fix_nesting",
                                 "OCaml extraction of fix_nesting + ocaml/c06n/driver.ml parser/printer",
                                 "vt/harness/c06_nesting.py construction of advtree objects by class code"]
    run.assumptions = ["name-based attribute check: a name defined by ANY node class / mixin counts as defined for every receiver",
                       "C06_breaking_returns_terminates_real: is_block_node and 'display text is blank' are abstract; BreakingReturns are "
                       "assumed childless (a BreakingReturn with a block descendant makes the model loop spin: C06_cand_detached_refuted)",
                       "C06_fix_nesting_terminates: 'loose' strictness only; labelled trees, deepcopy = fresh identities.  The heap-level "
                       "call sequence of one repair (copy / _filter_tree = remove_child of every marked node / children[0] / "
                       "replace_child) IS replayed cell by cell on the heap model (C06/ModelNestingHeap.v) and proved to keep the "
                       "document a proper tree for ANY markings and any number of repairs (C06_fix_nesting_repair_heap_WF, "
                       "C06_fix_nesting_heap_preserves_WF); not proved: that the heap-level result is the labelled model's result "
                       "up to renaming of the copies' identities (termination and word preservation are proved on labelled trees)",
                       "nesting deeper than 40 is outside the quantifier (C01's input space): RecursionError on deeper documents is not "
                       "reported here (C05 checks that the tree stays proper when that happens)",
                       "exceptions other than missing attributes are decided by the search only"]
    src = core.snapshot()
    info = {}

    def gen():
        info["a"] = generate(src)

    run.check_proofs("C06", gen=gen, dirs=["C05", "C07"])
    a = info.get("a")
    if a is not None:
        miss = c06_api.missing(a)
        run.obligation("every attribute used by the cleaner is defined (Gen_api: %d used, %d defined)" % (len(a["used"]), len(a["defined"])),
                       not miss, "; ".join("%s (%s)" % m for m in miss))
        nm = [m for m in a["cleaner_methods"] if m not in a["tc_methods"]]
        run.obligation("cleaner_methods (%d) are methods of TreeCleaner" % len(a["cleaner_methods"]), not nm, ", ".join(nm))
        run.obligation("fix_nesting tables + code shape regenerated from treecleaner.py (Gen_nesting.v)", a.get("nesting") is not None,
                       str(a.get("nesting")))
    exe = c05.build()
    try:                                       # a broken translator / proof must not keep the search from running
        c06_nesting.build()
        c06_nesting.nesting_tie(run, src)      # extracted fix_nesting vs the real TreeCleaner.fix_nesting on random class skeletons
    except Exception as e:
        run.obligation("fix_nesting differential built and run", False, "%s: %s" % (type(e).__name__, str(e)[:300]))
    c05.monitor(run, "c06", [1, 2], src, exe)
    run.coverage["exhaustive"] = False


def replay(obj):
    return c05.replay(obj)
