"""C06 — every cleaning pass completes on every parsed document.

Static: vt/gen/c06_api.py regenerates coq/C06/Gen_api.v from the snapshot (attribute names used by the cleaner vs
names defined by the node classes); C06_api_closed / C06_cleaner_methods_exist re-checked by vm_compute.
Proof: termination of fix_paragraphs, of the remove_breaking_returns loop (candidates computed by a model of the four
navigation functions) and of fix_nesting (labelled trees, any forbidden/invisible table) with explicit measures.
Search: each pass called DIRECTLY (not through the catch-all) in the documented order on trees of the adversarial and
the well-formed input space, under a time limit; exception or time-out = failing input; clean_all's error reports too."""
import json

from vt import core
from vt.gen import c06_api
from vt.harness import c05_gen as G
from vt.props import c05
from vt.props import c06_nesting

LEVEL = "proof"


def generate(src):
    a = c06_api.generate(src)
    a["nesting"] = c06_nesting.generate(src)      # Gen_nesting.v: forbidden_parents / outside_parents_invisible + code-shape checks
    return a


def build():
    c06_nesting.build()
    return c05.build()


def check(run):
    run.rule = c05.check.__doc__ or ""
    run.rule = ("space 1: %d seeds (one per trigger: region_list, overflow:auto, absolute positioning, named refs, noprint, wide/"
                "nested/single-column tables, ...; trigger x css unit exhaustively: overflow:auto/position on div, span and table with the "
                "length the pass reads in each of %d units) + grammar-based adversarial wikitext with mutations, whose style attributes "
                "are drawn from a css grammar (every trigger with every number x unit / keyword / garbage of the length it makes the "
                "cleaner read, %d length properties, %d keyword properties); space 2: well-formed documents. "
                "Each of the 58 entries of cleaner_methods is called directly, in order, under a CPU-time limit. distinct = distinct "
                "wikitext; non-trivial = at least one pass changed the tree" % (len(G.SEEDS), len(G.UNITS), len(G.LENGTH_PROPS), len(G.KEYWORD_PROPS)))
    run.trusted = c05.TRUSTED + ["vt/gen/c06_api.py (Python ast): which attribute reads count as obligations (Load/Del on non-module "
                                 "receivers; getattr/hasattr with literal names are guarded reads and are not), which sources define names",
                                 "the fixed allow-list of builtin-type attributes in vt/gen/c06_api.py",
                                 "CPU-time limit (ITIMER_VIRTUAL; 5 s quick / 10 s thorough per pass call) as the meaning of 'bounded time'",
                                 "vt/gen/c06_nesting.py (Python ast) reading of TreeCleaner.__init__'s tables and of the shape of "
                                 "_mark_nodes/_filter_tree/_fix_nesting",
                                 "OCaml extraction of fix_nesting + ocaml/c06n/driver.ml parser/printer",
                                 "vt/harness/c06_nesting.py construction of advtree objects by class code"]
    run.assumptions = ["name-based attribute check: a name defined by ANY node class / mixin counts as defined for every receiver",
                       "C06_breaking_returns_terminates_real: is_block_node and 'display text is blank' are abstract; BreakingReturns are "
                       "assumed childless (a BreakingReturn with a block descendant makes the model loop spin: C06_cand_detached_refuted)",
                       "C06_fix_nesting_terminates: 'loose' strictness only; labelled trees, deepcopy = fresh identities; the heap-level "
                       "call sequence copy/remove_child/replace_child is not replayed cell by cell",
                       "nesting deeper than 40 is outside the quantifier (C01's input space): RecursionError on deeper documents is not "
                       "reported here (C05 checks that the tree stays proper when that happens)",
                       "exceptions other than missing attributes are decided by the search only"]
    src = core.snapshot()
    info = {}

    def gen():
        info["a"] = generate(src)

    run.check_proofs("C06", gen=gen, dirs=["C05", "C07"])
    a = info.get("a")
    if a is not None:
        miss = c06_api.missing(a)
        run.obligation("every attribute used by the cleaner is defined (Gen_api: %d used, %d defined)" % (len(a["used"]), len(a["defined"])),
                       not miss, "; ".join("%s (%s)" % m for m in miss))
        nm = [m for m in a["cleaner_methods"] if m not in a["tc_methods"]]
        run.obligation("cleaner_methods (%d) are methods of TreeCleaner" % len(a["cleaner_methods"]), not nm, ", ".join(nm))
        run.obligation("fix_nesting tables + code shape regenerated from treecleaner.py (Gen_nesting.v)", a.get("nesting") is not None,
                       str(a.get("nesting")))
    exe = c05.build()
    try:                                       # a broken translator / proof must not keep the search from running
        c06_nesting.build()
        c06_nesting.nesting_tie(run, src)      # extracted fix_nesting vs the real TreeCleaner.fix_nesting on random class skeletons
    except Exception as e:
        run.obligation("fix_nesting differential built and run", False, "%s: %s" % (type(e).__name__, str(e)[:300]))
    c05.monitor(run, "c06", [1, 2], src, exe)
    run.coverage["exhaustive"] = False


def replay(obj):
    return c05.replay(obj)
