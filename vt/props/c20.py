"""C20 — output files appear atomically.
Proof : coq/C20 (FsTrace syscall model; safe_publish recogniser; every prefix of an accepted trace shows
        absent / old / a complete, closed, published version at FINAL).  ProofsBuffered.v: a producer writing ANY
        payload in ANY chunking through a user-space buffer of ANY capacity, then flush+close+rename, is accepted and
        publishes exactly the payload; with the rename before flush+close it is rejected and, whenever bytes are
        pending in user space at the rename, the prefix ending with the rename shows a strict prefix of the payload.
        ModelMove.v / ProofsMove.v: the temp file is MOVED into place (shutil.move = rename, or across file systems copy
        onto the published name): on one file system (temp a sibling of the output) the trace is the close-then-rename
        producer - accepted, publishes the payload; across file systems it is rejected and, for every cut of the copy,
        some crash prefix shows exactly the part copied so far (the empty file right after the open) at FINAL.
Tie   : every producer runs in a subprocess under `strace -f`; the log is abstracted to FsTrace ops and (1) the
        extracted recogniser must accept it for every published path - fault-free, with an injected ENOSPC/EIO at
        every tracked syscall, and for every killed prefix; (2) the extracted `run` must predict the bytes found on
        disk for every tracked path after the (possibly killed) run.
Search: real crash enumeration: SIGKILL injected at every tracked syscall (alone, and after an injected fault in the
        thorough tier); a reader then opens each published path: absent, or parses completely and equals the old
        version or one of the complete versions of a fault-free run.
Payload sizes are part of the case space: what a kill loses is the user-space buffer of the file object, and whether
        bytes sit there when a rename happens depends on size mod (download chunk, io buffer).  Every producer is
        therefore also run with payload sizes that are NOT multiples of those (below one buffer, buffer+-1, k*chunk+r
        with r < buffer and r > buffer, random non-multiples: `name@N` scenarios), and the positions right before and
        right after EVERY rename are killed / faulted whatever the stride of the tier.  A fault-free trace the
        recogniser rejects (or the model mispredicts) switches its group to stride 1: the verdict fails closed, the
        search for a concrete partial file goes on.
SHORT WRITES are part of the fault model: write(2) may store fewer bytes than asked and report the count without an
        error (almost full disk, quota, file-size limit).  Every main / sized / corpus scenario is run once more under a
        FILE-SIZE LIMIT (RLIMIT_FSIZE in the producer process, SIGXFSZ ignored; C20_FSIZE, vt/harness/c20_producers.py)
        at the budget classes 0, 1, half, size-1 of its published files: the kernel really cuts the write crossing the
        limit short and fails the next one with EFBIG (both seen in the strace log: tie).  In a trace a short write is
        a Write op with the bytes actually stored - recogniser and model need nothing new - but the recogniser cannot
        know what the program MEANT to write (C20_short_write_unchecked_accepted / _refuted): a producer that ignores
        the count is found by the reader oracle only.  ModelShort.v / ProofsShort.v: the write-all loop of the io stack
        publishes exactly the payload or nothing for every sequence of write outcomes.
The ENVIRONMENT of a producer run is part of "every producer run" as well: how the caller spells the output path
        (absolute / a BARE file name with cwd = the output directory / `./name`) and where $TMPDIR lives (untouched /
        a directory on ANOTHER FILE SYSTEM than the output directory).  Scenarios `name[@N]%flags` (flags rel, dot,
        xdev, tmp; see vt/harness/c20_producers.py) run every producer in those environments; $TMPDIR is then a
        tracked directory too.  A temp file that is a sibling of the output is renamed as before; a temp file that
        landed in $TMPDIR and is "moved" shows rename -> EXDEV followed by a write-open of the published path itself
        (copy fallback), which the recogniser rejects and the kill enumeration turns into a truncated file under
        the final name.  A producer that fails cleanly with EXDEV (old version intact) is NOT reported."""
import concurrent.futures as cf
import io
import json
import os
import shutil
import subprocess
import zipfile

from vt import core
from vt.harness import c20_strace as st

LEVEL = "proof"

PRODUCERS = {
    "status": {"finals": ["status.json"], "main": "basic", "more": ["nodir", "pod"]},
    "zip": {"finals": ["coll.zip"], "main": "create", "more": []},
    "makezip": {"finals": ["coll.zip", "status.json"], "main": "pod", "more": ["plain", "postfail"]},
    "download": {"finals": ["img.png"], "main": "ok", "more": ["retry429", "midfail", "http500"]},
    "render": {"finals": ["out.pdf", "status.json"], "main": "ok", "more": ["writerfail"]},
}
# `main@N` scenarios: the main scenario with payload size N (see vt/harness/c20_producers.py)
RENAMES = ("rename", "renameat", "renameat2")
DEFAULT_CHUNK = 16384        # transport.stream_download_to_temp(chunk_size=...) when the snapshot does not tell
WRITER_STEP = 7000           # the dummy render writer of the harness writes in steps of 7000 bytes
CORPUS = os.path.join(core.VERIF, "corpus", "C20")
STALE = {"status.json": "status.json.tmp", "img.png": "img.png\xb7"}
FAULTABLE = ("openat", "write", "pwrite64", "close", "rename", "renameat", "renameat2", "unlink", "unlinkat", "mkdir",
             "ftruncate", "fsync", "sendfile", "copy_file_range", "lseek")     # lseek stays last: [:-1] = quick tier
ERRORS = ("ENOSPC", "EIO")


# --------------------------------------------------------------------------- inputs / old versions

def old_version(name):
    if name == "status.json":
        return b'{"status": "old run", "progress": 7}'
    if name == "coll.zip":
        buf = io.BytesIO()
        with zipfile.ZipFile(buf, "w") as z:
            z.writestr(zipfile.ZipInfo("old.txt", (2020, 1, 1, 0, 0, 0)), b"previous collection")
        return buf.getvalue()
    if name == "img.png":
        return b"\x89PNG old image " * 200
    if name == "out.pdf":
        return b"%PDF-1.4\nold document\n%%EOF\n"
    raise KeyError(name)


ENV_FLAGS = ("rel", "dot", "xdev", "tmp")      # same grammar as vt/harness/c20_producers.py (not imported: that module
                                               # silences logging/warnings of the process that imports it)


def base_scenario(scenario):
    """'create@9%rel+xdev' -> 'create@9': the payload; what follows '%' is the environment of the run"""
    return scenario.split("%", 1)[0]


def scenario_flags(scenario):
    if "%" not in scenario:
        return frozenset()
    fl = frozenset(scenario.split("%", 1)[1].split("+"))
    if not fl <= set(ENV_FLAGS) or {"rel", "dot"} <= fl or {"xdev", "tmp"} <= fl:
        raise ValueError("bad environment flags in scenario %r" % scenario)
    return fl


def scenario_size(scenario):
    scenario = base_scenario(scenario)
    return int(scenario.split("@", 1)[1]) if "@" in scenario else None


def other_fs_root(base):
    """a fresh directory on a file system OTHER than the one holding `base` (for $TMPDIR of the %xdev environments),
    or None: then EXDEV is emulated by the LD_PRELOAD shim between two directories of one file system"""
    if os.environ.get("VERIF_C20_NO_XDEV_FS"):
        return None
    dev = os.stat(base).st_dev
    cands = [os.environ.get("VERIF_C20_XDEV_DIR"), "/dev/shm", "/run/shm", "/tmp", "/run/user/%d" % os.getuid(), "/run"]
    for c in cands:
        try:
            if not c or not os.path.isdir(c) or os.stat(c).st_dev == dev or not os.access(c, os.W_OK | os.X_OK):
                continue
            for e in os.listdir(c):              # left behind by a check that was killed (tmpfs = memory)
                if e.startswith("verif-c20-") and e[10:].isdigit() and not os.path.exists("/proc/" + e[10:]):
                    shutil.rmtree(os.path.join(c, e), ignore_errors=True)
            d = os.path.join(os.path.realpath(c), "verif-c20-%d" % os.getpid())
            shutil.rmtree(d, ignore_errors=True)
            os.makedirs(d)
            if os.stat(d).st_dev != dev:
                return d
            shutil.rmtree(d, ignore_errors=True)
        except OSError:
            continue
    return None


def env_setup(job, D, cdir):
    """-> (T, extra process environment) for the environment flags of the job's scenario"""
    flags = scenario_flags(job["scenario"])
    extra = {}
    T = None
    if flags & {"xdev", "tmp"}:
        if "xdev" in flags and job.get("xroot"):
            T = os.path.join(job["xroot"], "cases", "%05d" % job["n"], "t")
        else:
            T = os.path.join(cdir, "t")
            if "xdev" in flags:
                extra["LD_PRELOAD"] = job["shim"]
                extra["C20_XDEV"] = "%s:%s" % (os.path.realpath(D), os.path.realpath(cdir) + "/t")
        os.makedirs(T)
        extra["TMPDIR"] = T
    return T, extra


def size_plan(rng, tier, B, chunk, io_default):
    """payload sizes per producer.  B = buffer io.open() uses in the scratch file system (st_blksize), chunk = download
    chunk.  Classes: below one buffer (everything is still in user space when the file object is closed); B-1 / B+1;
    k*chunk + r with 0 < r < B (tail buffered) and with B < r (tail written through); random non-multiples.  The
    thorough tier adds the exact multiples (no tail) and more random sizes."""
    def r():
        return rng.randrange(1, B)                      # 0 < r < B: never a multiple of B or of the chunk

    def nonmult(hi):
        while True:
            n = rng.randrange(1, hi)
            if n % B and n % chunk:
                return n
    thorough = tier == "thorough"
    plan = {
        "download": [1, B - 1, B + 1, chunk + r(), 2 * chunk + r(), chunk + B + r()],
        "status": [B + r(), 2 * io_default + r()],
        "zip": [r(), 2 * B + r()],
        "makezip": [r()],
        "render": [16 + r(), WRITER_STEP + r()],
    }
    if thorough:
        plan["download"] += [0, B, 2 * B, chunk - 1, chunk, chunk + 1, 2 * chunk, io_default - 1, io_default + 1,
                             3 * chunk + r()] + [nonmult(4 * chunk) for _ in range(4)]
        plan["status"] += [1, B - 150, 3 * chunk + r()]
        plan["zip"] += [1, B, chunk + r(), 4 * chunk + r()]
        plan["makezip"] += [2 * B + r(), chunk + r()]
        plan["render"] += [17, B, WRITER_STEP, 2 * WRITER_STEP + B + r(), 3 * WRITER_STEP + r()]
    return {p: sorted(set(v)) for p, v in plan.items()}


def load_corpus():
    """corpus/C20/*.json: minimised past failures {producer, scenario, old}: always enumerated with stride 1 (an entry
    may lower that with "kill": n / "faults": {..} when a generated family already covers its class)"""
    res = []
    if os.path.isdir(CORPUS):
        for fn in sorted(os.listdir(CORPUS)):
            if fn.endswith(".json"):
                with open(os.path.join(CORPUS, fn)) as f:
                    o = json.load(f)
                if o.get("producer") in PRODUCERS and isinstance(o.get("scenario"), str):
                    c = {"producer": o["producer"], "scenario": o["scenario"], "old": bool(o.get("old", True)), "file": fn}
                    scenario_flags(c["scenario"])
                    if isinstance(o.get("kill"), int) and o["kill"] >= 1:
                        c["kill"] = o["kill"]
                    if isinstance(o.get("faults"), dict) and all(k in ERRORS and isinstance(v, int) and v >= 1
                                                                 for k, v in o["faults"].items()):
                        c["faults"] = o["faults"]
                    res.append(c)
    return res


def make_inputs(rng, base, zip_sizes=()):
    IN = os.path.join(base, "in")
    os.makedirs(os.path.join(IN, "nuwiki", "images"))
    files = {
        "nuwiki/siteinfo.json": json.dumps({"general": {"lang": "en", "sitename": "T"}}).encode(),
        "nuwiki/metabook.json": json.dumps({"type": "collection", "items": []}).encode(),
        "nuwiki/nfo.json": json.dumps({"format": "nuwiki", "base_url": "http://stub.invalid/w/"}).encode(),
        "nuwiki/revisions-1.txt": (" --page-- {\"title\": \"A\"}\n" + "lorem ipsum dolor " * 2500).encode(),
        "nuwiki/images/a.png": bytes(rng.randrange(256) for _ in range(30000)),
        "served.bin": b"\x89PNG\r\n" + bytes(rng.randrange(256) for _ in range(40000)),
        "rendered.bin": b"%PDF-1.4\n" + bytes(rng.randrange(256) for _ in range(30000)) + b"\n%%EOF\n",
    }
    token = rng.getrandbits(48)
    import random
    for n in sorted(set(zip_sizes)):                 # nuwiki@N: the same collection with members of N bytes
        os.makedirs(os.path.join(IN, "nuwiki@%d" % n, "images"))
        rv = random.Random(token * 1000003 + n)
        for rel, data in list(files.items()):
            if not rel.startswith("nuwiki/"):
                continue
            if rel.endswith("revisions-1.txt"):
                data = (data * (n // len(data) + 1))[:max(n, 40)]
            elif rel.endswith(".png"):
                data = bytes(rv.randrange(256) for _ in range(n))
            files["nuwiki@%d/%s" % (n, rel[len("nuwiki/"):])] = data
    for rel, data in files.items():
        p = os.path.join(IN, rel)
        with open(p, "wb") as f:
            f.write(data)
        os.utime(p, (1600000000, 1600000000))      # zip members carry the source mtime
    return IN, files


def new_case(base, n, producer, old):
    D = os.path.join(base, "cases", "%05d" % n, "d")
    os.makedirs(D)
    if old:
        for fn in PRODUCERS[producer]["finals"]:
            with open(os.path.join(D, fn), "wb") as f:
                f.write(old_version(fn))
            if fn in STALE:                          # left over by an earlier crashed run
                with open(os.path.join(D, STALE[fn]), "wb") as f:
                    f.write(b"\x00stale partial temp")
    return D


def list_files(D):
    res = {}
    for d, _dirs, files in os.walk(D):
        for fn in files:
            p = os.path.join(d, fn)
            with open(p, "rb") as f:
                res[p] = f.read()
    return res


# --------------------------------------------------------------------------- the reader (property's oracle)

def zip_members(data):
    try:
        z = zipfile.ZipFile(io.BytesIO(data))
        return sorted((zi.filename, zi.date_time, z.read(zi)) for zi in z.infolist())
    except Exception as e:
        return "unreadable: %s" % e


def reader_check(name, data, old, versions, fault=False):
    """None if what a reader finds at the published path is acceptable, else the reason."""
    if data is None:
        return None                                   # absent
    try:
        if name.endswith(".json"):
            json.loads(data.decode("utf8"))
        elif name.endswith(".zip"):
            z = zipfile.ZipFile(io.BytesIO(data))
            bad = z.testzip()
            if bad is not None:
                return "zip member %r corrupt" % bad
            z.namelist()
        elif name.endswith(".pdf"):
            if not (data.startswith(b"%PDF") and data.endswith(b"%%EOF\n")):
                return "document lacks header or trailer (%d bytes)" % len(data)
    except Exception as e:
        return "does not parse: %s: %s (%d bytes)" % (type(e).__name__, e, len(data))
    if old is not None and data == old:
        return None
    if data in versions:
        return None
    if name.endswith(".zip"):
        # zipfile falls back to its streaming layout (data descriptors) when seek/tell fail: other bytes, same archive
        sem = zip_members(data)
        if any(sem == zip_members(v) for v in list(versions) + ([old] if old is not None else [])):
            return None
    if name.endswith(".json") and fault:
        try:        # error report of render.write_traceback / Status(status="error"): a complete JSON object
            obj = json.loads(data.decode("utf8"))
            if isinstance(obj, dict) and obj.get("status") == "error":
                return None
        except Exception:
            pass
    return "parses, but is neither the old nor a complete new version (%d bytes)" % len(data)


# --------------------------------------------------------------------------- one run

def harness_cmd(producer, scenario, D, IN):
    return [core.PY, "-m", "vt.harness.c20_producers", producer, scenario, D, IN]


def record_versions(src, base, n, producer, scenario, IN):
    scenario = base_scenario(scenario)        # the complete versions depend on the payload, not on the environment
    D = new_case(base, n, producer, False)
    rec = os.path.join(os.path.dirname(D), "rec")
    os.makedirs(rec)
    rc, out = core.sh(harness_cmd(producer, scenario, D, IN), cwd=core.VERIF,
                      env=core.impl_env(src, {"C20_RECORD": rec}), timeout=120)
    if rc not in (0, 3):
        raise RuntimeError("record run of %s/%s failed rc=%s: %s" % (producer, scenario, rc, out[-600:]))
    vers = {fn: [] for fn in PRODUCERS[producer]["finals"]}
    for f in sorted(os.listdir(rec)):
        fn = f.rsplit(".", 1)[0]
        data = open(os.path.join(rec, f), "rb").read()
        if data not in vers[fn]:
            vers[fn].append(data)
    shutil.rmtree(os.path.dirname(D), ignore_errors=True)
    return vers


def one_run(job):
    """job: dict(src, exe, base, n, producer, scenario, old, IN, inject=[strace inject exprs], versions, keep)"""
    producer, scenario = job["producer"], job["scenario"]
    D = new_case(job["base"], job["n"], producer, job["old"])
    cdir = os.path.dirname(D)
    finals = [os.path.join(D, fn) for fn in PRODUCERS[producer]["finals"]]
    T, extra = env_setup(job, D, cdir)
    if base_scenario(scenario) == "nodir" and producer == "status":
        finals = [os.path.join(D, "missing-dir", "status.json")]
    initial = list_files(D)
    log = os.path.join(cdir, "strace.log")
    cmd = ["strace", "-f", "-y", "-xx", "-s", "1048576", "-o", log, "-e", "trace=" + st.TRACE_SET]
    for inj in job.get("inject", []):
        cmd += ["-e", "inject=" + inj]
    cmd += harness_cmd(producer, scenario, D, job["IN"])
    if job.get("fsize") is not None:
        extra["C20_FSIZE"] = str(int(job["fsize"]))
    if job.get("close_fail"):
        n, errno_ = job["close_fail"]
        extra.update({"LD_PRELOAD": job["shim"], "C20_CLOSE_FAIL": "%d:%d:%s" % (n, errno_, D)})
    p = subprocess.run(cmd, cwd=core.VERIF, env=core.impl_env(job["src"], extra), stdout=subprocess.PIPE,
                       stderr=subprocess.STDOUT, timeout=180)
    res = {"job": {k: job[k] for k in ("producer", "scenario", "old", "inject", "desc", "kind", "close_fail", "pos", "fsize") if k in job},
           "rc": p.returncode, "out": p.stdout.decode("utf8", "replace")[-400:]}
    res["shim_fired"] = b"C20SHIM close failed" in p.stdout
    text = open(log, encoding="utf8", errors="surrogateescape").read()
    ab = st.Abstraction(D, finals, roots=[T] if T else [])
    ab._nf = len(finals)
    for q in sorted(initial):
        ab.pid_(q)
    res["parse_error"] = None
    try:
        events, killed, pids = st.parse_log(text, needles=(D, st.hex_needle(D)) + ((T, st.hex_needle(T)) if T else ()))
        ab.feed(events, pids[0])
    except Exception as e:      # fail closed: an unparsable log is a trace outside the language
        res["parse_error"] = "%s: ...%s" % (type(e).__name__, str(e)[-300:])
        events, killed = [], None
        ab.relevant = []
        ab.ops = ["X"]
        ab.unsupported = [res["parse_error"]]
    res["killed"] = bool(killed)
    # writes to tracked files that the kernel cut short (fewer bytes stored than asked for) or refused with EFBIG
    res["short_writes"], res["efbig"] = 0, 0
    for i, nm, _k in ab.relevant:
        ev = events[i]
        if nm in ("write", "pwrite64"):
            try:
                asked = int(ev["args"][2])
            except (IndexError, ValueError, TypeError):
                continue
            if ev["err"] == "EFBIG":
                res["efbig"] += 1
            elif ev["ret"] is not None and 0 <= ev["ret"] < asked:
                res["short_writes"] += 1
    res["relevant"] = [(i, nm, k, events[i]["unfinished"], events[i]["injected"]) for i, nm, k in ab.relevant]
    res["unsupported"] = ab.unsupported[:5]
    res["n_ops"] = len(ab.ops)
    res["op_kinds"] = {}
    for o in ab.ops:
        res["op_kinds"][o[0]] = res["op_kinds"].get(o[0], 0) + 1
    # --- model: recogniser verdict per published path + predicted contents of every tracked path
    after = list_files(D)
    if T:
        after.update(list_files(T))
    ids = dict(ab.ids)
    for q in after:
        if q not in ids:
            ids[q] = len(ids)             # a file nobody told us about: the model will say "absent" -> disagreement
    order = sorted(ids, key=lambda q: ids[q])
    blocks = []
    for fi in range(len(finals)):
        lines = ["CASE %d %s" % (fi, " ".join(str(ids[q]) for q in order))]
        for q in sorted(initial):
            lines.append("F %d %s" % (ids[q], initial[q].hex() or "e"))
        lines += ab.ops
        lines.append("END")
        blocks.append("\n".join(lines) + "\n")
    mp = subprocess.run([job["exe"]], input="".join(blocks), capture_output=True, text=True, timeout=300)
    outs = mp.stdout.splitlines()
    res["accept"], res["model_diff"] = {}, []
    if mp.returncode != 0 or len(outs) != len(finals):
        res["model_diff"].append("driver failed: rc=%s %s" % (mp.returncode, mp.stderr[-300:]))
    else:
        for fi, ln in enumerate(outs):
            w = ln.split()
            res["accept"][os.path.basename(finals[fi])] = (w[0] == "1")
            if fi == 0:
                for q, v in zip(order, w[1:]):
                    real = after.get(q)
                    model = None if v == "-" else (b"" if v == "e" else bytes.fromhex(v))
                    if real != model:
                        res["model_diff"].append("%s: disk %s, model %s" % (
                            os.path.relpath(q, D), "absent" if real is None else "%d bytes" % len(real),
                            "absent" if model is None else "%d bytes" % len(model)))
    # --- reader
    res["reader"], res["state"] = {}, {}
    for fpath in finals:
        fn = os.path.basename(fpath)
        data = after.get(fpath)
        old = old_version(fn) if job["old"] and base_scenario(scenario) != "nodir" else None
        why = reader_check(fn, data, old, job["versions"].get(fn, []),
                           fault=bool(job.get("close_fail")) or any("error=" in x for x in job.get("inject", [])) or
                           job.get("fsize") is not None)
        res["reader"][fn] = why
        res["state"][fn] = ("absent" if data is None else "old" if data == old else
                            "new%d" % job["versions"][fn].index(data) if data in job["versions"].get(fn, []) else "OTHER")
    res["xdev"] = ("real" if job.get("xroot") else "emulated") if "xdev" in scenario_flags(scenario) else None
    if not job.get("keep"):
        shutil.rmtree(cdir, ignore_errors=True)
        if T and not T.startswith(cdir + "/"):
            shutil.rmtree(os.path.dirname(T), ignore_errors=True)
    return res


def rel_desc(relevant, j):
    """stable description of the j-th tracked syscall: name + its rank among the tracked syscalls of that name"""
    name = relevant[j][1]
    rank = sum(1 for x in relevant[:j + 1] if x[1] == name)
    total = sum(1 for x in relevant if x[1] == name)
    return "%s#%d/%d" % (name, rank, total)


# --------------------------------------------------------------------------- the check

ERRNO = {"ENOSPC": 28, "EIO": 5}


def build_shim():
    """LD_PRELOAD library that fails a close() the way Linux does (descriptor released); see c20_closefail.c"""
    srcf = os.path.join(core.VERIF, "vt", "harness", "c20_closefail.c")
    os.makedirs(core.CACHE, exist_ok=True)
    so = os.path.join(core.CACHE, "c20_closefail-%s.so" % core.file_sha(srcf)[:12])
    with core.flock("c20-shim"):
        if not os.path.exists(so):
            rc, out = core.sh(["gcc", "-shared", "-fPIC", "-O1", "-o", so + ".tmp", srcf, "-ldl"], timeout=120)
            if rc != 0:
                raise RuntimeError("shim build failed: " + out[-800:])
            os.replace(so + ".tmp", so)
    return so


def generate(src):
    """coq/C20/Gen_Sites.v: the mkstemp sites of the snapshot (dir argument, publishing call); fail closed"""
    from vt.gen import c20_sites
    return c20_sites.generate(src)


def build():
    build_shim()
    return core.ocaml_build("c20", "C20/Extract.v", "driver.ml")


SIZED_QUICK = {      # (kill stride, fault strides) with / without a previous version; None = not run in the quick tier
    "download": ((1, {"ENOSPC": 1}), (3, {})),
    "status": ((3, {"ENOSPC": 4}), None),
    "zip": ((3, {}), None),
    "makezip": ((4, {}), None),
    "render": ((2, {}), None),
}


# Environment variants of the main scenario of every producer (all of them accept an output path).
#   rel+xdev  bare output name, $TMPDIR on another file system: a temp file made with dir=(dirname(output) or None) lands
#             in $TMPDIR
#   xdev      absolute output path, $TMPDIR on another file system: a temp file made without dir= lands in $TMPDIR
#   dot+xdev  `./name` (dirname is "." - not empty), $TMPDIR on another file system
#   rel+tmp   bare output name, $TMPDIR a separate directory of the SAME file system (a move is a plain rename)
# quick: kill stride per producer with a previous version (0 = only the forced positions around every rename); a
# rejected fault-free trace switches the group to stride 1 + ENOSPC everywhere (see check)
ENV_QUICK = {
    "rel+xdev": {"status": 4, "zip": 6, "makezip": 10, "download": 1, "render": 6},
    "xdev": {"status": 0, "zip": 0, "makezip": 0, "download": 0, "render": 0},
}
ENV_THOROUGH = ("rel+xdev", "xdev", "dot+xdev", "rel+tmp")


def env_groups(tier):
    groups = []
    for prod, spec in PRODUCERS.items():
        for env in (ENV_THOROUGH if tier == "thorough" else ENV_QUICK):
            sc = "%s%%%s" % (spec["main"], env)
            if tier == "thorough":
                # no fault+kill combinations here (quadratic; the unflagged scenarios have them)
                groups.append({"producer": prod, "scenario": sc, "old": True, "main": False, "env": env, "kill": 1,
                               "faults": {"ENOSPC": 1}, "faultable": FAULTABLE, "no_combo": True})
                if env == "rel+xdev":       # without a previous version: the adversarial corner only
                    groups.append({"producer": prod, "scenario": sc, "old": False, "main": False, "env": env, "kill": 2,
                                   "faults": {}, "faultable": (), "no_combo": True})
            else:
                groups.append({"producer": prod, "scenario": sc, "old": True, "main": False, "env": env,
                               "kill": ENV_QUICK[env][prod], "faults": {}, "faultable": (), "no_combo": True})
    return groups


def plan_groups(tier, sizes=None, corpus=()):
    """per (producer, scenario, previous version?): stride of the kill enumeration and of the fault enumeration per
    error kind (0 = none).  thorough: every tracked syscall, both error kinds, everywhere.  Whatever the stride, the
    positions right before and right after every rename are always taken (see check)."""
    groups = []
    seen = set()
    for c in corpus:
        g = {"producer": c["producer"], "scenario": c["scenario"], "old": c["old"], "main": False, "corpus": c["file"],
             "kill": 1, "faults": {"ENOSPC": 1, "EIO": 1} if tier == "thorough" else {"ENOSPC": 1},
             "faultable": FAULTABLE if tier == "thorough" else FAULTABLE[:-1]}
        if tier != "thorough":
            g["kill"] = c.get("kill", 1)
            g["faults"] = dict(c.get("faults", g["faults"]))
        if scenario_flags(c["scenario"]):
            g["no_combo"] = True
        if (g["producer"], g["scenario"], g["old"]) not in seen:
            seen.add((g["producer"], g["scenario"], g["old"]))
            groups.append(g)
    for prod, ns in (sizes or {}).items():
        for n in ns:
            sc = "%s@%d" % (PRODUCERS[prod]["main"], n)
            for old in (True, False):
                if (prod, sc, old) in seen:
                    continue
                g = {"producer": prod, "scenario": sc, "old": old, "main": False, "size": n}
                if tier == "thorough":
                    g.update(kill=1, faults={"ENOSPC": 1, "EIO": 1}, faultable=FAULTABLE)
                else:
                    q = SIZED_QUICK[prod][0 if old else 1]
                    if q is None:
                        continue
                    g.update(kill=q[0], faults=dict(q[1]), faultable=FAULTABLE[:-1] if q[1] else ())
                seen.add((prod, sc, old))
                groups.append(g)
    for prod, spec in PRODUCERS.items():
        for sc in [spec["main"]] + spec["more"]:
            main = sc == spec["main"]
            for old in (True, False):
                g = {"producer": prod, "scenario": sc, "old": old, "main": main}
                if tier == "thorough":
                    g.update(kill=1, faults={"ENOSPC": 1, "EIO": 1}, faultable=FAULTABLE)
                elif main and old:
                    g.update(kill=1, faults={"ENOSPC": 1, "EIO": 2}, faultable=FAULTABLE[:-1])
                elif main:
                    g.update(kill=3, faults={}, faultable=())
                elif old:
                    g.update(kill=4, faults={"ENOSPC": 4}, faultable=FAULTABLE[:-1])
                else:
                    continue
                groups.append(g)
    for g in env_groups(tier):
        if (g["producer"], g["scenario"], g["old"]) not in seen:
            seen.add((g["producer"], g["scenario"], g["old"]))
            groups.append(g)
    return groups


def check(run):
    tier = run.tier
    run.rule = ("cases = (producer, scenario, previous version present?, injection); producers: Status.dump x4 incl. a sub-range "
                "(status.py), ZipCreator.create_zip and make_zip (buildzip.py; make_nuwiki stubbed by a directory copy), "
                "fetch.download_to_file -> transport.download_with_retries over httpx.MockTransport (ok / 429 then ok / "
                "connection reset mid-stream / 500), render.main around tmpout->output with a dummy writer (ok / writer "
                "raises).  Injections: none; SIGKILL at EVERY tracked syscall (strace inject=<syscall>:signal=KILL:when=k); "
                "ENOSPC and EIO at every tracked openat/write/close/rename/unlink/mkdir (thorough: also lseek; ENOSPC also "
                "persistent from that position on; and SIGKILL at every later tracked syscall of another name after a "
                "fault).  SHORT WRITES: every main / sized / corpus scenario with a previous version (thorough: every scenario, with "
                "and without) once more under a FILE-SIZE LIMIT (RLIMIT_FSIZE set in the producer process right before the producer "
                "is called, SIGXFSZ ignored): write(2) then stores only what fits below the limit and returns the short count, the "
                "next write fails with EFBIG - the behaviour of an almost full disk / exhausted quota; budgets per published file "
                "from the sizes of its complete versions: 0, 1, half, size-1 of the smallest and the largest (thorough: of every "
                "version, plus size, size+1, io buffer +-1, random).  Payload sizes: each main scenario also as `name@N` with N not a multiple of the io buffer / download "
                "chunk (below one buffer, buffer+-1, k*chunk+r with r<buffer and r>buffer, random; thorough: also the exact "
                "multiples); the kill/fault positions right before and after every rename are taken whatever the stride.  "
                "Environments: the main scenario of EVERY producer also as `name%flags`: output path given as a bare file "
                "name with cwd = output directory (rel) / absolute / `./name` (dot), with $TMPDIR on another file system "
                "(xdev: rename into the output directory fails with EXDEV) or in a separate directory of the same file "
                "system (tmp); $TMPDIR is tracked like the work directory.  "
                "distinct = distinct (producer, scenario, old?, injection); non-trivial = an injection is present")
    run.trusted = [
        "Coq 8.16.1 kernel (coqc); vm_compute in the closed Examples only",
        "extraction (ExtrOcamlBasic directives only) + ocaml/c20/driver.ml (hex/decimal line protocol)",
        "strace 6.1: log is complete for the traced syscall set, -y path annotation, inject=…:error= skips the syscall, "
        "inject=…:signal=KILL kills before the syscall executes",
        "vt/harness/c20_strace.py: parser and abstraction to FsTrace ops on paths below the work directory "
        "(fail closed: anything else touching a tracked path/descriptor becomes Unsupported)",
        "vt/gen/c20_sites.py: AST reader of the three mkstemp sites (buildzip.create_zip, make_zip, render.main): dir "
        "argument and publishing call -> Gen_Sites.v; ModelMove.v: CPython's shutil.move = rename, on EXDEV copy onto "
        "the destination + unlink; mkstemp(dir='') = current directory, dir=None = $TMPDIR; sendfile modelled as writes",
        "hand-written FsTrace model of openat/write/pwrite/lseek/ftruncate/close/rename/unlink (coq/C20/FsTrace.v); "
        "tie = predicted bytes of every tracked path vs the disk after each (killed) run",
        "Linux: rename(2) replaces the target atomically; a SIGKILLed process loses exactly its user-space buffers; under "
        "RLIMIT_FSIZE with SIGXFSZ ignored a write crossing the limit is cut short and a write at the limit fails with EFBIG "
        "(observed in every such run: tie `file-size limit ...`)",
        "Model.bw_ops: write policy of CPython's BufferedWriter (fits -> keep; else flush, >= capacity -> write through); "
        "only the C20_buffered_*/C20_early_rename_* theorems depend on it, for every capacity and chunking",
        "vt/harness/c20_closefail.c (LD_PRELOAD): close() failing the Linux way; EXDEV between two directories only "
        "when the machine has no second writable file system (otherwise the kernel's own EXDEV is observed)",
        "harness stubs: make_nuwiki (directory copy), httpx.MockTransport, render.get_writer_from_options/"
        "get_environment/init_tmp_cleaner, dummy writer",
    ]
    run.assumptions = [
        "single producer process per published path (no concurrent second writer of the same temp name)",
        "kill = SIGKILL at a syscall boundary; power loss / fsync durability is not claimed (the code never fsyncs)",
        "syscalls outside the traced set (io_uring, process_vm_writev, ...) are not used on tracked files",
        "temp file and published path are on one file system: no longer assumed - every producer is run with $TMPDIR "
        "on another file system and bare / absolute / ./ output names (%xdev environments); what is assumed is that "
        "the output directory itself lies on one file system",
    ]
    src = core.snapshot()
    run.check_proofs("C20", gen=lambda: generate(src))     # a failing translator / proof does not stop the search below
    exe = build()
    shim = build_shim()
    base = os.path.join(core.scratch(), "c20")
    shutil.rmtree(base, ignore_errors=True)
    os.makedirs(base)
    xroot = other_fs_root(base)
    if xroot:
        import atexit
        atexit.register(shutil.rmtree, xroot, True)
    # the %xdev environment must really answer EXDEV to a rename from $TMPDIR into the work directory
    pj = {"scenario": "probe%xdev", "xroot": xroot, "shim": shim, "n": 0}
    pD = os.path.join(base, "cases", "00000", "d")
    os.makedirs(pD)
    pT, pextra = env_setup(pj, pD, os.path.dirname(pD))
    prc, pout = core.sh([core.PY, "-c", "import os,sys,errno\nopen(sys.argv[1]+'/x','w').close()\n"
                         "try:\n os.rename(sys.argv[1]+'/x', sys.argv[2]+'/y'); print('RENAMED')\n"
                         "except OSError as e: print('EXDEV' if e.errno==errno.EXDEV else 'OTHER %s' % e)\n", pT, pD],
                        env=dict(os.environ, **pextra), timeout=60)
    run.obligation("%xdev environment: rename from $TMPDIR into the work directory fails with EXDEV",
                   prc == 0 and "EXDEV" in pout and os.path.exists(os.path.join(pT, "x")),
                   "%s; TMPDIR root %s (st_dev %s) vs work directory st_dev %s: %s" % (
                       "second file system" if xroot else "no second writable file system: EXDEV emulated by the shim",
                       xroot or os.path.dirname(pD), os.stat(pT).st_dev, os.stat(pD).st_dev, pout.strip()[-100:]))
    shutil.rmtree(os.path.dirname(pD), ignore_errors=True)
    if xroot:
        shutil.rmtree(os.path.join(xroot, "cases"), ignore_errors=True)
    # sizes that decide whether user-space buffered bytes exist at a rename: asked from the snapshot / the scratch fs
    rc, out = core.sh(harness_cmd("params", "-", "-", "-"), cwd=core.VERIF, env=core.impl_env(src), timeout=120)
    try:
        prm = json.loads(out.strip().splitlines()[-1]) if rc == 0 else {}
    except ValueError:
        prm = {}
    chunk = prm.get("chunk") or DEFAULT_CHUNK
    io_default = prm.get("io_default") or 8192
    B = os.stat(base).st_blksize
    if not (1 < B <= 1 << 20):
        B = io_default
    zip_probe = [scenario_size(c["scenario"]) for c in load_corpus()
                 if c["producer"] in ("zip", "makezip") and scenario_size(c["scenario"]) is not None]
    # make_inputs stays the first consumer of run.rng (the replay regenerates the same inputs from the seed); the
    # sizes are drawn from an independent stream of the same seed
    import random
    fork = random.Random("c20-sizes-%d" % run.seed)
    sizes = size_plan(fork, tier, B, chunk, io_default)
    IN, _files = make_inputs(run.rng, base, zip_sizes=sizes["zip"] + sizes["makezip"] + zip_probe)
    counter = [0]

    def nxt():
        counter[0] += 1
        return counter[0]

    corpus = load_corpus()
    groups = plan_groups(tier, sizes, corpus)
    run.obligation("payload sizes cover the buffered-tail classes for every producer",
                   all(any(n % B and n % chunk for n in sizes[p]) for p in PRODUCERS) and
                   any(n < B for n in sizes["download"]) and
                   any(n > chunk and 0 < n % chunk < B for n in sizes["download"]) and
                   any(n > chunk and n % chunk > B for n in sizes["download"]),
                   "io buffer %d, download chunk %s (%s), sizes %s" % (
                       B, chunk, "from the snapshot" if prm.get("chunk") else "default: " + str(prm.get("chunk_error")),
                       sizes))
    pool = cf.ProcessPoolExecutor(max_workers=min(16, core.NPROC))
    # --- phase A: complete versions (record run, no strace) per (producer, scenario)
    vers = {}
    futs = {}
    for g in groups:
        key = (g["producer"], base_scenario(g["scenario"]))
        if key not in futs:
            futs[key] = pool.submit(record_versions, src, base, nxt(), g["producer"], key[1], IN)
    rec_failed = []
    for key, f in futs.items():
        try:
            vers[key] = f.result()
        except Exception as e:       # fail closed for the verdict, but keep searching: the reader still knows the old version
            vers[key] = {fn: [] for fn in PRODUCERS[key[0]]["finals"]}
            rec_failed.append("%s/%s: %s" % (key[0], key[1], str(e)[-300:]))
    run.obligation("every record run (producer without injection, no strace) terminates normally", not rec_failed,
                   "; ".join(rec_failed)[:1500])
    run.obligation("record runs produce the expected published files",
                   all(vers[(p, PRODUCERS[p]["main"])][fn] for p in PRODUCERS for fn in PRODUCERS[p]["finals"]),
                   "; ".join("%s/%s: %s" % (p, s, {k: len(v) for k, v in d.items()}) for (p, s), d in vers.items()))

    def job(g, inject, kind, desc, close_fail=None, pos=-1, fsize=None):
        return {"fsize": fsize, "src": src, "exe": exe, "shim": shim, "base": base, "n": nxt(), "producer": g["producer"],
                "scenario": g["scenario"], "old": g["old"], "IN": IN, "inject": inject, "close_fail": close_fail,
                "versions": vers[(g["producer"], base_scenario(g["scenario"]))], "kind": kind, "desc": desc,
                "xroot": xroot, "pos": pos}

    # --- phase B: fault-free traced runs
    results = []
    base_runs = []
    futs = [(g, pool.submit(one_run, job(g, [], "none", "fault-free"))) for g in groups]
    for g, f in futs:
        r = f.result()
        results.append(r)
        base_runs.append((g, r))
    # --- phase C: kill / fault at every tracked syscall
    futs = []
    planned = {"kill": 0, "fault": 0, "fault+kill": 0}
    fault_jobs = []
    forced_n = 0
    upgraded = []
    for g, r in base_runs:
        rel = r["relevant"]
        nth = {}
        if not r["accept"] or not all(r["accept"].values()) or r["model_diff"] or any(r["reader"].values()):
            # the fault-free trace is already outside the proved language (or the model mispredicts it): the verdict
            # is lost anyway (tie below); search this group exhaustively for a concrete partial file
            g["kill"] = 1
            g["faults"] = dict(g["faults"], ENOSPC=1)
            g["faultable"] = g["faultable"] or FAULTABLE[:-1]
            upgraded.append("%s/%s/%s" % (g["producer"], g["scenario"], "old" if g["old"] else "fresh"))
        # right before and right after every rename (kill@j = the j-th tracked syscall is NOT executed, all earlier
        # ones are): never skipped by a stride
        forced = set()
        for j in range(len(rel)):
            if rel[j][1] in RENAMES:
                forced.add(j)
                if j + 1 < len(rel):
                    forced.add(j + 1)
        for j in range(len(rel)):
            _i, name, k, _u, _inj = rel[j]
            d = rel_desc(rel, j)
            strided = g["kill"] > 0 and j % g["kill"] == 0
            if strided or j in forced:
                forced_n += not strided
                futs.append((g, j, pool.submit(one_run, job(g, ["%s:signal=KILL:when=%d" % (name, k)], "kill", "kill@" + d,
                                                            pos=j))))
                planned["kill"] += 1
            if name in g["faultable"]:
                for err, stride in g["faults"].items():
                    nth[err] = nth.get(err, -1) + 1
                    if nth[err] % stride and j not in forced:
                        continue
                    whens = ["%d" % k] + (["%d+" % k] if tier == "thorough" and err == "ENOSPC" else [])
                    for when in whens:
                        dsc = "%s%s@%s" % (err, "+" if when.endswith("+") else "", d)
                        if name == "close":
                            # Linux releases the descriptor even when close fails; strace would skip the syscall
                            rank = sum(1 for x in rel[:j + 1] if x[1] == "close")
                            jb = job(g, [], "fault", dsc, close_fail=(-rank if when.endswith("+") else rank, ERRNO[err]),
                                     pos=j)
                        else:
                            jb = job(g, ["%s:error=%s:when=%s" % (name, err, when)], "fault", dsc, pos=j)
                        fut = pool.submit(one_run, jb)
                        futs.append((g, j, fut))
                        fault_jobs.append((g, j, name, jb, fut))
                        planned["fault"] += 1
    # --- phase C': SHORT WRITES.  Every selected group once more under a file-size limit (RLIMIT_FSIZE in the producer
    # process from the moment the producer is called, SIGXFSZ ignored): the kernel stores what still fits and returns
    # the short count, the next write fails with EFBIG.  Budget classes per published file, taken from the sizes of
    # its complete versions: 0, 1, half, size-1 (thorough: every version size s: s/2, s-1, s, s+1; the io buffer
    # +-1; random budgets).
    fsize_futs = []
    fsize_budgets = {}
    for g, r in base_runs:
        if scenario_flags(g["scenario"]) and not (tier == "thorough" and g.get("env") == "rel+xdev" and g["old"]):
            continue          # environments: only the adversarial one (bare name, $TMPDIR elsewhere), thorough tier
        if tier != "thorough" and not (g["old"] and (g["main"] or g.get("size") is not None or g.get("corpus"))):
            continue
        vs = vers[(g["producer"], base_scenario(g["scenario"]))]
        budgets = {0, 1}
        for fn, lst in vs.items():
            szs = sorted({len(v) for v in lst})
            if not szs:
                continue
            for s_ in (szs if tier == "thorough" else {szs[0], szs[-1]}):
                budgets |= {s_ // 2, max(0, s_ - 1)}
                if tier == "thorough":
                    budgets |= {s_, s_ + 1}
            if tier == "thorough":
                budgets |= {b for b in (B - 1, B, B + 1, io_default, io_default + 1) if b < szs[-1]}
                budgets |= {fork.randrange(1, szs[-1] + 1) for _ in range(3)} if szs[-1] >= 1 else set()
        top = max([len(v) for lst in vs.values() for v in lst] or [0])
        fsize_budgets["%s/%s/%s" % (g["producer"], g["scenario"], "old" if g["old"] else "fresh")] = sorted(budgets)
        for b in sorted(budgets):
            fsize_futs.append((g, b, top, pool.submit(one_run, job(g, [], "fsize", "FSIZE=%d" % b, fsize=b, pos=b))))
    planned["fsize"] = len(fsize_futs)
    misaligned = []
    no_short = []
    for g, b, top, f in fsize_futs:
        r = f.result()
        results.append(r)
        if b < top and not (r["short_writes"] or r["efbig"]):
            no_short.append("%s/%s old=%s FSIZE=%d: no short write / EFBIG on a tracked file (largest complete version %d bytes)" % (
                g["producer"], g["scenario"], g["old"], b, top))
    for g, j, f in futs:
        r = f.result()
        results.append(r)
        rel = r["relevant"]
        if r["job"]["kind"] == "kill":
            okk = r["killed"] and len(rel) == j + 1 and rel[-1][3] and rel[-1][1] == base_runs_name(base_runs, g, j)
            if not okk:
                misaligned.append("%s/%s old=%s %s: killed=%s tracked syscalls seen %d, expected %d" % (
                    g["producer"], g["scenario"], g["old"], r["job"]["desc"], r["killed"], len(rel), j + 1))
        else:
            if not (r["shim_fired"] if r["job"].get("close_fail") else (len(rel) > j and rel[j][4])):
                misaligned.append("%s/%s old=%s %s: injected error not at the intended syscall" % (
                    g["producer"], g["scenario"], g["old"], r["job"]["desc"]))
    # --- phase D (thorough): kill at every later tracked syscall after a one-shot fault
    if tier == "thorough":
        futs = []
        for g, j, name, jb, fut in fault_jobs:
            if (jb["inject"] and jb["inject"][0].endswith("+")) or (jb["close_fail"] and jb["close_fail"][0] < 0) or not g["old"]:
                continue
            if g.get("no_combo"):
                continue
            if not jb["desc"].startswith("ENOSPC"):
                continue                # the handlers do not look at errno: one error kind for the combinations
            r = fut.result()
            rel = r["relevant"]
            for j2 in range(j + 1, len(rel)):
                _i, name2, k2, _u, _inj = rel[j2]
                if name2 == name and not jb["close_fail"]:
                    continue            # strace keeps one injection per syscall name
                jb2 = job(g, jb["inject"] + ["%s:signal=KILL:when=%d" % (name2, k2)], "fault+kill",
                          jb["desc"] + ";kill@" + rel_desc(rel, j2), close_fail=jb["close_fail"], pos=j2)
                futs.append(pool.submit(one_run, jb2))
                planned["fault+kill"] += 1
        for f in futs:
            results.append(f.result())
    pool.shutdown()

    # --- aggregate
    lang_dis, model_dis = [], []
    dist = {"by_producer": {}, "by_kind": {}, "final_state": {}, "ops": {}, "rc": {}}
    n_traces = 0
    for r in results:
        jb = r["job"]
        key = (jb["producer"], jb["scenario"], jb["old"], jb["desc"])
        run.count(key, nontrivial=jb["kind"] != "none")
        n_traces += 1
        dist["by_producer"][jb["producer"]] = dist["by_producer"].get(jb["producer"], 0) + 1
        dist["by_kind"][jb["kind"]] = dist["by_kind"].get(jb["kind"], 0) + 1
        dist["rc"][str(r["rc"])] = dist["rc"].get(str(r["rc"]), 0) + 1
        for k, v in r["op_kinds"].items():
            dist["ops"][k] = dist["ops"].get(k, 0) + v
        tag = "%s/%s old=%s %s" % (jb["producer"], jb["scenario"], jb["old"], jb["desc"])
        for fn, acc in r["accept"].items():
            if not acc:
                lang_dis.append("%s: trace not in the safe_publish language for %s%s" % (
                    tag, fn, (" (unsupported: %s)" % r["unsupported"][0]) if r["unsupported"] else ""))
        if not r["accept"]:
            lang_dis.append("%s: no verdict" % tag)
        for d in r["model_diff"]:
            model_dis.append("%s: %s" % (tag, d))
        for fn, why in r["reader"].items():
            stt = r["state"][fn]
            dist["final_state"][stt] = dist["final_state"].get(stt, 0) + 1
            if why:
                run.hit(fingerprint="partial:%s/%s/%s:%s:%s" % (jb["producer"], jb["scenario"], fn,
                                                                "old" if jb["old"] else "fresh", jb["desc"]),
                        what="after %s a reader of %s finds a file that %s" % (jb["desc"], fn, why),
                        replay={"producer": jb["producer"], "scenario": jb["scenario"], "old": jb["old"],
                                "inject": jb["inject"], "close_fail": jb.get("close_fail"), "fsize": jb.get("fsize"),
                                "desc": jb["desc"], "final": fn,
                                "kind": jb["kind"], "pos": jb.get("pos", -1), "state": r["state"].get(fn),
                                "xdev": r.get("xdev")})
        if jb["kind"] in ("none", "kill", "fault") and len(run.samples) < 6 and (jb["kind"] != "none" or len(run.samples) < 2):
            if jb["producer"] in ("zip", "status", "download") and (jb["kind"] == "none" or "write" in jb["desc"]):
                run.sample({"case": tag, "ops": r["n_ops"], "accepted": r["accept"], "final_state": r["state"], "rc": r["rc"]})
    # minimisation: the failing scenarios are ordered by simplicity - a single SIGKILL before a fault before a
    # fault followed by a kill; the default payload, then the smaller payload; the earlier position - and reported
    # in that order (vt/core.py writes replay files for the first ones): the first replay is the smallest
    # (payload, injection) pair on which the reader found a partial file
    def simplicity(h):
        rp = h["replay"]
        n = scenario_size(rp["scenario"])
        return ({"kill": 0, "fault": 1, "fsize": 1}.get(rp.get("kind"), 2), 0 if n is None else 1, n or 0, rp.get("pos", -1),
                len(scenario_flags(rp["scenario"])))
    run.hits.sort(key=simplicity)
    summ = {}
    for h in run.hits:
        k = h["fingerprint"].split(":")[1] + " " + h["fingerprint"].split("@")[-1].split("#")[0]
        summ[k] = summ.get(k, 0) + 1
    if summ:
        core.log("[C20] reader hits by (published path, syscall): %s" % summ)
    run.tie("strace trace of the producer is in the safe_publish language (extracted recogniser, per published path)",
            n_traces, lang_dis)
    run.tie("FsTrace.run predicts the bytes of every tracked path on disk after the (killed / faulted) run",
            n_traces, model_dis)
    run.tie("injection hit the intended tracked syscall (kill: trace = prefix up to it)", planned["kill"] + planned["fault"],
            misaligned)
    run.tie("file-size limit below the largest complete version: the kernel cut a write to a tracked file short or refused it with "
            "EFBIG (the short-write fault really happened)", planned["fsize"], no_short)
    dist["fsize_budgets"] = fsize_budgets
    dist["short_write_runs"] = sum(1 for r in results if r["job"].get("kind") == "fsize" and r["short_writes"])
    dist["efbig_runs"] = sum(1 for r in results if r["job"].get("kind") == "fsize" and r["efbig"])
    dist["planned"] = planned
    dist["kill_positions_forced_around_renames"] = forced_n
    dist["groups_switched_to_stride_1"] = upgraded
    dist["payload_sizes"] = dict(sizes, io_buffer=B, download_chunk=chunk)
    dist["corpus"] = [c["file"] for c in corpus]
    dist["environments"] = {}
    for r in results:
        e = r["job"]["scenario"].split("%", 1)[1] if "%" in r["job"]["scenario"] else "abs"
        dist["environments"][e] = dist["environments"].get(e, 0) + 1
    dist["tmpdir_other_file_system"] = ("real: " + xroot) if xroot else "emulated (LD_PRELOAD shim answers EXDEV)"
    dist["tracked_syscalls_per_fault_free_run"] = {"%s/%s/%s" % (g["producer"], g["scenario"], "old" if g["old"] else "fresh"):
                                                   len(r["relevant"]) for g, r in base_runs}
    run.coverage["input_distribution"] = dist
    run.coverage["exhaustive"] = tier == "thorough"
    run.coverage["exhaustive_part"] = (
        "SIGKILL at every tracked syscall and ENOSPC/EIO (one-shot and persistent) at every tracked syscall of every scenario, "
        "with and without a previous version" if tier == "thorough" else
        "with a previous version: SIGKILL and ENOSPC at every tracked syscall (EIO at every 2nd) of the 5 main scenarios; "
        "stride 3 without previous version; stride 4 for the 9 other scenarios; sized download scenarios: every "
        "tracked syscall (kill, ENOSPC) with a previous version, stride 3 without; other sized scenarios stride 2-4; "
        "the positions right before/after every rename are always included; corpus scenarios stride 1; environment "
        "variants of the 5 main scenarios: bare name + $TMPDIR on another file system stride 1-10, absolute name + "
        "$TMPDIR on another file system only the positions around the renames")
    if xroot:
        shutil.rmtree(xroot, ignore_errors=True)


def base_runs_name(base_runs, g, j):
    for g2, r in base_runs:
        if g2 is g:
            return r["relevant"][j][1]
    return None


def replay(obj):
    rp = obj["replay"]
    if "producer" not in rp:
        print(json.dumps(rp, indent=1)[:4000])
        return 1
    src = core.snapshot()
    exe = build()
    base = os.path.join(core.scratch(), "c20r")
    shutil.rmtree(base, ignore_errors=True)
    os.makedirs(base)
    import random
    seed = int(os.environ.get("VERIF_SEED", "0") or 0)
    n = scenario_size(rp["scenario"])
    IN, _ = make_inputs(random.Random(seed * 1000003 + 20), base,
                        zip_sizes=[n] if n is not None and rp["producer"] in ("zip", "makezip") else [])
    vers = record_versions(src, base, 1, rp["producer"], rp["scenario"], IN)
    xroot = other_fs_root(base) if "xdev" in scenario_flags(rp["scenario"]) else None
    try:
        r = one_run({"src": src, "exe": exe, "shim": build_shim(), "base": base, "n": 2, "producer": rp["producer"],
                     "scenario": rp["scenario"], "old": rp["old"], "IN": IN, "inject": rp["inject"],
                     "close_fail": rp.get("close_fail"), "fsize": rp.get("fsize"), "versions": vers, "kind": "replay",
                     "desc": rp["desc"],
                     "xroot": xroot})
    finally:
        if xroot:
            shutil.rmtree(xroot, ignore_errors=True)
    print(json.dumps({k: r[k] for k in ("rc", "killed", "accept", "reader", "state", "model_diff", "unsupported", "xdev",
                                        "short_writes", "efbig")},
                     indent=1))
    bad = any(r["reader"].values())
    print("REPRODUCED" if bad else "not reproduced")
    return 1 if bad else 0
