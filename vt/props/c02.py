"""C02 — well-formed markup parses to the structure it denotes.
Proof (coq/C02): denotation `denote : doc -> list tree` of a document grammar; per-pass theorems against it
(sections nest by level, list lines form the prefix tree, balanced quote runs toggle as denoted, a run one apostrophe longer than the
markup on a line of ANY length is resolved as denoted for every tie-breaking order (ProofsApoU.v), the caption split of the table parser
puts exactly the caption's inline tokens into the caption node, with and without an attribute part (ProofsCaption.v)).
Tie/Search: the denotation (Python mirror, checked against the extracted Gallina `denote` on the same documents)
is the oracle for parse_string + build_advanced_tree on serialised random documents."""
import collections
import concurrent.futures as cf
import json
import os
import re
import subprocess

from vt import core
from vt.harness import c01_gen
from vt.harness import c02_gen as G

LEVEL = "proof"
NSHARDS = 16


def run_impl(src, cases, iso=False):
    """default: each of the NSHARDS worker processes parses its documents (cases[k::NSHARDS], languages interleaved) one after the
    other; iso=True: every case in the state of a fresh process (forked from a parent that never parsed), after its own "pre" documents"""
    shards = [cases[k::NSHARDS] for k in range(NSHARDS)]

    def one(sh):
        if not sh:
            return {}
        rc, out = core.run_impl("vt.harness.c02_impl", ["iso"] if iso else [], src=src, input="".join(json.dumps(c) + "\n" for c in sh), timeout=3000)
        res = {}
        for ln in out.splitlines():
            if ln.startswith('{"id"'):
                r = json.loads(ln)
                res[r["id"]] = r
        return res
    results = {}
    with cf.ThreadPoolExecutor(NSHARDS) as ex:
        for r in ex.map(one, shards):
            results.update(r)
    return results


def drop_pid(trees):
    out = []
    for t in trees:
        if t[0] == "L":
            out.append(t[:4])
        else:
            out.append(["N", t[1], drop_pid(t[2])])
    return out


def section_paragraphs(doc):
    """word lists of the paragraphs that sit directly in a section body / at top level; paragraphs that follow each
    other directly (always serialised with a blank line between them) are in the same group"""
    groups = [[]]
    for b in doc:
        if b[0] == "p":
            groups[-1].append([w for w, _c, _b, _i in G.leaves(G.den_block(b))])
        else:
            groups.append([])
    return [g for g in groups if g]


OPEN_DEFECTS = os.environ.get("VERIF_C02_OPEN_DEFECTS") == "1"
UNIQUE_WORD = re.compile(r"T?w\d+x[a-z]*$")


def apo_style_free(trees):
    """the tree with the style of every literal-apostrophe leaf blanked (see `compare`)"""
    out = []
    for t in trees:
        if t[0] == "L":
            out.append(["L", t[1], None, None] if t[1] == G.APO else t)
        else:
            out.append(["N", t[1], apo_style_free(t[2])])
    return out


def compare(doc, got):
    """the property's oracle: None if the real tree is the denoted one, else (kind, detail).
    Open defect C02-literal-apostrophe-side (fixes/C02-literal-apostrophe-side.diff): mwlib puts the literal apostrophe of a
    surplus run BEHIND the style toggle, MediaWiki in front of it, so the apostrophe (the character only) gets the style of the
    wrong side.  Until the fix is in /repo the style of that one character is compared only with VERIF_C02_OPEN_DEFECTS=1;
    its presence, its position in the text and the styles of all words around it are always compared."""
    want = G.strip_p(G.denote(doc))
    real = G.strip_p(drop_pid(got))
    if not OPEN_DEFECTS:
        want, real = apo_style_free(want), apo_style_free(real)
    if want != real:
        lw, lg = G.leaves(want), G.leaves(real)
        ww, wg = [x[0] for x in lw], [x[0] for x in lg]
        if ww != wg:
            if sorted(ww) == sorted(wg):
                k = next(i for i, (a, b) in enumerate(zip(ww, wg)) if a != b)
                return "order", "text leaves re-ordered: denoted %r..., got %r..." % (ww[max(0, k - 2):k + 6], wg[max(0, k - 2):k + 6])
            # multisets: the repeated tokens of the grammar legitimately occur several times
            cw, cg = collections.Counter(ww), collections.Counter(wg)
            miss = sorted((cw - cg).elements())
            more = sorted((cg - cw).elements())
            dup = [w for w in more if w in cw]
            extra = [w for w in more if w not in cw]
            kind = "dropped" if miss else "duplicated" if dup else "extra"
            return kind, "missing %r duplicated %r unexpected %r" % (miss[:5], dup[:5], extra[:5])
        for a, b in zip(lw, lg):
            if a != b:
                k = "style" if a[1] == b[1] else "ancestors"
                return k, "leaf %r: denoted ancestors %r bold=%s italic=%s, got %r bold=%s italic=%s" % (a[0], a[1], a[2], a[3], b[1], b[2], b[3])
        return "grouping", "same leaves and ancestor labels, different grouping of siblings"
    # paragraphs of a section body: leaves of one denoted paragraph share one Paragraph node, different ones do not
    pid = {}
    for t in _walk_leaves(got):
        pid[t[1]] = t[4]
    for group in section_paragraphs(doc):
        seen = {}
        for ws in group:
            ws = [w for w in ws if UNIQUE_WORD.match(w)]      # repeated tokens are in several paragraphs
            if not ws:
                continue
            ids = {pid.get(w) for w in ws}
            if len(ids) != 1:
                return "paragraph", "words %r of one paragraph lie in paragraph nodes %r" % (ws[:6], sorted(ids, key=str))
            i = ids.pop()
            # mwlib's Paragraph nodes are "runs between blank lines/block nodes" (core.py:791-833): a list between two
            # text runs does not split them, and a run that is alone in its container is not wrapped at all; what the
            # grammar's blank line denotes is only that two paragraphs following each other are separate nodes
            if i in seen:
                return "paragraph", "paragraphs %r... and %r... separated by a blank line share one Paragraph node" % (seen[i][:3], ws[:3])
            seen[i] = ws
    return None


def _walk_leaves(trees):
    for t in trees:
        if t[0] == "L":
            yield t
        else:
            yield from _walk_leaves(t[2])


def gen_docs(run, src):
    rng = run.rng
    n = 5000 if run.tier == "quick" else 40000
    docs = []
    # minimised past failures first (corpus/C02/*.json: {"doc": grammar document, "lang": ...}), in every spelling variant drawn
    cdir = os.path.join(core.VERIF, "corpus", "C02")
    for fn in sorted(os.listdir(cdir)) if os.path.isdir(cdir) else []:
        if fn.endswith(".json"):
            with open(os.path.join(cdir, fn)) as fh:
                c = json.load(fh)
            d = {"id": "corpus:" + fn, "doc": c["doc"], "raw": G.serialise(_FixedRng(), c["doc"]), "lang": c.get("lang", "en")}
            if c.get("history"):
                # a past failure that needs earlier documents in the same process: replayed after exactly those, in a fresh process
                d["history"] = [{"doc": h["doc"], "raw": G.serialise(_FixedRng(), h["doc"]), "lang": h.get("lang", "en")} for h in c["history"]]
            docs.append(d)
    ns = ns_oracle(src)
    for i in range(n):
        # the language is drawn at random: every worker process (documents i, i+16, ...) sees all 12 languages interleaved
        lang = rng.choice(c01_gen.LANGS)
        g = G.Gen(rng, rng.choice([1, 2, 4, 8] if run.tier == "quick" else [1, 2, 4, 8, 16]), ns=ns, lang=lang, captions=True)
        d = g.doc()
        docs.append({"id": i, "doc": d, "raw": G.serialise(rng, d), "lang": lang})
    return docs


def ns_oracle(src):
    return G.NsOracle(os.path.join(src, "mwlib", "network", "known_sites"), c01_gen.LANGS)


def _sub(e):
    """(body of an inline element that holds inline, rebuild function) or None"""
    k = e[0]
    if k in ("b", "i"):
        return e[2], lambda r: (k, e[1], r)
    if k in ("link", "ext"):
        return (e[2], lambda r: (k, e[1], r)) if e[2] else None
    if k == "ref":
        return e[1], lambda r: (k, r)
    if k == "apo":
        return e[3], lambda r: (k, e[1], e[2], r, e[4])
    if k == "nslink":
        return (e[5], lambda r: (k, e[1], e[2], e[3], e[4], r)) if e[5] else None
    return None


def red_inline(inl):
    """one-step reductions of an inline list (never to the empty list): drop an element, replace a span / link / ref by its
    body, reduce inside an element"""
    inl = list(inl)
    for w in (2, 3, 4):                                   # coarse steps first: keep only a window of w elements
        for k in range(len(inl) - w + 1 if len(inl) > w + 1 else 0):
            yield inl[k:k + w]
    for k, e in enumerate(inl):
        if len(inl) > 1:
            yield inl[:k] + inl[k + 1:]
        sub = _sub(e)
        if sub:
            body, mk = sub
            if e[0] != "apo":
                yield inl[:k] + list(body) + inl[k + 1:]
            for r in red_inline(body):
                yield inl[:k] + [mk(r)] + inl[k + 1:]


def red_block(b):
    k = b[0]
    if k == "h":
        for r in red_inline(b[2]):
            yield ("h", b[1], r)
    elif k in ("p", "pre"):
        for j, ln in enumerate(b[1]):
            if len(b[1]) > 2:
                yield (k, [ln])
            if len(b[1]) > 1:
                yield (k, b[1][:j] + b[1][j + 1:])
            for r in red_inline(ln):
                yield (k, b[1][:j] + [r] + b[1][j + 1:])
    elif k == "list":
        for j, (pfx, inl, d) in enumerate(b[1]):
            if len(b[1]) > 2:
                yield (k, [b[1][j]])
                if j + 1 < len(b[1]):
                    yield (k, b[1][j:j + 2])
            if len(b[1]) > 1:
                yield (k, b[1][:j] + b[1][j + 1:])
            for r in red_inline(inl):
                yield (k, b[1][:j] + [(pfx, r, d)] + b[1][j + 1:])
            if d is not None:
                for r in red_inline(d):
                    yield (k, b[1][:j] + [(pfx, inl, r)] + b[1][j + 1:])
    elif k == "table":
        rows = b[1]
        cap = b[2] if len(b) > 2 else None
        tail = (cap,) if cap is not None else ()
        if cap is not None:
            yield (k, rows)
            if cap[0]:
                yield (k, rows, ("", cap[1]))
            for r in red_inline(cap[1]):
                yield (k, rows, (cap[0], r))
        for j, row in enumerate(rows):
            if len(rows) > 1:
                yield (k, rows[:j] + rows[j + 1:]) + tail
            for c, (hdr, body) in enumerate(row):
                if len(row) > 1:
                    yield (k, rows[:j] + [row[:c] + row[c + 1:]] + rows[j + 1:]) + tail
                subs = red_inline(body[1]) if body[0] == "inl" else red_blocks(body[1])
                for r in subs:
                    yield (k, rows[:j] + [row[:c] + [(hdr, (body[0], r))] + row[c + 1:]] + rows[j + 1:]) + tail


def red_blocks(blocks):
    blocks = list(blocks)
    for w in (1, 2, 3):                                   # coarse steps first: keep only a window of w blocks
        for i in range(len(blocks) - w + 1 if len(blocks) > w + 1 else 0):
            yield blocks[i:i + w]
    for i, b in enumerate(blocks):
        if len(blocks) > 1:
            yield blocks[:i] + blocks[i + 1:]
        if b[0] == "table":
            # a table replaced by the content of one of its cells (or of its caption)
            for row in b[1]:
                for _h, body in row:
                    yield blocks[:i] + ([("p", [body[1]])] if body[0] == "inl" else list(body[1])) + blocks[i + 1:]
            if len(b) > 2 and b[2] is not None:
                yield blocks[:i] + [("p", [b[2][1]])] + blocks[i + 1:]
        for r in red_block(b):
            yield blocks[:i] + [r] + blocks[i + 1:]


def _line_inlines(blocks):
    for b in blocks:
        k = b[0]
        if k == "h":
            yield b[2]
        elif k in ("p", "pre"):
            yield from b[1]
        elif k == "list":
            for _p, inl, _d in b[1]:
                yield inl
        elif k == "table":
            if len(b) > 2 and b[2] is not None:
                yield b[2][1]
            for row in b[1]:
                for _h, body in row:
                    if body[0] == "inl":
                        yield body[1]
                    else:
                        yield from _line_inlines(body[1])


def well_formed(doc):
    """the grammar's side conditions that a reduction could break: no repeated token (or other markup character) opens a line"""
    for inl in _line_inlines(doc):
        txt = G.ser_inline(_FixedRng(), inl)
        if not txt or txt[0] in ":;*#|!-={ &,/":
            return False
    return True


def shrink(src, case, history=(), target=None):
    """greedy minimisation on the grammar: blocks, lines, rows, cells, then inline elements (dropped or replaced by their
    body), keeping the document well-formed and a mismatch of the same kind; every step takes the smallest failing candidate.
    Every candidate runs in the state of a fresh process after the documents of `history`.
    target=None: `case` is the mismatching document and is shrunk; target=j: the j-th document of `history` is shrunk while the
    mismatch of the (unchanged) document `case` is kept."""
    history = [dict(h) for h in history]
    doc = case["doc"] if target is None else history[target]["doc"]
    lang = case["lang"] if target is None else history[target]["lang"]
    kind = case["kind"]

    def pre_of(hs):
        return [{"raw": h["raw"], "lang": h["lang"]} for h in hs]
    limit = 1500 if not history else 300
    for _round in range(60):
        cands = []
        seen = set()
        for d2 in red_blocks(doc):
            if not well_formed(d2):
                continue
            raw = G.serialise(_FixedRng(), d2)
            if raw in seen:
                continue
            seen.add(raw)
            cands.append({"id": len(cands), "doc": d2, "raw": raw, "lang": lang})
        if not cands:
            break
        cands.sort(key=lambda c: len(c["raw"]))
        cands = cands[:limit]
        if target is None:
            jobs = [{"id": c["id"], "raw": c["raw"], "lang": lang, "pre": pre_of(history)} for c in cands]
        else:
            jobs = [{"id": c["id"], "raw": case["raw"], "lang": case["lang"],
                     "pre": pre_of(history[:target] + [c] + history[target + 1:])} for c in cands]
        res = run_impl(src, jobs, iso=True)
        nxt = None
        for c in cands:
            r = res.get(c["id"])
            if r and "tree" in r:
                v = compare(c["doc"] if target is None else case["doc"], r["tree"])
                if v and v[0] == kind:
                    nxt = c
                    break
        if nxt is None:
            break
        doc = nxt["doc"]
    return doc, G.serialise(_FixedRng(), doc)


def mismatch(src, case, history=()):
    """the oracle on one document in the state of a fresh process after the documents of `history`: None or (kind, detail)"""
    r = run_impl(src, [{"id": 0, "raw": case["raw"], "lang": case["lang"],
                        "pre": [{"raw": h["raw"], "lang": h["lang"]} for h in history]}], iso=True).get(0)
    if r is None:
        return None
    if "exc" in r:
        return ("exception", r["exc"])
    return compare(case["doc"], r["tree"])


def minimise_history(src, case, earlier):
    """`case` mismatches after the documents `earlier` (those its worker process parsed before it) but not in a fresh process:
    find a short history that still produces a mismatch of the same kind.  First every single earlier document (the state one parse
    leaves behind), then delta debugging on the list, order kept."""
    kind = case["kind"]

    def fails_all(hists):
        jobs = [{"id": i, "raw": case["raw"], "lang": case["lang"], "pre": [{"raw": h["raw"], "lang": h["lang"]} for h in hs]}
                for i, hs in enumerate(hists)]
        res = run_impl(src, jobs, iso=True)
        out = []
        for i in range(len(hists)):
            r = res.get(i)
            v = None
            if r is not None:
                v = ("exception", r["exc"]) if "exc" in r else compare(case["doc"], r["tree"])
            out.append(bool(v) and v[0] == kind)
        return out
    if not fails_all([earlier])[0]:
        return None
    singles = fails_all([[h] for h in earlier])
    ok = [h for h, f in zip(earlier, singles) if f]
    if ok:
        return [min(ok, key=lambda h: len(h["raw"]))]
    hist = list(earlier)
    n = 2
    while len(hist) >= 2:
        chunk = max(1, len(hist) // n)
        cands = [hist[:i] + hist[i + chunk:] for i in range(0, len(hist), chunk)]
        flags = fails_all(cands)
        for c, f in zip(cands, flags):
            if f:
                hist, n = c, max(n - 1, 2)
                break
        else:
            if chunk == 1:
                break
            n = min(len(hist), n * 2)
    return hist


class _FixedRng:
    """deterministic 'first variant' choices for re-serialising shrunk documents"""
    def choice(self, seq):
        return seq[0]

    def random(self):
        return 0.99


def build():
    return core.ocaml_build("c02", "C02/Extract.v", "driver.ml", dirs=["C01", "C02"])


class Ids:
    def __init__(self):
        self.d = {}

    def __call__(self, w):
        return self.d.setdefault(w, len(self.d) + 1)


def sx_inl(inl, ids):
    out = []
    for e in inl:
        k = e[0]
        if k == "w":
            out.append("(0 %d)" % ids(e[1]))
        elif k == "x":                                   # a repeated token is a word that occurs several times
            out.append("(0 %d)" % ids(G.X_TEXT.get(e[1], e[1])))
        elif k == "apo":                                 # the literal apostrophe is a word of the text in front of the run
            out.append(sx_inl(G.apo_expand(e), ids))
        elif k == "b":
            out.append("(1 %s)" % sx_inl(e[2], ids))
        elif k == "i":
            out.append("(2 %s)" % sx_inl(e[2], ids))
        elif k == "link":
            out.append("(3 %d %s)" % (ids(e[1]), sx_inl(e[2], ids)))
        elif k == "ext":
            out.append("(4 %d %s)" % (ids(e[1]), sx_inl(e[2], ids)))
        elif k == "ref":
            out.append("(5 %s)" % sx_inl(e[1], ids))
        elif k == "nslink":
            # for the Gallina denotation a link target is an opaque name: label (target, kind, full target) -> one name; a link
            # without label shows its target
            out.append("(3 %d %s)" % (ids(link_name(G.nslink_label(e))), sx_inl(e[5], ids) if e[5] else "(0 %d)" % ids(e[1])))
    return " ".join(out)


def link_name(lab):
    return lab[1] if len(lab) == 2 else "\x00".join(map(str, lab[1:]))


def sx_doc(doc, ids):
    """s-expression of a document for the extracted `denote`; None when the document uses block-valued cells
    (the Gallina grammar has inline cells only)"""
    out = []
    for b in doc:
        k = b[0]
        if k == "h":
            out.append("(10 %d %s)" % (b[1], sx_inl(b[2], ids)))
        elif k == "p":
            out.append("(11 %s)" % " ".join("(%s)" % sx_inl(ln, ids) for ln in b[1]))
        elif k == "list":
            out.append("(12 %s)" % " ".join("((%s) (%s)%s)" % (" ".join(str(ord(ch)) for ch in p), sx_inl(inl, ids),
                                                                 "" if d is None else " (%s)" % sx_inl(d, ids)) for p, inl, d in b[1]))
        elif k == "table":
            rows = []
            for row in b[1]:
                cells = []
                for hdr, body in row:
                    if body[0] != "inl":
                        return None
                    cells.append("(%d %s)" % (1 if hdr else 0, sx_inl(body[1], ids)))
                rows.append("(%s)" % " ".join(cells))
            if len(b) > 2 and b[2] is not None:
                out.append("(15 (%s) %s)" % (sx_inl(b[2][1], ids), " ".join(rows)))
            else:
                out.append("(13 %s)" % " ".join(rows))
        elif k == "pre":
            out.append("(14 %s)" % " ".join("(%s)" % sx_inl(ln, ids) for ln in b[1]))
    return " ".join(out)


def with_ids(trees, ids):
    out = []
    for t in trees:
        if t[0] == "L":
            out.append(["L", ids(t[1]), t[2], t[3]])
        else:
            lab = list(t[1])
            if lab[0] == "link":
                lab = ["link", ids(link_name(lab))]
            elif lab[0] == "ext":
                lab[1] = ids(lab[1])
            out.append(["N", lab, with_ids(t[2], ids)])
    return out


def _units(src, cases):
    rc, out = core.run_impl("vt.harness.c02_units", [], src=src, input="".join(json.dumps(c) + "\n" for c in cases), timeout=1800)
    res = {}
    for ln in out.splitlines():
        if ln.startswith('{"id"'):
            r = json.loads(ln)
            res[r["id"]] = r
    if len(res) != len(cases):
        raise RuntimeError("c02_units: %d/%d results: %s" % (len(res), len(cases), out[-600:]))
    return res


def proofs(run, src, docs):
    import itertools
    run.check_proofs("C02", dirs=["C01"])
    exe = build()
    rng = run.rng
    quick = run.tier == "quick"
    # ---- tie 1: Python mirror of `denote` == extracted Gallina `denote` on the generated documents
    lines, want = [], []
    for d in docs:
        ids = Ids()
        sx = sx_doc(d["doc"], ids)
        if sx is None:
            continue
        lines.append("D" + sx + "\n")
        want.append((d["id"], with_ids(G.denote(d["doc"]), ids)))
    out = subprocess.run([exe], input="".join(lines), capture_output=True, text=True, timeout=1800).stdout.splitlines()
    dis = []
    for (did, w), o in zip(want, out):
        try:
            got = json.loads(o)
        except ValueError:
            got = o
        if got != w:
            dis.append("denote(doc %s): extracted %s, mirror %s" % (did, str(o)[:200], json.dumps(w)[:200]))
    if len(out) != len(want):
        dis.append("driver returned %d lines for %d documents" % (len(out), len(want)))
    run.tie("denote: Python mirror (the search oracle) vs extracted Gallina denote, same documents", len(want), dis)
    # ---- tie 2: real ParseSections vs extracted parse_sections (= nest by C02_sections_nest)
    cases = []
    seqs = []
    for ln in range(0, 6 if quick else 7):
        for t in itertools.product([0, 1, 2, 3], repeat=ln):       # 0 = block, k = heading of level k: exhaustive
            seqs.append(list(t))
    for _ in range(1500 if quick else 20000):
        seqs.append([rng.choice([0, 0, 1, 2, 3, 4, 5, 6]) for _ in range(rng.choice([6, 8, 12, 20, 40]))])
    for i, sq in enumerate(seqs):
        cases.append({"id": i, "k": "S", "items": [[1, k, j] if k else [0, j] for j, k in enumerate(sq)]})
    res = _units(src, cases)
    mlines = "".join("S" + " ".join("(1 %d %d)" % (it[1], it[2]) if it[0] else "(0 %d)" % it[1] for it in c["items"]) + "\n" for c in cases)
    out = subprocess.run([exe], input=mlines, capture_output=True, text=True, timeout=1800).stdout.splitlines()
    dis = []
    for c, o in zip(cases, out):
        alg, _, nst = o.partition(" # ")
        real = res[c["id"]].get("out", res[c["id"]].get("exc"))
        if not (alg == nst == real):
            dis.append("sections %r: real %s | model %s | nest %s" % (c["items"], real, alg, nst))
    run.tie("ParseSections: real pass on heading/block token lists vs extracted parse_sections and nest", len(cases), dis)
    # ---- tie 3: real ParseLines vs extracted den_list
    cases = []
    lsets = []
    for ln in range(1, 4 if quick else 5):
        for t in itertools.product(["*", "#", ":", ";", "**", "*#", "#:", ":*", "::", ";;", "*#:"], repeat=ln):
            lsets.append(list(t))
    for _ in range(1500 if quick else 20000):
        k = rng.randint(1, 8)
        lsets.append(["".join(rng.choice("*#:;") for _ in range(rng.randint(1, 4))) for _ in range(k)])
    # lines with a top-level colon ("; term : description" and colons after other prefixes): a trailing "+" marks them
    for ln in range(1, 4 if quick else 5):
        for t in itertools.product([";+", ";", "*;+", ";;+", ":;+", ";*+", ":+", ";*", "*+"], repeat=ln):
            lsets.append(list(t))
    for _ in range(1500 if quick else 20000):
        k = rng.randint(1, 8)
        lsets.append(["".join(rng.choice("*#:;;") for _ in range(rng.randint(1, 4))) + rng.choice(["", "+"]) for _ in range(k)])
    for i, ps in enumerate(lsets):
        cases.append({"id": i, "k": "L", "lines": [[p.rstrip("+"), 2 * j + 1] + ([2 * j + 2] if p.endswith("+") else []) for j, p in enumerate(ps)]})
    res = _units(src, cases)
    mlines = "".join("L" + " ".join("((%s) %s)" % (" ".join(str(ord(ch)) for ch in ln[0]), " ".join(map(str, ln[1:]))) for ln in c["lines"]) + "\n" for c in cases)
    out = subprocess.run([exe], input=mlines, capture_output=True, text=True, timeout=1800).stdout.splitlines()
    # the loop model of ParseLines.analyze (C02_lists_nest proves it equal to den_list) on the same lines
    alines = "".join("A" + ln[1:] for ln in mlines.splitlines(True))
    aout = subprocess.run([exe], input=alines, capture_output=True, text=True, timeout=1800).stdout.splitlines()
    dis = []
    if len(aout) != len(cases) or len(out) != len(cases):
        dis.append("driver returned %d / %d lines for %d line sets" % (len(out), len(aout), len(cases)))
    for c, o, a in zip(cases, out, aout):
        real = res[c["id"]].get("out", res[c["id"]].get("exc"))
        try:
            m = json.loads(o)
        except ValueError:
            m = o
        try:
            am = json.loads(a)
        except ValueError:
            am = a
        if am != real:
            dis.append("lines %r: real %s | analyze_model %s" % ([ln[0] + ("+" if len(ln) > 2 else "") for ln in c["lines"]], json.dumps(real)[:300], str(a)[:300]))
        if m != real:
            dis.append("lines %r: real %s | den_list %s" % ([ln[0] + ("+" if len(ln) > 2 else "") for ln in c["lines"]], json.dumps(real)[:300], str(o)[:300]))
    run.tie("ParseLines: real pass on prefixed line token lists (with and without a top-level colon) vs extracted den_list "
            "(the denoted prefix tree) and vs the extracted loop model analyze_model", len(cases), dis)
    caption_tie(run, src)


def caption_tie(run, src):
    """C02_caption_split_plain / _attrs on the REAL TableParser.find_caption: for token lists that satisfy the hypotheses the real
    children afterwards are  ws ++ [caption(body)] ++ stop :: rest  (tokens identified by their position)"""
    import itertools
    rng = run.rng
    quick = run.tier == "quick"
    walk = ["text", "blank", "bar", "open", "close", "ref", "quote", "colon"]          # cap_tok = true
    attrk = ["text", "blank", "close", "quote", "colon"]                               # no bar, no open
    stops = ["nl", "break", "row"]

    def open_first(body):
        for kd in body:
            if kd == "open":
                return True
            if kd == "bar":
                return False
        return True
    cases = []

    def add(ws, attrs, body, stop, rest):
        toks = list(ws) + ["cap"] + (list(attrs) + ["bar"] if attrs is not None else []) + list(body) + [stop] + list(rest)
        n0 = len(ws) + 1 + (len(attrs) + 1 if attrs is not None else 0)
        want = list(range(len(ws))) + [["cap", list(range(n0, n0 + len(body)))]] + list(range(n0 + len(body), len(toks)))
        cases.append({"id": len(cases), "k": "C", "toks": toks, "want": want, "attrs": attrs is not None})
    for ln in range(0, 4 if quick else 5):
        for body in itertools.product(walk, repeat=ln):
            if open_first(body):
                add(["nl"], None, body, stops[len(cases) % 3], ["row"])
            add(["nl"], ["text"], body, stops[len(cases) % 3], ["row"])
    for _ in range(1500 if quick else 20000):
        ws = [rng.choice(["nl", "blank", "break"]) for _ in range(rng.choice([0, 1, 1, 2, 3]))]
        body = [rng.choice(walk) for _ in range(rng.choice([0, 1, 2, 3, 5, 8, 12]))]
        rest = [rng.choice(walk + stops + ["cap", "row"]) for _ in range(rng.choice([0, 1, 2, 4]))]
        if rng.random() < 0.5:
            add(ws, [rng.choice(attrk) for _ in range(rng.choice([0, 1, 2, 3]))], body, rng.choice(stops), rest)
        else:
            if not open_first(body):
                k = body.index("bar")
                body.insert(rng.randint(0, k), "open")
            add(ws, None, body, rng.choice(stops), rest)
    res = _units(src, [{"id": c["id"], "k": "C", "toks": c["toks"]} for c in cases])
    dis = []
    for c in cases:
        real = res[c["id"]].get("out", res[c["id"]].get("exc"))
        if real != c["want"]:
            dis.append("find_caption(%s): real %s, theorem %s" % (" ".join(c["toks"]), json.dumps(real), json.dumps(c["want"])))
    run.tie("TableParser.find_caption: real children of the table vs the right-hand sides of C02_caption_split_plain / _attrs on token lists "
            "that satisfy their hypotheses (%d without, %d with an attribute part)" % (sum(1 for c in cases if not c["attrs"]), sum(1 for c in cases if c["attrs"])),
            len(cases), dis)


def _inline_kinds(inl, acc):
    for e in inl:
        if e[0] == "x":
            acc["repeated-token:" + e[1]] = acc.get("repeated-token:" + e[1], 0) + 1
        elif e[0] == "apo":
            acc["apostrophe-run:%s-%s" % (e[1], e[2])] = 1
        elif e[0] == "nslink":
            acc["namespace-link:%s%s" % (e[3], "-labelled" if e[5] else "")] = 1
        sub = _sub(e)
        if sub:
            _inline_kinds(sub[0], acc)


def features(doc):
    """which of the non-unique-leaf families a document uses: repeated tokens that occur at least twice, apostrophe runs"""
    acc = {}
    for b in doc:
        if b[0] == "list":
            for _p, inl, d in b[1]:
                _inline_kinds(inl, acc)
                if d is not None:
                    _inline_kinds(d, acc)
    for inl in _line_inlines(doc):
        _inline_kinds(inl, acc)
    _captions(doc, acc)
    return {k.split(":")[0] if k.startswith("repeated") else k for k, n in acc.items() if not k.startswith("repeated") or n >= 2}


def _has(inl, kinds):
    for e in inl:
        if e[0] in kinds:
            return True
        sub = _sub(e)
        if sub and _has(sub[0], kinds):
            return True
    return False


def _labelled(inl):
    for e in inl:
        if e[0] in ("link", "nslink") and e[-1]:
            return True
        sub = _sub(e)
        if sub and _labelled(sub[0]):
            return True
    return False


def _captions(blocks, acc):
    for b in blocks:
        if b[0] != "table":
            continue
        if len(b) > 2 and b[2] is not None:
            attrs, inl = b[2]
            what = ("labelled-link" if _labelled(inl) else "link" if _has(inl, ("link", "nslink")) else
                    "style" if _has(inl, ("b", "i", "apo")) else "plain")
            acc["caption:%s-attributes,%s" % ("with" if attrs else "without", what)] = 1
        for row in b[1]:
            for _h, body in row:
                if body[0] == "blocks":
                    _captions(body[1], acc)


def _longq(raw):
    return any(len(re.findall(r"''+", ln)) > 32 for ln in raw.split("\n"))


def check(run):
    run.rule = ("documents from the recursive grammar of vt/harness/c02_gen.py (sections of levels 1-6 in random order, paragraphs, "
                "nested * # ; : lists with prefix changes and one-line definition items '; term : description' (terms plain, bold, italic, "
                "bold-italic, nested styles incl. runs of five apostrophes, links, refs), tables with header/data cells holding inline text or blocks (lists, nested "
                "tables), pre lines, bold/italic as quotes or <b>/<strong>/<i>/<em>, internal links with/without label, external "
                "links, refs), serialised with random equivalent spellings (spaces after markers, optional blank lines, || vs "
                "newline cells, attributes); leaves = unique words, plus two families of NON-unique leaves: (a) separator runs "
                "(Gen.sep_run, in paragraphs, list items, headings, cells, link labels, span bodies): 2-4 items (links with/without "
                "label, named URLs, <b>/<i>/quote spans, words) separated by the same one or two short tokens (: | , ; / &amp; or the "
                "repeated word 'und'), each glued to its neighbours or not, followed by a plain text run that contains the token "
                "again ('[[A]]:[[B]] w1 w2:w3'), so that one parent holds the same token alone between two non-text siblings and "
                "inside longer text runs; (b) apostrophe runs one longer than the markup (Gen.put_apo, at most one per physical "
                "line, in paragraphs, list items and definition terms/descriptions, headings, cells): ''x'''s, '''x''''s, w'''x'', "
                "w''''x''' with words or a link as body, the literal apostrophe denoted as text in front of the run (MediaWiki "
                "doQuotes); (c) table captions '|+ inline' and '|+ attributes | inline' (45% of the tables, also of tables nested in cells) "
                "holding any inline content - links with labels (whose pipe is not the attribute separator), namespace links, styles, named URLs, "
                "refs, repeated tokens, surplus apostrophes - denoted as a caption node in front of the rows; (d) namespace-prefixed links "
                "[[Prefix:Name]], [[:Prefix:Name]], with and without label, in every inline position: the prefix is drawn from the local names, "
                "canonical names and aliases of ALL namespaces of ALL 12 bundled site languages (category and file names preferred) and from "
                "interwiki / language prefixes, in original, lower and upper case, so that in the language of the document it denotes a "
                "category link, an image link, another namespace, a language / interwiki link, or nothing (an article whose title contains a "
                "colon); kind and fully qualified target are computed from the raw siteinfo JSON of that language by G.NsOracle, not by "
                "mwlib's NsHandler; the language of a document is drawn at random and each of the 16 worker processes parses its ~1/16 of "
                "the documents one after the other, all 12 languages interleaved (as a render server does) - a mismatch that does not show "
                "in a fresh process is minimised together with its HISTORY (first every single earlier document of that worker, then "
                "delta debugging on the list; then the history documents and the document itself are shrunk on the grammar) and the replay "
                "carries that history; distinct = distinct serialised text; non-trivial = at least two "
                "block kinds or nesting; every mismatch is minimised on the grammar (blocks, lines, rows, cells, inline elements "
                "dropped or replaced by their body, keeping the document well-formed) before it is reported")
    run.trusted = ["Coq 8.16.1 kernel (coqc)", "extraction (ExtrOcamlBasic directives only) + ocaml/c02/driver.ml",
                   "the document grammar, its serialiser (Python) and the canonicaliser of the advanced tree (vt/harness/c02_impl.py: "
                   "which node classes count as section/list/item/table/row/cell/pre/ref/link, Strong/Emphasized as leaf attributes, "
                   "Paragraph nodes transparent; text leaves = maximal alphanumeric runs and single punctuation characters of "
                   "the Text captions, whitespace is not compared; a link without label shows its target; ArticleLink = plain link label, "
                   "every other Link class = label with kind and full_target)",
                   "the bundled siteinfo JSON files as the definition of what a prefix means in a language (namespaces: '*', 'canonical', "
                   "namespacealiases, case-insensitive; interwikimap: prefix, 'language'); lookup re-implemented in G.NsOracle",
                   "vt/harness/c02_impl.py mode iso: a child forked from a parent that imported mwlib but never parsed stands for a fresh process",
                   "hand-written Gallina models of the section builder, ParseLines.analyze and compute_path (coq/C01, coq/C02) and of "
                   "TableParser.find_caption (coq/C01/PassesTable.v; abstraction of tokens to the kinds the loops branch on); the caption "
                   "theorems are additionally compared with the real find_caption on token lists that satisfy their hypotheses"]
    run.assumptions = ["only well-formed constructs of the grammar; apostrophe runs adjacent only as the runs of five of a span touching the edge "
                       "of its enclosing span, or as ONE run per physical line that is one apostrophe longer than the markup (3 for "
                       "italic, 4 for bold); a line with such a run of three has no other run of three or five (MediaWiki picks the "
                       "run it re-reads by the preceding characters; with one candidate the reading is determined); no newline inside "
                       "list items, headings or one-line cells; a colon in a list line whose prefix contains ';' only as "
                       "the separator of a one-line definition item; no '|' as text in tables and link labels; a repeated token never "
                       "opens a line; only punctuation is glued to links; every table row introduced by |-; a caption is one line "
                       "directly after the {| line",
                       "namespace-prefixed links: prefixes are single words of letters whose casing round-trips; a prefix that is both a "
                       "namespace name and an interwiki prefix in the document's language is not generated (MediaWiki resolves the namespace "
                       "first, mwlib the interwiki prefix); category links have no label (it would be a sort key), file links at most a "
                       "plain caption and no thumb/frame/alignment option; target names start with a capital letter",
                       "OPEN DEFECT (fixes/C02-literal-apostrophe-side.diff): mwlib gives the literal apostrophe of an over-long run the "
                       "style of the text BEHIND the run, MediaWiki that of the text in front of it (''x'''s: <i>x</i>'s vs <i>x'</i>s). "
                       "Until the fix is in /repo the bold/italic attribute of that one character is compared only with "
                       "VERIF_C02_OPEN_DEFECTS=1 (then ./check C02 reports c02:style on ''w1x'''w2x); its presence, its position and the "
                       "styles of all words are always compared",
                       "paragraph nodes are compared only for paragraphs directly in a section body (mwlib also wraps lists and "
                       "preformatted blocks into Paragraph nodes, which the property does not speak about)"]
    src = core.snapshot()
    docs = gen_docs(run, src)
    proofs(run, src, docs)
    results = run_impl(src, [{"id": d["id"], "raw": d["raw"], "lang": d["lang"]} for d in docs])
    bykind = {}
    stats = collections.Counter()
    fams = collections.Counter()
    langs = collections.Counter()
    sizes = collections.Counter()
    missing = 0
    for d in docs:
        r = results.get(d["id"])
        if r is None:
            missing += 1
            continue
        kinds = {b[0] for b in d["doc"]}
        nleaves = len(G.leaves(G.denote(d["doc"])))
        run.count(d["raw"], nontrivial=len(kinds) >= 2 or "table" in kinds or "list" in kinds)
        for k in kinds:
            stats[k] += 1
        langs[d["lang"]] += 1
        for k in features(d["doc"]):
            fams[k] += 1
        sizes["<=20" if nleaves <= 20 else "<=100" if nleaves <= 100 else "<=400" if nleaves <= 400 else ">400"] += 1
        if "exc" in r:
            v = ("exception", r["exc"])
        else:
            v = compare(d["doc"], r["tree"])
        if v:
            # candidates per kind of mismatch, documents with a line of more than 32 apostrophe runs kept apart
            key = (v[0], _longq(d["raw"]))
            cur = bykind.get(key)
            if cur is None or len(d["raw"]) < len(cur[0]["raw"]):
                bykind[key] = (dict(d, kind=v[0]), v[1])
        elif len(run.samples) < 4 and len(d["raw"]) < 260 and len(kinds) >= 2:
            run.sample({"raw": d["raw"], "lang": d["lang"], "denoted_leaves": [[w, [list(c) for c in ch], b, i] for w, ch, b, i in G.leaves(G.strip_p(G.denote(d["doc"])))][:12]})
    run.obligation("oracle-harness-complete", missing == 0, "%d documents without a result" % missing)
    for d in docs:
        if d.get("history"):
            v = mismatch(src, d, d["history"])
            if v:
                bykind.setdefault((v[0], "corpus-history"), (dict(d, kind=v[0]), v[1]))
    hits = {}
    pos = {d["id"]: k for k, d in enumerate(docs)}
    for key in sorted(bykind, key=str):
        case, detail = bykind[key]
        kind = case["kind"]
        history = []
        # a document is judged on its own: does the mismatch show in a fresh process?  If not, it is caused by what the worker process
        # parsed before it (state shared between parses, e.g. between site languages): minimise that history as well
        alone = mismatch(src, case) if key[1] != "corpus-history" else None
        if key[1] == "corpus-history":
            history = [dict(h) for h in (minimise_history(src, case, case["history"]) or case["history"])]
        elif not (alone and alone[0] == kind):
            k = pos[case["id"]]
            earlier = [docs[j] for j in range(k % NSHARDS, k, NSHARDS)]
            hist = minimise_history(src, case, earlier)
            if hist is None:
                if alone:
                    case, detail, kind = dict(case, kind=alone[0]), alone[1], alone[0]
                else:
                    run.obligation("mismatch-reproducible:%s" % kind, False, "document %r (%s) mismatched (%s) in its worker process but neither alone "
                                   "nor after the same earlier documents in a fresh process" % (case["raw"][:200], case["lang"], detail[:200]))
                    continue
            else:
                history = [{"doc": h["doc"], "raw": h["raw"], "lang": h["lang"]} for h in hist]
        if kind != "exception":
            doc, raw = shrink(src, case, history)
            case = dict(case, doc=doc, raw=raw)
            if len(history) <= 3:
                for j in range(len(history)):
                    hdoc, hraw = shrink(src, case, history, target=j)
                    history[j] = {"doc": hdoc, "raw": hraw, "lang": history[j]["lang"]}
                if history:
                    doc, raw = shrink(src, case, history)
                    case = dict(case, doc=doc, raw=raw)
            v = mismatch(src, case, history)
            if v:
                detail = v[1]
        else:
            doc, raw = case["doc"], case["raw"]
        # fingerprint = kind of mismatch + whether a line with more than 32 apostrophe runs is (still) involved in the MINIMISED
        # document (compute_path prunes to 32 states, styleanalyzer.py:102) + whether it needs earlier documents in the same process
        fp = "quotes:line-with-more-than-32-quote-runs" if _longq(raw) and kind in ("style", "dropped", "extra", "duplicated", "order") else kind
        if history:
            fp += ":after-other-documents"
        if fp not in hits or len(raw) < len(hits[fp][1]):
            hits[fp] = (doc, raw, case, detail, history)
    for fp in sorted(hits):
        doc, raw, case, detail, history = hits[fp]
        kind = case["kind"]
        after = "" if not history else " - in a process that has parsed %s before" % ", ".join("%r (%s)" % (h["raw"][:200], h["lang"]) for h in history)
        run.hit("c02:" + fp, "parse tree differs from the denotation (%s): %s; document (%s): %r%s" % (kind, detail, case["lang"], raw[:400], after),
                {"doc": doc, "raw": raw, "lang": case["lang"], "kind": kind, "detail": detail,
                 "history": [{"raw": h["raw"], "lang": h["lang"]} for h in history]})
    run.coverage["exhaustive"] = False
    run.coverage["input_distribution"] = {"documents_containing_block_kind": dict(stats), "leaves_per_document": dict(sizes),
                                          "documents_with_non_unique_leaf_family": dict(fams),
                                          "languages": dict(langs),
                                          "worker_processes": NSHARDS,
                                          "languages_interleaved_per_worker_process": min(
                                              len({d["lang"] for d in docs[k::NSHARDS]}) for k in range(NSHARDS))}


def replay(obj):
    src = core.snapshot()
    rp = obj["replay"]
    if "raw" not in rp:
        print(json.dumps(rp, indent=1))
        return 1
    res = run_impl(src, [{"id": 0, "raw": rp["raw"], "lang": rp.get("lang", "de"), "pre": rp.get("history") or []}], iso=True)
    r = res.get(0)
    for h in rp.get("history") or []:
        print("parsed before, same process (%s): %r" % (h["lang"], h["raw"]))
    print(rp["raw"])
    if r is None or "exc" in r:
        print("exception:", r)
        print("REPRODUCED")
        return 1
    v = compare(rp["doc"], r["tree"])
    print(v)
    print("REPRODUCED" if v else "not reproduced")
    return 1 if v else 0
