"""C09 -- opaque tags stay opaque.
Proof : coq/C09 (replace_tags / replace_uniq model, round trip, body verbatim, marker inert; marker atomic in the
        scanner model of coq/C10; entity decoding of nowiki/pre bodies over the resolve_entity model of coq/C01).
Tie   : extracted model vs Uniquifier.replace_tags/replace_uniq on generated texts.
Search: bodies over the markup alphabet (incl. entity-encoded spellings of markup) x tags x contexts (incl. transclusion through
        <pages>) through parse_string, tree oracle (nowiki/pre: every valid character reference decoded exactly once)."""
import json
import os
import re
import subprocess
from concurrent.futures import ThreadPoolExecutor

from vt import core
from vt.harness import c09_pages as pages

LEVEL = "proof"
PH = pages.PH
PROOF_DIRS = ["C01", "C10"]      # coq/C09/Scanner*.v use the scanner model of C10, EntModel.v the resolve_entity model of C01
OPAQUE = ["nowiki", "pre", "math", "source", "syntaxhighlight", "timeline"]

# --------------------------------------------------------------------------- search: generation

FRAGS = [
    # wiki inline markup
    "''i''", "'''b'''", "'''''", "'", "[[Link]]", "[[a|b]]", "[[", "]]", "[http://x.org t]", "http://x.org/a", "[", "]",
    # templates / parameters / parser functions
    "{{c}}", "{{c|x=1}}", "{{{1}}}", "{{{p|d}}}", "{{#if:1|y|n}}", "{{", "}}", "{{{", "}}}", "|", "=", "{{c",
    # html
    "<b>x</b>", "<i>", "</i>", "<br/>", "<div>", "</div>", "<ref>r</ref>", "<span title=\"t\">", "<", ">", "</", "/>",
    "<references/>", "<gallery>", "</gallery>", "<ref name=a/>",
    # comments
    "<!-- c -->", "<!--", "-->", "\n<!-- c -->\n",
    # entities
    "&amp;", "&lt;", "&gt;", "&#65;", "&#x41;", "&nbsp;", "&bogus;", "&", ";", "&amp;amp;", "&#;", "& x;",
    # block markup
    "\n", "\n\n", "\n* li", "\n# n", "\n: d", "\n; t", "\n{|\n| c\n|}", "{|", "|}", "|-", "||", "!", "!!", "|+",
    "== h ==", "\n== h ==\n", "----", "\n----\n", " ", "\n x", "\t",
    # magic
    "~~~~", "__TOC__", "ISBN 1234567890", "RFC 12", "mailto:a@b.c",
    # other protected / preprocessor tags (never the tag's own closing tag -- filtered below)
    "<nowiki>", "</nowiki>", "<math>", "</math>", "<pre>", "</pre>", "<source>", "</source>",
    "<syntaxhighlight>", "</syntaxhighlight>", "<timeline>", "</timeline>", "<nowiki/>", "<nowiki>n</nowiki>",
    "<noinclude>", "</noinclude>", "<includeonly>", "</includeonly>", "<onlyinclude>", "</onlyinclude>",
    "<noinclude>x</noinclude>", "<includeonly>x</includeonly>", "<onlyinclude>x</onlyinclude>",
    # plain
    "x", "word", "1", "a b", "é", " ", "\U0001F600", "UNIQ", "QINU",
]
# strings that look like numeric character references but are NOT (CPython's int() accepts sign, blanks, underscores,
# a 0x prefix, non-ASCII digits): util.replace_html_entities decodes them inside nowiki/pre on the unchanged /repo
# (defect reported with fixes/C09-entity-lenient-int.diff).  Part of the alphabet once that fix is committed:
# set ENTITY_FRAGS_ENABLED = True (VERIF_C09_ENTITY_FRAGS=1 enables them for one run).
ENTITY_FRAGS = ["&#+65;", "&# 65;", "&#6_5;", "&#x0x41;", "&#x 41;", "&#-0;", "&#\n65;", "&#\u0666\u0665;", "AT&T &lt;"]
ENTITY_FRAGS_ENABLED = True
if ENTITY_FRAGS_ENABLED or os.environ.get("VERIF_C09_ENTITY_FRAGS") == "1":
    FRAGS = FRAGS + ENTITY_FRAGS
# entity-ENCODED spellings (named / decimal / hex, zero padded, mixed case) of the opaque tags' own syntax and of other markup.
# Inside nowiki/pre they decode to text that LOOKS like markup; the property says it stays text (decoded once, nothing that only
# exists after decoding is interpreted or removed).  Inside math/source/syntaxhighlight/timeline they stay as written.
ENCODED_FRAGS = [
    "&lt;nowiki&gt;", "&lt;/nowiki&gt;", "&#60;NOWIKI&#62;", "&#60;/NOWIKI&#62;", "&#x3c;nowiki&#x3E;", "&#X3C;/NoWiki&#062;",
    "&lt;nowiki&gt;[[x]]&lt;/nowiki&gt;", "&#x3C;nowiki&#x3E;n&#x3C;/nowiki&#x3E;", "&lt;nowiki/&gt;",
    "&lt;pre&gt;", "&lt;/pre&gt;", "&#60;/PRE&#62;", "&lt;math&gt;x&lt;/math&gt;", "&lt;/math&gt;", "&#60;/source&#62;", "&lt;/syntaxhighlight&gt;",
    "&lt;/timeline&gt;", "&lt;ref&gt;r&lt;/ref&gt;", "&lt;b&gt;x&lt;/b&gt;", "&#60;br/&#62;", "&lt;!-- c --&gt;", "&#60;!--", "--&#62;",
    "&lt;noinclude&gt;x&lt;/noinclude&gt;", "&#60;includeonly&#62;",
    "&#91;&#91;Link&#93;&#93;", "&#x5b;&#x5B;a&#124;b&#x5d;&#x5D;", "&#123;&#123;c&#125;&#125;", "&#x7b;&#x7B;&#x7b;1&#x7D;&#x7d;&#x7D;",
    "&#39;&#39;i&#39;&#39;", "&#x27;&#x27;&#x27;b&#x27;&#x27;&#x27;", "&#10;* li", "&#x0A;== h ==&#x0a;", "&#123;&#124;", "&#126;&#126;&#126;&#126;",
    "&amp;lt;nowiki&amp;gt;", "&amp;lt;/nowiki&amp;gt;", "&#38;#60;", "&amp;#x5B;&#x26;#x5b;", "&#x7f;", "&#127;UNIQ",
    # written nowiki pairs in other letter cases / around entity-written ones (pre drops the written pair only)
    "<NOWIKI>N</NoWiki>", "<nowiki>&lt;nowiki&gt;</nowiki>", "<Nowiki>&lt;/nowiki&gt;</NOWIKI>",
]
FRAGS = FRAGS + ENCODED_FRAGS
FRAG_CLASS = {}
for _f in FRAGS:
    if "include" in _f:
        FRAG_CLASS[_f] = "pp"
    elif re.match(r"</?(nowiki|math|pre|source|syntaxhighlight|timeline)", _f):
        FRAG_CLASS[_f] = "tag"
    else:
        FRAG_CLASS[_f] = "m"

ATTRS = ["", "", "", " ", " lang=\"python\"", " a=b c='d'", " enclose=none", "\n x=1"]

CONTEXTS = {
    # name: (wikitext with %s for the tag, db or None, lambda T -> db)
    "top": ("QA %s QB", False),
    "alone": ("%s", False),
    "top+db": ("QA %s QB", True),
    "list": ("* i1\n* QA %s QB\n* i3", False),
    "list+db": ("* i1\n* QA %s QB\n* i3", True),
    "cell": ("{|\n|-\n| c1 || QA %s QB\n|-\n| c3\n|}", False),
    "cell+db": ("{|\n|-\n| c1 || QA %s QB\n|-\n| c3\n|}", True),
    "bold": ("'''QA %s QB''' QC", False),
    "bold+db": ("'''QA %s QB''' QC", True),
    "targ": ("QC {{echo|QA %s QB}} QD", True),
    "tnamed": ("QC {{echo|1=QA %s QB}} QD", True),
    "tbody": ("QC {{tb|ARG}} QD", "body"),
    "twice": ("QA %s QM @2 QB", False),          # @2 = a second region of the same tag
    "twice+db": ("* QA %s QM {{echo|@2}} QB", True),
    # transclusion through <pages index=.. from=.. to=../> (ParseUniq.create_pages: a second expander with its own marker table).
    # dbmode = {page title: text}; the region sits in a transcluded page; @2 = other regions of the SAME tag: in the article
    # (so that the article's table has regions of the same kind and running number 0, 1 as the transcluded pages' table), in an
    # earlier page of the same range, both, or none.
    "pages": ('QC <pages index="R" from=1 to=1 /> QD', {"R/1": "QA %s QB"}),
    "pages+outer": ('QE @2 QC <pages index="R" from=1 to=1 /> QD', {"R/1": "QA %s QB"}),
    "pages+outer2": ('* QE @2 QF @2\n<pages index="R" from=1 to=2 />\nQD', {"R/1": "QG @2 QH", "R/2": "QA %s QB"}),
    "pages+after": ('QC <pages index="R" from=2 to=2 /> QD @2', {"R/2": "{{echo|QA %s QB}}"}),
    # by title: the range is asked from the wiki (db.select); DictDB lower-cases its keys, so a caseless title
    "pages-by-title": ('@2 QC <pages from="7/1" to="7/2" /> QD', {"7/1": "QA %s QB", "7/2": "QG @2 QH"}),
}
THOROUGH_CONTEXTS = {
    "heading": ("== QA %s QB ==\ntext", False),
    "linkcap": ("[[Target|QA %s QB]]", False),
    "deflist": ("; term\n: QA %s QB", False),
    "div": ("<div>QA %s QB</div>", False),
    "italic+db": ("''QA %s QB''", True),
    "if": ("QC {{#if:1|QA %s QB}} QD", True),
    "targ2": ("QC {{echo|{{echo|QA %s QB}}}} QD", True),
    "caption": ("{|\n|+ QA %s QB\n|-\n| c\n|}", False),
    "blockquote": ("<blockquote>QA %s QB</blockquote>", False),
    "li-html": ("<ul><li>QA %s QB</li></ul>", False),
    "extlink": ("[http://x.org QA %s QB]", False),
    "imgcap": ("[[File:A.png|thumb|QA %s QB]]", False),
    "tablattr": ("{|\n|-\n| style=\"a\" | QA %s QB\n|}", False),
    "pre-sp": (" QA %s QB\n", False),
    "ref": ("QC<ref>QA %s QB</ref>", False),
    "ref+db": ("QC<ref>QA %s QB</ref>", True),
    "pages-in-ref": ('@2 QC<ref>QE <pages index="R" from=1 to=1 /> QF</ref>', {"R/1": "QA %s QB"}),
    "ref-in-pages": ('QE @2 <pages index="R" from=1 to=1 /> QD', {"R/1": "QC<ref>QA %s QB</ref> @2"}),
    "pages-in-pages": ('@2 QC <pages index="R" from=1 to=1 /> QD', {"R/1": 'QE @2 <pages index="S" from=1 to=1 /> QF', "S/1": "QA %s QB"}),
    "pages-tagfn": ('@2 QC {{#tag:pages||index=R|from=1|to=1}} QD', {"R/1": "QA %s QB"}),
    "pages-cell": ('{|\n|-\n| @2 || <pages index="R" from=1 to=1 />\n|}', {"R/1": "{|\n|-\n| QA %s QB\n|}"}),
}
BASE_DB = {"echo": "({{{1}}})", "c": "CCC", "Template:c": "CCC"}


def closes(tag, body):
    return re.search(r"</%s\s*>" % tag, body, re.I) is not None


def gen_body(rng, tag, maxfr):
    while True:
        n = rng.randint(1, maxfr)
        b = "".join(rng.choice(FRAGS) for _ in range(n))
        if b and not closes(tag, b) and "\x7f" not in b and PH not in b:
            return b


def tag_text(tag, attrs, body, variant):
    o, c = tag, tag
    if variant == "upper":
        o, c = tag.upper(), tag.upper()
    elif variant == "mixed":
        o, c = tag.capitalize(), tag.upper()
    elif variant == "space":
        c = tag + " "
    return "<%s%s>%s</%s>" % (o, attrs, body, c)


def make_case(i, tag, attrs, body, variant, ctx, contexts):
    tmpl, dbmode = contexts[ctx]
    other = "<%s>''QZ''</%s>" % (tag, tag)
    tmpl = tmpl.replace("@2", other)
    T = tag_text(tag, attrs, body, variant)
    Tp = tag_text(tag, attrs, PH, variant)
    if isinstance(dbmode, dict):       # the region is in a page of the wiki database (reached through <pages>)
        db, dbp = dict(BASE_DB), dict(BASE_DB)
        for title, text in dbmode.items():
            text = text.replace("@2", other)
            for d, t in ((db, T), (dbp, Tp)):
                d[title] = d["Page:" + title] = text.replace("%s", t)
        raw = rawp = tmpl
    elif dbmode == "body":
        db = dict(BASE_DB, tb="QA %s QB" % T)
        dbp = dict(BASE_DB, tb="QA %s QB" % Tp)
        raw = rawp = tmpl
    else:
        raw, rawp = tmpl % T, tmpl % Tp
        db = dbp = dict(BASE_DB) if dbmode else None
    return {"id": i, "tag": tag, "attrs": attrs, "variant": variant, "ctx": ctx, "body": body, "ph": PH,
            "raw": raw, "raw_ph": rawp, "db": db, "db_ph": dbp}


def body_classes(body):
    cl = set()
    if re.search(r"</?(noinclude|includeonly|onlyinclude)", body, re.I):
        cl.add("pp")
    if re.search(r"</?(nowiki|math|pre|source|syntaxhighlight|timeline)", body, re.I):
        cl.add("tag")
    if "<!--" in body:
        cl.add("comment")
    return cl


def gen_search_cases(rng, tier):
    contexts = dict(CONTEXTS)
    if tier == "thorough":
        contexts.update(THOROUGH_CONTEXTS)
    cases = []
    i = 0
    # 1. every single fragment x every tag x every context (systematic part)
    for tag in OPAQUE:
        for fr in FRAGS:
            if closes(tag, fr):
                continue
            for ctx in contexts:
                if tier == "quick" and rng.random() < 0.72:
                    continue
                if "ref" in ctx and closes("ref", fr):
                    continue      # the enclosing <ref> region would end there (leftmost region wins, as in MediaWiki)
                if ctx == "caption" and tag != "nowiki":
                    continue      # find_caption ends the caption at any non-text token (context limitation, not body dependent)
                cases.append(make_case(i, tag, "", fr, "plain", ctx, contexts))
                i += 1
    # 2. random bodies
    n = 2600 if tier == "quick" else 60000
    ctxs = sorted(contexts)
    for _ in range(n):
        tag = rng.choice(OPAQUE)
        body = gen_body(rng, tag, 5 if tier == "quick" else 8)
        attrs = rng.choice(ATTRS)
        variant = rng.choice(["plain", "plain", "plain", "upper", "mixed", "space"])
        ctx = rng.choice(ctxs)
        if (ctx == "caption" and tag != "nowiki") or ("ref" in ctx and closes("ref", body)):
            ctx = "cell"
        cases.append(make_case(i, tag, attrs, body, variant, ctx, contexts))
        i += 1
    # 3. entity-ENCODED markup: a markup string m (one paired construct, or 1..2 fragments) whose special characters are written
    #    as character references (per character: named / decimal / hex / padded, random letter case of the tag names in it).
    #    nowiki/pre must deliver m itself as TEXT; the other tags the encoded spelling untouched.
    #    systematic: every paired construct x 4 uniform styles x every tag; nowiki/pre in the core contexts always, the rest sampled
    core = ("top", "targ", "cell", "tbody", "pages+outer")
    for tag in OPAQUE:
        for m in ENC_PAIRED:
            for style in ENC_STYLES:
                body = encode_markup(None, m, style, 1.0)
                if closes(tag, body):
                    continue
                for ctx in contexts:
                    always = tag in ("nowiki", "pre") and ctx in core and style in ("named", "dec")
                    if not always and tier == "quick" and rng.random() < (0.9 if tag in ("nowiki", "pre") else 0.97):
                        continue
                    if ("ref" in ctx and closes("ref", m)) or (ctx == "caption" and tag != "nowiki"):
                        continue
                    cases.append(make_case(i, tag, "", body, "plain", ctx, contexts))
                    i += 1
    #    random: partially / mixed-style encoded concatenations, with plain text and real markup around them
    plain = [f for f in FRAGS if f not in ENCODED_FRAGS]
    for _ in range(700 if tier == "quick" else 20000):
        tag = rng.choice(["nowiki", "pre", "pre", rng.choice(OPAQUE)])
        while True:
            parts = []
            for _k in range(rng.randint(1, 3)):
                m = rng.choice(ENC_PAIRED) if rng.random() < 0.5 else "".join(rng.choice(plain) for _j in range(rng.randint(1, 2)))
                r = rng.random()
                parts.append(encode_markup(rng, m, rng.choice(ENC_STYLES + ("mixed", "mixed")), 1.0 if r < 0.6 else 0.6) if r < 0.85 else m)
            body = "".join(parts)
            if body and not closes(tag, body) and "\x7f" not in body and PH not in body:
                break
        ctx = rng.choice(ctxs)
        if (ctx == "caption" and tag != "nowiki") or ("ref" in ctx and closes("ref", body)):
            ctx = "cell"
        cases.append(make_case(i, tag, rng.choice(ATTRS), body, rng.choice(["plain", "plain", "upper"]), ctx, contexts))
        i += 1
    return cases


# paired / complete constructs whose encoded spelling must stay text inside nowiki/pre (the opaque tags' own syntax first)
ENC_PAIRED = ["<nowiki>n</nowiki>", "<nowiki>[[x]]</nowiki> and ''y''", "<NOWIKI>{{c}}</NOWIKI>", "<nowiki/>", "<pre>p</pre>", "<math>x^2</math>",
              "<source lang=\"c\">s</source>", "<syntaxhighlight>s</syntaxhighlight>", "<timeline>t</timeline>", "<ref>r</ref>", "<b>x</b>",
              "<!-- c -->", "<noinclude>x</noinclude>", "<includeonly>x</includeonly>", "[[Link]]", "[[a|b]]", "{{c}}", "{{{1}}}", "{{#if:1|y|n}}",
              "''i''", "'''b'''", "[http://x.org t]", "\n* li", "\n== h ==\n", "{|\n| c\n|}", "~~~~", "&amp;", "&lt;nowiki&gt;"]
ENC_STYLES = ("named", "dec", "hex", "HEX")
ENC_CHARS = "<>[]{}'|=&!-*#:;~/\n\""
ENC_NAMED = {"<": "lt", ">": "gt", "&": "amp", "\"": "quot"}


def encode_char(rng, ch, style):
    if style == "mixed":
        style = rng.choice(ENC_STYLES + ("pad", "PADHEX"))
    if style == "named" and ch in ENC_NAMED:
        return "&%s;" % ENC_NAMED[ch]
    if style == "hex":
        return "&#x%x;" % ord(ch)
    if style == "HEX":
        return "&#X%X;" % ord(ch)
    if style == "pad":
        return "&#%04d;" % ord(ch)
    if style == "PADHEX":
        return "&#x%04X;" % ord(ch)
    return "&#%d;" % ord(ch)


def encode_markup(rng, m, style, p):
    """m with its markup characters written as character references (each with probability p); with an rng the tag names in m
    also get a random letter case."""
    if rng is not None:
        m = re.sub(r"(?<=<)[a-z]+|(?<=</)[a-z]+", lambda mo: mo.group(0).upper() if rng.random() < 0.3 else mo.group(0), m)
    out = []
    for ch in m:
        if ch in ENC_CHARS and (p >= 1.0 or rng.random() < p):
            out.append(encode_char(rng, ch, style))
        else:
            out.append(ch)
    return "".join(out)


# --------------------------------------------------------------------------- search: running + triage

PP_RX = re.compile(r"</?(noinclude|includeonly|onlyinclude)(\s[^<>]*)?/?>", re.I)


def run_tree(cases, src, nproc):
    """Run the tree oracle on the real code (several harness processes)."""
    if not cases:
        return []
    nproc = max(1, min(nproc, (len(cases) + 199) // 200))
    chunks = [cases[i::nproc] for i in range(nproc)]

    def work(ch):
        inp = "".join(json.dumps(c) + "\n" for c in ch)
        rc, out = core.run_impl("vt.harness.c09_tree", [], src=src, input=inp, timeout=3000)
        res = {}
        for ln in out.splitlines():
            if ln.startswith("{"):
                r = json.loads(ln)
                res[r["id"]] = r
        if rc != 0 or len(res) != len(ch):
            raise RuntimeError("tree harness failed rc=%s got %d/%d: %s" % (rc, len(res), len(ch), out[-600:]))
        return res

    allres = {}
    with ThreadPoolExecutor(nproc) as ex:
        for res in ex.map(work, chunks):
            allres.update(res)
    return [allres[c["id"]] for c in cases]


def neutralise(case, what, contexts):
    """Variant of a failing case with one suspected cause removed from the body (attribution by difference)."""
    body = case["body"]
    if what == "pp":
        body2 = PP_RX.sub(lambda m: m.group(0).replace("<", "(").replace(">", ")"), body)
    elif what == "src":
        body2 = re.sub(r"(?i)</source", "(/source", body)
    elif what == "nl":
        body2 = body.replace("\n", " ").replace("|", "!")
    else:
        raise ValueError(what)
    if body2 == body:
        return None
    c = make_case(case["id"], case["tag"], case["attrs"], body2, case["variant"], case["ctx"], contexts)
    return c


def shrink(case, src, contexts, rounds=8, kinds=("mismatch",)):
    """Batched greedy deletion (one harness process per round) keeping the mismatch."""
    body = case["body"]
    for _ in range(rounds):
        cands = []
        for step in sorted({max(1, len(body) // 2), max(1, len(body) // 4), 2, 1}, reverse=True):
            for i in range(0, len(body), step):
                cand = body[:i] + body[i + step:]
                if cand and cand != body and not closes(case["tag"], cand) and cand not in cands:
                    cands.append(cand)
        if not cands:
            break
        cs = [make_case(j, case["tag"], case["attrs"], b, case["variant"], case["ctx"], contexts) for j, b in enumerate(cands)]
        rs = run_tree(cs, src, 4)
        failing = [c["body"] for c, r in zip(cs, rs) if not r["ok"] and r["kind"] in kinds]
        if not failing:
            break
        body = min(failing, key=len)
    return make_case(0, case["tag"], case["attrs"], body, case["variant"], case["ctx"], contexts)


# --------------------------------------------------------------------------- tie: generation

OTHER_NAMES = ["ref", "gallery", "poem", "imagemap", "pages", "rot13", "idl", "hiero", "time"]
NON_NAMES = ["b", "span", "prex", "nowikix", "sourc", "nowik", "references", "mat"]
TIE_ATTRS = ["", "", "", " ", " a=b", "\n", " /", "/", " a=/", " a<b", "\tx='y'", "x", " x", "\x1cq", " a=\"b\" c", "  ", " / ",
             " a>b", " z=1"]
EXOTIC = {"k": "K", "s": "ſ", "i": "İ", "I": "ı"}
RANDS = ["0123456789abcdef", "a", "deadbeefdeadbeef", "0000000000000000", "f0f0f0f0f0f0f0f0"]


def case_variant(rng, name):
    r = rng.random()
    if r < 0.55:
        return name
    if r < 0.7:
        return name.upper()
    if r < 0.85:
        return "".join(ch.upper() if rng.random() < 0.5 else ch for ch in name)
    # one exotic (non-ASCII) code point that re.IGNORECASE folds onto an ASCII letter
    idx = [i for i, ch in enumerate(name) if ch in "ksi"]
    if not idx:
        return name.capitalize()
    i = rng.choice(idx)
    ch = name[i]
    rep = EXOTIC[ch] if ch != "i" else rng.choice([EXOTIC["i"], EXOTIC["I"]])
    return name[:i] + rep + name[i + 1:]


def gen_tagpiece(rng, names):
    r = rng.random()
    if r < 0.7:
        name = rng.choice(OPAQUE)
    elif r < 0.82:
        name = rng.choice(OTHER_NAMES)
    elif r < 0.9:
        name = rng.choice(names)
    else:
        name = rng.choice(NON_NAMES)
    o = case_variant(rng, name)
    attrs = rng.choice(TIE_ATTRS)
    body = "".join(rng.choice(FRAGS) for _ in range(rng.randint(0, 3)))
    if rng.random() < 0.15:
        body = body + "<" + name + ">" + rng.choice(FRAGS)          # nested same-name opening
    t = rng.random()
    if t < 0.12:
        return "<%s%s/>" % (o, attrs)                               # self-closing
    if t < 0.24:
        return "<%s%s>%s" % (o, attrs, body)                        # unclosed
    if t < 0.30:
        return "<%s%s>%s</%s>" % (o, attrs, body, rng.choice(OPAQUE + NON_NAMES))   # closed by another tag
    c = case_variant(rng, name) if rng.random() < 0.5 else o
    ws = rng.choice(["", "", "", " ", "\n", " \t", " ", "x", "/"])
    tail = ""
    if rng.random() < 0.2:
        tail = rng.choice(FRAGS) + "</%s>" % name                   # a second closing tag (non-greedy body)
    return "<%s%s>%s</%s%s>%s" % (o, attrs, body, c, ws, tail)


def gen_comment(rng):
    pre = rng.choice(["", "", "\n", "\n  ", " ", "x\n", "\n\n", "\n \n"])
    inner = rng.choice(["", "c", "-", "->", "--", " <nowiki>x</nowiki> ", "\n", " a\nb ", "<!--", "<math>", "</math>"])
    close = rng.choice(["-->", "-->", "-->", "-->", "", "--->", "-- >"])
    post = rng.choice(["", "", "\n", "  \n", " ", " x", "\n\n", "\n<!--d-->\n"])
    return pre + "<!--" + inner + close + post


def gen_markerlike(rng, rand, k0):
    name = rng.choice(["nowiki", "math", "pre", "x", "NOWIKI", "a-b", "", "ſource", "r2d2"])
    num = rng.choice([str(k0), str(k0 + 1), "0", "7", "", "١", "1٢", "x", "007"])
    rnd = rng.choice([rand, rand, "abc", "ABC", "", "g", rand + "0"])
    head = rng.choice(["\x7fUNIQ-", "\x7fUNIQ-", "\x7fUNIQ-", "UNIQ-", "\x7funiq-", "\x7f"])
    tail = rng.choice(["-QINU\x7f", "-QINU\x7f", "-QINU\x7f", "-QINU", "-qinu\x7f", "\x7f"])
    return head + name + "-" + num + "-" + rnd + tail


def gen_tie_case(rng, i, names, tier):
    rand = rng.choice(RANDS)
    k0 = rng.choice([0, 0, 0, 1, 9, 10, 99, 123])
    parts = []
    for _ in range(rng.randint(1, 5 if tier == "quick" else 7)):
        r = rng.random()
        if r < 0.5:
            parts.append(gen_tagpiece(rng, names))
        elif r < 0.68:
            parts.append(gen_comment(rng))
        elif r < 0.93:
            parts.append("".join(rng.choice(FRAGS) for _ in range(rng.randint(1, 3))))
        else:
            parts.append(gen_markerlike(rng, rand, k0))
    text = "".join(parts)
    probe = "".join(rng.choice([gen_markerlike(rng, rand, k0), "\x7fUNIQ-%s-%d-%s-QINU\x7f" % (rng.choice(OPAQUE), k0 + rng.randint(0, 2), rand),
                                rng.choice(FRAGS)]) for _ in range(rng.randint(0, 4)))
    return {"id": i, "rand": rand, "k0": k0, "text": text, "probe": probe}


def systematic_tie_cases(start):
    """tags x attribute forms x termination forms, one occurrence (exhaustive small part)."""
    cases = []
    i = start
    for tag in OPAQUE + ["ref", "b"]:
        for attrs in TIE_ATTRS:
            for form in ["<%s%s>''b''</%s>", "<%s%s/>", "<%s%s>x", "<%s%s>a<%s>b</%s>c</%s>", "<%s%s>x</%s >", "<%s%s></%s>"]:
                n = form.count("%s")
                args = [tag, attrs] + [tag] * (n - 2)
                for up in (False, True):
                    if up:
                        args[0] = tag.upper()
                    cases.append({"id": i, "rand": RANDS[0], "k0": 0, "text": "p " + form % tuple(args) + " q", "probe": ""})
                    i += 1
    return cases


# --------------------------------------------------------------------------- tie: running

def model_run(exe, cases):
    lines = "".join("|".join([core.cps(c["rand"]), core.cps(str(c["k0"])), core.cps(c["text"]), core.cps(c["probe"])]) + "\n" for c in cases)
    p = subprocess.run([exe], input=lines, capture_output=True, text=True, timeout=3000)
    res = []
    for ln in p.stdout.splitlines():
        f = [core.uncps(x) for x in ln.split("|")]
        if ln == "ERR" or len(f) < 5 or (len(f) - 5) % 5:
            res.append(None)
            continue
        res.append({"protected": f[0], "restored": f[1], "probe_restored": f[2], "tuniq": f[3] == "\x01", "tok": f[4] == "\x01",
                    "table": [f[5 + 5 * j: 10 + 5 * j] for j in range((len(f) - 5) // 5)]})
    if len(res) != len(cases):
        raise RuntimeError("model driver returned %d/%d lines: %s" % (len(res), len(cases), p.stderr[-500:]))
    return res


def impl_run(cases, src):
    inp = "".join(json.dumps(c) + "\n" for c in cases)
    rc, out = core.run_impl("vt.harness.c09_impl", ["tie"], src=src, input=inp, timeout=3000)
    res = [json.loads(ln) for ln in out.splitlines() if ln.startswith("{")]
    if rc != 0 or len(res) != len(cases):
        raise RuntimeError("impl harness failed rc=%s got %d/%d: %s" % (rc, len(res), len(cases), out[-600:]))
    return res


T_UNIQ_RX = re.compile("\x7fUNIQ-[a-z0-9]+-[0-9]+-[0-9a-f]+-QINU\x7f")      # _uscan.re:258
SPECIALS = set("{}[]|=<>")


class _Collect:
    def __init__(self):
        self.hits = {}

    def hit(self, fingerprint, what, replay):
        old = self.hits.get(fingerprint)
        if old is None or len(replay["case"]["text"]) < len(old[1]["case"]["text"]):
            self.hits[fingerprint] = (what, replay)


def roundtrip_monitor(run, c, r):
    """The property's own oracle on replace_tags/replace_uniq of the real code (no model involved)."""
    t = c["text"]
    if "\x7f" in t or "error" in r:
        return
    exotic = any(ch in t for ch in EXOTIC.values())
    if "\x7f" in r["restored"]:
        fp = "roundtrip:nonascii-casefold-tagname" if exotic else "roundtrip:marker-survives:" + json.dumps(t)
        run.hit(fp, "replace_uniq(replace_tags(t)) still contains a marker: the region is lost (text %r)" % t[:120],
                {"kind": "roundtrip", "case": c})
    elif "<!--" not in t and not re.search(r"(?i)<nowiki", t) and not exotic and r["restored"] != t:
        run.hit("roundtrip:not-lossless:" + json.dumps(t), "text without comments/nowiki is changed by protect+restore: %r -> %r" % (t[:120], r["restored"][:120]),
                {"kind": "roundtrip", "case": c})
    for m, tag, _vl, _in, _co in r["table"]:
        if re.fullmatch("[a-z0-9]+", tag):
            if not T_UNIQ_RX.fullmatch(m) or SPECIALS & set(m) or any(ch.isspace() for ch in m):
                run.hit("marker:malformed:" + json.dumps(m), "marker %r is not a single t_uniq token / not inert" % m, {"kind": "roundtrip", "case": c})


MARKER_RX = re.compile("\x7fUNIQ-[a-z0-9]+-[0-9]+-[0-9a-f]+-QINU\x7f")


def regions_monitor(c, r):
    """By-construction oracle for texts sep0 R0 sep1 R1 .. ('<'-free separators, regions known): every region is
    attributed separately -- the marker standing at the place of region i resolves, in the table of the real
    Uniquifier, to region i's own tag name, attributes and body, and restoring gives back region i's own source
    (its body for nowiki).  Returns None or (what, index)."""
    exp, seps = c["expect"], c["seps"]
    if "error" in r:
        return None
    tab = {e[0]: e for e in r["table"]}
    pos = 0
    prot = r["protected"]
    for i, (tag, vlist, inner, complete) in enumerate(exp):
        if not prot.startswith(seps[i], pos):
            return ("surrounding text changed before region %d: %r" % (i, prot[pos:pos + 60]), i)
        pos += len(seps[i])
        m = MARKER_RX.match(prot, pos)
        if not m:
            return ("region %d <%s> is not replaced by a marker: %r" % (i, tag, prot[pos:pos + 60]), i)
        e = tab.get(m.group(0))
        if e is None:
            return ("marker of region %d is not in the table" % i, i)
        if [e[1], e[2], e[3], e[4]] != [tag, vlist, inner, complete]:
            return ("the marker at the place of region %d resolves to <%s%s> body %r source %r, but the region written there is <%s%s> body %r"
                    % (i, e[1], e[2], e[3][:80], e[4][:80], tag, vlist, inner[:80]), i)
        pos = m.end()
    if prot[pos:] != seps[len(exp)]:
        return ("surrounding text changed after the last region: %r" % prot[pos:pos + 60], len(exp))
    want = "".join(s + e[3] for s, e in zip(seps, exp)) + seps[len(exp)]
    if r["restored"] != want:
        return ("restored text %r, expected %r" % (r["restored"][:120], want[:120]), 0)
    return None


def shrink_region_case(c, src):
    """minimise a failing by-construction case: normalise separators, then drop regions / shrink bodies."""
    spec = c["spec"]
    n = len(spec["regions"])

    def mk(sf_list, seps_of):
        return [pages.make_region_tie_case(j, s, seps_of(s), c["rand"], c["k0"]) for j, (s, _f) in enumerate(sf_list)]

    def fails_with(seps_of):
        def fails(sf_list):
            cs = mk(sf_list, seps_of)
            rs = impl_run(cs, src)
            return [regions_monitor(cc, rr) is not None or "error" in rr for cc, rr in zip(cs, rs)]
        return fails

    plain = lambda s: [" "] * (len(s["regions"]) + 1)      # noqa: E731
    if fails_with(plain)([(spec, None)])[0]:
        spec2, _ = pages.shrink(spec, None, fails_with(plain))
        return pages.make_region_tie_case(0, spec2, plain(spec2), c["rand"], c["k0"])
    return c


def run_tie(run, cases, exe, src):
    ires = impl_run(cases, src)
    mres = model_run(exe, cases) if exe else [None] * len(cases)
    dis = []
    coll = _Collect()
    stats = {"tags_protected": 0, "comments": 0, "no_match": 0, "with_0x7f": 0, "exotic_fold": 0, "unclosed_or_selfclosing_text": 0}
    misattributed = []
    for c, a, m in zip(cases, ires, mres):
        t = c["text"]
        key = (c["rand"], c["k0"], t, c["probe"])
        if "error" in a:
            run.hit("replace_tags-exception:" + a["error"][:60], "replace_tags/replace_uniq raised %s on %r" % (a["error"], t[:120]), {"kind": "roundtrip", "case": c})
            continue
        ntags = len(a["table"])
        stats["tags_protected"] += ntags
        stats["comments"] += t.count("<!--")
        stats["no_match"] += (ntags == 0 and a["protected"] == t)
        stats["with_0x7f"] += ("\x7f" in t)
        stats["exotic_fold"] += any(ch in t for ch in EXOTIC.values())
        run.count(key, nontrivial=(ntags > 0 or a["protected"] != t))
        bad = None
        if "expect" in c:
            stats["multi_region_texts"] = stats.get("multi_region_texts", 0) + 1
            bad = regions_monitor(c, a)
            if bad:
                misattributed.append((c, bad[0]))      # minimised below
        if not bad:
            roundtrip_monitor(coll, c, a)
        if m is None:
            if exe:
                dis.append("model driver error on %r" % t[:100])
            continue
        for fld in ("protected", "restored", "probe_restored"):
            if a[fld] != m[fld]:
                dis.append("%s differs on %s: impl %r model %r" % (fld, json.dumps(c), a[fld][:160], m[fld][:160]))
                break
        else:
            if [list(x) for x in a["table"]] != m["table"]:
                dis.append("table differs on %s: impl %r model %r" % (json.dumps(c), a["table"][:3], m["table"][:3]))
        if ntags and len(run.samples) < 3 and len(t) < 80:
            run.sample({"tie_text": t, "protected": a["protected"], "restored": a["restored"], "table": a["table"][:2]})
    for fp, (what, rp) in sorted(coll.hits.items()):
        run.hit(fp, what, rp)
    # several regions on one page: minimise the smallest few misattributed texts, report distinct minima
    misattributed.sort(key=lambda cw: (len(cw[0]["text"]), cw[0]["text"]))
    seen = set()
    for c, what in misattributed[:3]:
        m = shrink_region_case(c, src)
        fp = "regions:misattributed:" + json.dumps(m["text"])
        if fp in seen:
            continue
        seen.add(fp)
        bad = regions_monitor(m, impl_run([m], src)[0])
        run.hit(fp, "several protected regions in one text are not attributed separately (%d such texts): %r: %s"
                % (len(misattributed), m["text"], (bad or (what,))[0]), {"kind": "roundtrip", "case": m})
    stats["multi_region_misattributed"] = len(misattributed)
    return dis, stats


PRE_PIECES = ["<nowiki>", "</nowiki>", "<NOWIKI>", "</NoWiki>", "<nowi\u212aI>", "</now\u0131ki>", "<now\u0130ki>", "<nowiki >", "</nowiki >", "<nowiki/>",
              "<nowiki", "nowiki>", "</", "<", ">", "&lt;nowiki&gt;", "&lt;/nowiki&gt;", "&#60;NOWIKI&#62;", "&#60;/nowiki&#x3e;", "x", "''y''", "[[x]]", "\n", " ",
              "&amp;", "<pre>", "<\u017fource>", "\u212a", "\u0131", "<nowiki>n</nowiki>", "<NOWIKI></NOWIKI>"]


def gen_pre_tie_cases(rng, n):
    cases, seen = [], set()
    for a in PRE_PIECES:              # systematic: every piece alone and every ordered pair around a filler
        for b in [None] + PRE_PIECES:
            t = a if b is None else a + "q" + b
            if t not in seen:
                seen.add(t)
                cases.append(t)
    while len(cases) < n + len(PRE_PIECES) * (len(PRE_PIECES) + 1):
        t = "".join(rng.choice(PRE_PIECES) for _ in range(rng.randint(1, 7)))
        if t not in seen:
            seen.add(t)
            cases.append(t)
    return [{"id": i, "text": t} for i, t in enumerate(cases)]


def run_pre_tie(run, cases, exe, src):
    inp = "".join(json.dumps(c) + "\n" for c in cases)
    rc, out = core.run_impl("vt.harness.c09_impl", ["pre"], src=src, input=inp, timeout=3000)
    ires = [json.loads(ln) for ln in out.splitlines() if ln.startswith("{")]
    if rc != 0 or len(ires) != len(cases):
        raise RuntimeError("impl harness (pre) failed rc=%s got %d/%d: %s" % (rc, len(ires), len(cases), out[-600:]))
    if not exe:
        return ["no extracted model"]
    lines = "".join("1|" + core.cps(c["text"]) + "\n" for c in cases)
    p = subprocess.run([exe], input=lines, capture_output=True, text=True, timeout=3000)
    mres = p.stdout.splitlines() if p.stdout.endswith("\n") else []
    if len(mres) != len(cases):
        return ["model driver returned %d/%d lines: %s" % (len(mres), len(cases), p.stderr[-300:])]
    dis = []
    changed = 0
    for c, a, m in zip(cases, ires, mres):
        t = c["text"]
        if "error" in a:
            run.hit("remove_nowiki_tags-exception:" + a["error"][:60], "util.remove_nowiki_tags raised %s on %r" % (a["error"], t[:120]),
                    {"kind": "pre", "case": c})
            continue
        changed += a["out"] != t
        run.count(("pre", t), nontrivial=(a["out"] != t or "nowiki" in t.lower()))
        mo = None if m == "ERR" else core.uncps(m)
        if mo != a["out"]:
            dis.append("remove_nowiki_tags differs on %r: impl %r model %r" % (t, a["out"], mo))
        # the property's own oracle on the real function: without a literal '<' nothing is removed; what is removed is only
        # written <nowiki> / </nowiki> parts: the output is a subsequence of the input and the removed length is a multiple of
        # what pairs account for (17 characters per pair)
        if "<" not in t and a["out"] != t:
            run.hit("pre:removed-without-written-tag:" + json.dumps(t), "remove_nowiki_tags changes a text without '<': %r -> %r" % (t, a["out"]),
                    {"kind": "pre", "case": c})
        elif (len(t) - len(a["out"])) % 17 or not is_subsequence(a["out"], t):
            run.hit("pre:not-only-pairs-removed:" + json.dumps(t), "remove_nowiki_tags removes something else than written nowiki pairs: %r -> %r" % (t, a["out"]),
                    {"kind": "pre", "case": c})
    run.coverage["pre_tie_distribution"] = {"cases": len(cases), "changed_by_remove_nowiki_tags": changed}
    return dis


def is_subsequence(a, b):
    it = iter(b)
    return all(ch in it for ch in a)


# --------------------------------------------------------------------------- the check

def generate(src):
    from vt.gen import c01_resolve, c09_tables, c10_rules
    c10_rules.generate(src)        # C10/Gen_rules.v  (rule table of _uscan.re: used by C09/Scanner*.v)
    c01_resolve.generate(src)      # C01/Gen_resolve.v (except clause + surrogate guard of resolve_entity: used by C09/EntModel.v)
    return c09_tables.generate(src)


def build():
    return core.ocaml_build("c09", "C09/Extract.v", "driver.ml")


KNOWN_CLASSES = {
    "pp": ("opacity:preprocessor-tag-in-protected-body",
           "<noinclude>/<includeonly>/<onlyinclude> inside a protected body are interpreted (templ/scanner.py runs pp.preprocess before replace_tags)"),
    "src": ("opacity:syntaxhighlight-body-reparsed-as-source",
            "</source> inside <syntaxhighlight> ends the body: tagext.Syntaxhighlight re-parses '<source>body</source>'"),
    "nl": ("opacity:table-caption-newline-or-pipe-in-protected-body",
           "a leading newline / a lone | inside a protected body in a table caption line (|+) ends the caption / starts its attribute "
           "part: parse_table.find_caption tests token.text instead of the token type"),
    "ref-nodb": ("opacity:ref-without-wikidb-marker-unresolved",
                 "a protected region inside <ref> is lost when parsing without wikidb: create_ref expands through the default "
                 "Expander's own Uniquifier, parse_txt looks the marker up in another one"),
}


def check(run):
    run.rule = ("search: wikitext = context[<tag attrs>body</tag>], tag in {nowiki,pre,math,source,syntaxhighlight,timeline}; body = every single "
                "fragment of a %d-fragment markup alphabet (systematic part, sampled 28%% in quick, all in thorough) and random concatenations of "
                "1..5 (quick) / 1..8 (thorough) fragments not containing the tag's own closing tag nor 0x7f; the alphabet includes entity-ENCODED spellings "
                "(named, decimal, hex, padded, mixed case) of the opaque tags' own syntax and of other markup, doubly escaped ones, and references to 0x7f; "
                "entity-encoded family: %d paired constructs (nowiki/pre/math/.. pairs, links, templates, comments, html, block markup) x 4 uniform "
                "encodings x 6 tags x contexts (nowiki/pre in 5 core contexts always, the rest sampled in quick) + random partially/mixed-style encoded "
                "concatenations with real markup around them (700 quick / 20000 thorough); "
                "%d contexts (top level, alone, list item, two regions of the same tag, "
                "table cell, bold, each with and without a template universe, positional/named template argument, template body, and 5 transclusions through "
                "<pages index=.. from=.. to=../> / <pages from=title to=title/> of wiki-database pages that hold the region, with 0..2 regions of the SAME tag in "
                "the article before/after the <pages> tag and in an earlier page of the range, so that the article's and the transcluded pages' marker "
                "tables have entries of the same tag and running number), thorough adds %d "
                "more (heading, link caption, definition list, div, italic, #if, nested template argument, table caption, blockquote, html list, "
                "external link, image caption, cell with attributes, space-indented line, <ref> with/without wikidb, <pages> inside <ref>, <ref> inside a "
                "transcluded page, <pages> inside a transcluded page, {{#tag:pages}}, table in a transcluded page); oracle: tree(context[body]) = "
                "tree(context[placeholder]) with the placeholder leaf replaced by the body -- for nowiki/pre by the body with every valid character "
                "reference decoded exactly once (pre: after removing the nowiki pairs literally written in it): nothing that only exists after decoding "
                "is interpreted, removed or decoded again, and every valid reference IS decoded. "
                "multi-region pages: 2..4 protected regions on one page (6 layouts, regions on the page / in a template argument / in a template body / in a page "
                "transcluded through <pages> (consecutive ones share one range = one second marker table), with and "
                "without template universe) where each further region is with probability 3/4 RELATED to an earlier one -- a <nowiki>/<pre>/.. wrapped copy of "
                "its complete source, the same body under another tag, the same tag+body with other attributes, the very same region -- in either order, plus a "
                "systematic part (every base tag in the 6 opaque + ref, poem x every wrapper tag x both orders x 3 placements; every pair of opaque tags, "
                "same tag included, one in the article and one in a <pages>-transcluded page, both orders; nowiki-wrapped copies across that border); every opaque region of a page is "
                "the focus of one tree-oracle case (only its own body -> placeholder, copies keep their text) so each region is attributed separately. "
                "tie: the same related-region pages as flat texts with '<'-free separators, where the regions are known by construction: the marker at the "
                "place of region i must resolve to region i's own (tag, attributes, body, source) in the real table, and restore to its own source; "
                "texts of 1..5 pieces (tag occurrence with attribute/termination/case variants, comment with newline/space borders, markup text, "
                "marker-like strings) + a systematic tags x attribute forms x termination forms part. distinct = distinct input; "
                "non-trivial = at least one region replaced (tie) / every search case (all bodies contain markup)"
                % (len(FRAGS), len(ENC_PAIRED), len(CONTEXTS), len(THOROUGH_CONTEXTS)))
    run.trusted = ["Coq 8.16.1 kernel (coqc); vm_compute for the table obligations and the Examples",
                   "extraction (ExtrOcamlBasic directives only) + ocaml/c09/driver.ml",
                   "hand-written transcription of the replace_tags regex, replace_uniq, get_uniq (coq/C09/Model.v); tie = differential run; the regex "
                   "shape, its flags, the tag-name alternation, the marker format, the t_uniq rule text and SPLIT_PATTERN are re-read from the snapshot "
                   "on every run (vt/gen/c09_tables.py, fail-closed)",
                   "CPython re: backtracking semantics of the transcribed pattern (leftmost, alternatives in order); its \\s, \\d, IGNORECASE and "
                   "lower tables are tabulated from the running interpreter into Gen_tables.v, not assumed",
                   "the tree oracle (vt/harness/c09_tree.py): node serialisation and placeholder alignment",
                   "coq/C10 scanner model + vt/gen/c10_rules.py (rule table regenerated here too) and coq/C01 resolve_entity model + vt/gen/c01_resolve.py, "
                   "imported by coq/C09/Scanner*.v and EntModel.v; the shape of util.replace_html_entities / create_nowiki / create_pre is pinned by "
                   "vt/gen/c09_tables.py (fail-closed), the entity model itself is not run differentially (the tree oracle's own decoder is independent of it)"]
    run.assumptions = ["C09_marker_atomic (scan level) needs the context pre_ok u: in front of the marker only earlier complete markers and stretches "
                       "without NUL/0x7f in which every '<' is closed by a later '>' (i.e. the marker is not inside an html tag or comment token); "
                       "the scanner is C10's model (tied to _uscan.cc by C10's differential run)",
                       "tree-level opacity is established by search only, in the listed contexts",
                       "round trip is stated for texts without 0x7f and without the four non-ASCII code points that re.IGNORECASE folds onto i, k, s",
                       "entity decoding: int() and html.entities are Section variables of coq/C01's resolve_entity (any int(), any table in range); "
                       "'only VALID references change' needs pyint_strict, which CPython's int() does not satisfy on the lenient pattern '&[^;]*;' "
                       "(C09_entity_lenient_int_refuted; fixes/C09-entity-lenient-int.diff); remove_nowiki_tags (pre) is modelled in coq/C09/PreModel.v "
                       "(shape and order pinned by the translator, IGNORECASE folds regenerated, run against the real function)"]
    src = core.snapshot()
    info = {}

    def gen():
        info.update(generate(src))
    run.check_proofs("C09", gen=gen, dirs=PROOF_DIRS)
    try:
        exe = build()
    except Exception as e:      # fail-closed for the verdict, but the monitors below still run on the real code
        exe = None
        run.obligation("extracted model builds", False, "%s: %s" % (type(e).__name__, str(e)[-300:]))
    tier = run.tier
    names = info.get("names") or OPAQUE

    # ---- corpus first
    corpus = os.path.join(core.VERIF, "corpus", "C09")
    ctie, ctree = [], []
    if os.path.isdir(corpus):
        for fn in sorted(os.listdir(corpus)):
            obj = json.load(open(os.path.join(corpus, fn)))
            (ctie if obj.get("kind") == "roundtrip" else ctree).append(obj["case"])

    # ---- tie: model vs Uniquifier
    cases = [dict(c, id=-1 - i) for i, c in enumerate(ctie)]
    cases += systematic_tie_cases(0)
    n = 2200 if tier == "quick" else 120000
    base = len(cases)
    cases += [gen_tie_case(run.rng, base + i, names, tier) for i in range(n)]
    # texts with several related regions ('<'-free separators: regions known by construction, see regions_monitor)
    base = len(cases)
    rspecs = [dict(sp, layout="top", db=False, regions=[dict(r, place="page") for r in sp["regions"]])
              for sp in pages.systematic_pages(lambda tag, k: pages.SIMPLE_BODIES[k % len(pages.SIMPLE_BODIES)])
              if sp["layout"] == "top" and not sp["db"]]
    rspecs += [pages.gen_page(run.rng, FRAGS, ATTRS + [" a=b", "\tx='y'"], 3, places=False) for _ in range(700 if tier == "quick" else 30000)]
    for sp in rspecs:
        sp["db"] = False
        seps = [run.rng.choice(pages.TIE_SEPS) for _ in range(len(sp["regions"]) + 1)]
        cases.append(pages.make_region_tie_case(base, sp, seps, run.rng.choice(RANDS), run.rng.choice([0, 0, 1, 9, 10])))
        base += 1
    dis, stats = run_tie(run, cases, exe, src)
    run.tie("Uniquifier.replace_tags / replace_uniq vs extracted protect / restore (text, table, restored text, probe)", len(cases), dis)
    run.coverage["tie_distribution"] = stats

    # ---- tie 2: util.remove_nowiki_tags (the <pre> body step) vs the extracted remove_nowiki_tags of coq/C09/PreModel.v
    pcases = gen_pre_tie_cases(run.rng, 1500 if tier == "quick" else 40000)
    pdis = run_pre_tie(run, pcases, exe, src)
    run.tie("util.remove_nowiki_tags vs extracted remove_nowiki_tags (pairs written in any letter case incl. the non-ASCII folds, unclosed, "
            "nested, entity-written pairs, newlines)", len(pcases), pdis)

    # ---- model-level finite obligations that depend on the generated tables
    mres = model_run(exe, [c for c in cases[:400]]) if exe else []
    bad = [c["text"] for c, m in zip(cases[:400], mres) if m and not (m["tuniq"] and m["tok"])
           and all(re.fullmatch("[a-z0-9]+", e[1]) for e in m["table"])]
    if not exe:
        bad = ["no extracted model"]
    run.obligation("extracted: every produced marker is one t_uniq token and one template text token", not bad, "; ".join(map(repr, bad[:3])))

    # ---- search on the real parser
    contexts = dict(CONTEXTS)
    if tier == "thorough":
        contexts.update(THOROUGH_CONTEXTS)
    scases = gen_search_cases(run.rng, tier)
    contexts = dict(CONTEXTS)
    contexts.update(THOROUGH_CONTEXTS)      # corpus cases may use any context: attribution/shrinking know them all
    for i, c in enumerate(ctree):
        c = dict(c, id=len(scases))
        scases.append(c)
    # pages with several related regions; every opaque region of a page is the focus of one case
    mspecs = pages.systematic_pages(lambda tag, k: pages.SIMPLE_BODIES[k % len(pages.SIMPLE_BODIES)])
    mspecs += [pages.gen_page(run.rng, FRAGS, ATTRS, 3 if tier == "quick" else 5) for _ in range(900 if tier == "quick" else 25000)]
    n_single = len(scases)
    for sp in mspecs:
        for f in pages.foci(sp):
            scases.append(pages.make_case(len(scases), sp, f))
    nproc = 4 if tier == "quick" else 16
    sres = run_tree(scases, src, nproc)
    kinds = {}
    failing = []
    for c, r in zip(scases, sres):
        kinds[r["kind"]] = kinds.get(r["kind"], 0) + 1
        run.count(("tree", c["tag"], c["attrs"], c["variant"], c["ctx"], c["body"]), nontrivial=True)
        if r["kind"] == "harness_error":
            raise RuntimeError("tree harness error: " + r["why"])
        if not r["ok"]:
            failing.append((c, r))
        elif len(run.samples) < 6 and c["ctx"] in ("targ", "cell") and len(c["body"]) > 12:
            run.sample({"wikitext": c["raw"], "db": c["db"], "leaf": r.get("leaf")})
    # attribution by difference: does the mismatch disappear when the suspected construct is neutralised?
    attributed = {}
    multi_failing = [(c, r) for c, r in failing if "spec" in c]
    failing = [(c, r) for c, r in failing if "spec" not in c]
    for c, r in failing:
        if c["ctx"] == "ref" and (r["kind"] == "lost" or "UNIQ-" in r["why"]):
            attributed[id(c)] = "ref-nodb"
    for what in ("pp", "src", "nl"):
        todo = []
        for c, r in failing:
            if id(c) in attributed:
                continue
            if what == "src" and c["tag"] != "syntaxhighlight":
                continue
            if what == "nl" and c["ctx"] != "caption":
                continue
            v = neutralise(c, what, contexts) if c["ctx"] in contexts else None
            if v is not None:
                todo.append((c, r, v))
        if not todo:
            continue
        vres = run_tree([dict(v, id=j) for j, (_c, _r, v) in enumerate(todo)], src, nproc)
        for (c, r, v), vr in zip(todo, vres):
            if vr["ok"]:
                attributed[id(c)] = what
    by_class = {}
    for c, r in failing:
        cls = attributed.get(id(c), "other")
        by_class.setdefault(cls, []).append((c, r))
    for cls, lst in sorted(by_class.items(), key=lambda kv: (kv[0] not in KNOWN_CLASSES, kv[0])):
        lst.sort(key=lambda cr: (len(cr[0]["body"]), cr[0]["ctx"], cr[0]["tag"]))
        if cls in KNOWN_CLASSES:
            fp, what = KNOWN_CLASSES[cls]
            c, r = lst[0]
            run.hit(fp, "%s; %d cases, smallest: tag %s, context %s, body %r: %s" % (what, len(lst), c["tag"], c["ctx"], c["body"], r["why"][:200]),
                    {"kind": "tree", "case": c, "why": r["why"]})
        else:
            seen = set()
            # independent faults (different create_* handlers, different manifestations such as a raw marker vs a silent body
            # swap) must not hide each other: greedy pick of 3 cases (vt/core reports at most 5 hits per run), each time the
            # smallest case with the most novelty (tag not yet picked, context not yet picked)
            picked, tags_seen, ctx_seen = [], set(), set()
            pool = list(lst)
            while pool and len(picked) < 3:
                best = max(pool, key=lambda cr: (cr[0]["tag"] not in tags_seen) + (cr[0]["ctx"] not in ctx_seen))   # first maximal = smallest
                picked.append(best)
                tags_seen.add(best[0]["tag"])
                ctx_seen.add(best[0]["ctx"])
                pool = [cr for cr in pool if cr is not best]
            for c, r in picked:
                m = shrink(c, src, contexts, kinds=(r["kind"],)) if c["ctx"] in contexts else c
                fp = "opacity:%s:%s:%s" % (m["tag"], m["ctx"], json.dumps(m["body"]))
                if fp in seen:
                    continue
                seen.add(fp)
                if m is not c:
                    r2 = run_tree([dict(m, id=0)], src, 1)[0]      # the diagnosis of the minimised case
                    r = r2 if not r2["ok"] else r
                run.hit(fp, "body of <%s> not opaque in context %s: %r (%s)" % (m["tag"], m["ctx"], m["body"], r["why"][:330]),
                        {"kind": "tree", "case": m, "why": r["why"]})
    # several regions on one page: minimise (drop regions, simplify placement, shrink literal bodies -- copies follow)
    multi_failing.sort(key=lambda cr: (len(cr[0]["raw"]), cr[0]["raw"], cr[0]["focus"]))

    def tree_fails_as(kinds):
        def tree_fails(sf_list):
            cs = [pages.make_case(j, sp, f) for j, (sp, f) in enumerate(sf_list)]
            return [not r["ok"] and r["kind"] in kinds for r in run_tree(cs, src, 4)]
        return tree_fails
    seen = set()
    for c, r in multi_failing[:3]:
        if r["kind"] in ("mismatch", "exception", "lost"):
            sp, f = pages.shrink(c["spec"], c["focus"], tree_fails_as(("lost",) if r["kind"] == "lost" else ("mismatch", "exception")))
            m = pages.make_case(0, sp, f)
            r = run_tree([m], src, 1)[0]
        else:
            m = c
        fp = "opacity:multi-region:%s:%s" % (m["tag"], json.dumps([m["raw"], m["db"]], sort_keys=True))
        if m["raw"] in seen:
            continue
        seen.add(m["raw"])
        run.hit(fp, "page with several protected regions (%d failing cases): region <%s> body %r is not delivered verbatim / another region changes with it: %r: %s"
                % (len(multi_failing), m["tag"], m["body"], m["raw"], r["why"][:200]), {"kind": "tree", "case": m, "why": r["why"]})
    run.coverage["search_outcomes"] = kinds
    run.coverage["search_multi_region"] = {"pages": len(mspecs), "cases": len(scases) - n_single, "failing": len(multi_failing)}
    run.coverage["search_exceptions"] = [{"wikitext": c["raw"], "why": r["why"]} for c, r in failing if r["kind"] == "exception"][:5]
    run.coverage["search_mismatch_classes"] = {k: len(v) for k, v in by_class.items()}
    run.coverage["exhaustive"] = False
    run.coverage["exhaustive_part"] = ("tie: 8 tags x %d attribute forms x 6 termination forms x 2 cases; search (thorough): every alphabet fragment "
                                       "x 6 tags x all contexts" % len(TIE_ATTRS))
    dist = {}
    for c in scases:
        dist[c["ctx"]] = dist.get(c["ctx"], 0) + 1
    rel = {}
    for sp in mspecs:
        for rg in sp["regions"]:
            k = "literal" if "wrap" not in rg else "copy-of-" + rg["part"] + (":nowiki" if rg["tag"] == "nowiki" else "")
            rel[k] = rel.get(k, 0) + 1
    run.coverage["input_distribution"] = {"search_cases_per_context": dist,
                                          "search_cases_per_tag": {t: sum(1 for c in scases if c["tag"] == t) for t in OPAQUE},
                                          "search_body_len_max": max(len(c["body"]) for c in scases),
                                          "multi_region_pages": len(mspecs), "multi_region_region_kinds": rel,
                                          "tie_cases": len(cases), "tie_text_len_max": max(len(c["text"]) for c in cases)}


def replay(obj):
    src = core.snapshot()
    rp = obj["replay"]
    if rp.get("kind") == "tree":
        c = dict(rp["case"], id=0, dump=False)
        r = run_tree([c], src, 1)[0]
        print(json.dumps({"wikitext": c["raw"], "db": c["db"], "result": r}, indent=1, ensure_ascii=False))
        bad = not r["ok"]
    elif rp.get("kind") == "roundtrip":
        c = dict(rp["case"], id=0)
        r = impl_run([c], src)[0]
        print(json.dumps({"text": c["text"], "result": r}, indent=1, ensure_ascii=True))

        rr = _Collect()
        roundtrip_monitor(rr, c, r)
        print("\n".join(w for w, _ in rr.hits.values()))
        mis = regions_monitor(c, r) if "expect" in c else None
        if mis:
            print("regions not attributed separately: " + mis[0])
        bad = bool(rr.hits) or "error" in r or bool(mis)
    elif rp.get("kind") == "pre":
        c = dict(rp["case"], id=0)
        rc, out = core.run_impl("vt.harness.c09_impl", ["pre"], src=src, input=json.dumps(c) + "\n", timeout=600)
        r = [json.loads(ln) for ln in out.splitlines() if ln.startswith("{")][0]
        print(json.dumps({"text": c["text"], "result": r}, indent=1))
        t = c["text"]
        bad = "error" in r or ("<" not in t and r["out"] != t) or bool((len(t) - len(r["out"])) % 17) or not is_subsequence(r["out"], t)
    else:
        print(json.dumps(rp, indent=1))
        return 1
    print("REPRODUCED" if bad else "not reproduced")
    return 1 if bad else 0
