"""C09 -- opaque tags stay opaque.
Proof : coq/C09 (replace_tags / replace_uniq model, round trip, body verbatim, marker inert/atomic).
Tie   : extracted model vs Uniquifier.replace_tags/replace_uniq on generated texts.
Search: bodies over the markup alphabet x tags x contexts through parse_string, tree oracle."""
import json
import os
import re
import subprocess
from concurrent.futures import ThreadPoolExecutor

from vt import core

LEVEL = "proof"
PH = "ZQPHZ"
OPAQUE = ["nowiki", "pre", "math", "source", "syntaxhighlight", "timeline"]

# --------------------------------------------------------------------------- search: generation

FRAGS = [
    # wiki inline markup
    "''i''", "'''b'''", "'''''", "'", "[[Link]]", "[[a|b]]", "[[", "]]", "[http://x.org t]", "http://x.org/a", "[", "]",
    # templates / parameters / parser functions
    "{{c}}", "{{c|x=1}}", "{{{1}}}", "{{{p|d}}}", "{{#if:1|y|n}}", "{{", "}}", "{{{", "}}}", "|", "=", "{{c",
    # html
    "<b>x</b>", "<i>", "</i>", "<br/>", "<div>", "</div>", "<ref>r</ref>", "<span title=\"t\">", "<", ">", "</", "/>",
    "<references/>", "<gallery>", "</gallery>", "<ref name=a/>",
    # comments
    "<!-- c -->", "<!--", "-->", "\n<!-- c -->\n",
    # entities
    "&amp;", "&lt;", "&gt;", "&#65;", "&#x41;", "&nbsp;", "&bogus;", "&", ";", "&amp;amp;", "&#;", "& x;",
    # block markup
    "\n", "\n\n", "\n* li", "\n# n", "\n: d", "\n; t", "\n{|\n| c\n|}", "{|", "|}", "|-", "||", "!", "!!", "|+",
    "== h ==", "\n== h ==\n", "----", "\n----\n", " ", "\n x", "\t",
    # magic
    "~~~~", "__TOC__", "ISBN 1234567890", "RFC 12", "mailto:a@b.c",
    # other protected / preprocessor tags (never the tag's own closing tag -- filtered below)
    "<nowiki>", "</nowiki>", "<math>", "</math>", "<pre>", "</pre>", "<source>", "</source>",
    "<syntaxhighlight>", "</syntaxhighlight>", "<timeline>", "</timeline>", "<nowiki/>", "<nowiki>n</nowiki>",
    "<noinclude>", "</noinclude>", "<includeonly>", "</includeonly>", "<onlyinclude>", "</onlyinclude>",
    "<noinclude>x</noinclude>", "<includeonly>x</includeonly>", "<onlyinclude>x</onlyinclude>",
    # plain
    "x", "word", "1", "a b", "é", " ", "\U0001F600", "UNIQ", "QINU",
]
FRAG_CLASS = {}
for _f in FRAGS:
    if "include" in _f:
        FRAG_CLASS[_f] = "pp"
    elif re.match(r"</?(nowiki|math|pre|source|syntaxhighlight|timeline)", _f):
        FRAG_CLASS[_f] = "tag"
    else:
        FRAG_CLASS[_f] = "m"

ATTRS = ["", "", "", " ", " lang=\"python\"", " a=b c='d'", " enclose=none", "\n x=1"]

CONTEXTS = {
    # name: (wikitext with %s for the tag, db or None, lambda T -> db)
    "top": ("QA %s QB", False),
    "alone": ("%s", False),
    "top+db": ("QA %s QB", True),
    "list": ("* i1\n* QA %s QB\n* i3", False),
    "list+db": ("* i1\n* QA %s QB\n* i3", True),
    "cell": ("{|\n|-\n| c1 || QA %s QB\n|-\n| c3\n|}", False),
    "cell+db": ("{|\n|-\n| c1 || QA %s QB\n|-\n| c3\n|}", True),
    "bold": ("'''QA %s QB''' QC", False),
    "bold+db": ("'''QA %s QB''' QC", True),
    "targ": ("QC {{echo|QA %s QB}} QD", True),
    "tnamed": ("QC {{echo|1=QA %s QB}} QD", True),
    "tbody": ("QC {{tb|ARG}} QD", "body"),
}
THOROUGH_CONTEXTS = {
    "heading": ("== QA %s QB ==\ntext", False),
    "linkcap": ("[[Target|QA %s QB]]", False),
    "deflist": ("; term\n: QA %s QB", False),
    "div": ("<div>QA %s QB</div>", False),
    "italic+db": ("''QA %s QB''", True),
    "if": ("QC {{#if:1|QA %s QB}} QD", True),
    "targ2": ("QC {{echo|{{echo|QA %s QB}}}} QD", True),
    "caption": ("{|\n|+ QA %s QB\n|-\n| c\n|}", False),
}
BASE_DB = {"echo": "[{{{1}}}]", "c": "CCC", "Template:c": "CCC"}


def closes(tag, body):
    return re.search(r"</%s\s*>" % tag, body, re.I) is not None


def gen_body(rng, tag, maxfr):
    while True:
        n = rng.randint(1, maxfr)
        b = "".join(rng.choice(FRAGS) for _ in range(n))
        if b and not closes(tag, b) and "\x7f" not in b and PH not in b:
            return b


def tag_text(tag, attrs, body, variant):
    o, c = tag, tag
    if variant == "upper":
        o, c = tag.upper(), tag.upper()
    elif variant == "mixed":
        o, c = tag.capitalize(), tag.upper()
    elif variant == "space":
        c = tag + " "
    return "<%s%s>%s</%s>" % (o, attrs, body, c)


def make_case(i, tag, attrs, body, variant, ctx, contexts):
    tmpl, dbmode = contexts[ctx]
    T = tag_text(tag, attrs, body, variant)
    Tp = tag_text(tag, attrs, PH, variant)
    if dbmode == "body":
        db = dict(BASE_DB, tb="QA %s QB" % T)
        dbp = dict(BASE_DB, tb="QA %s QB" % Tp)
        raw = rawp = tmpl
    else:
        raw, rawp = tmpl % T, tmpl % Tp
        db = dbp = dict(BASE_DB) if dbmode else None
    return {"id": i, "tag": tag, "attrs": attrs, "variant": variant, "ctx": ctx, "body": body, "ph": PH,
            "raw": raw, "raw_ph": rawp, "db": db, "db_ph": dbp}


def body_classes(body):
    cl = set()
    if re.search(r"</?(noinclude|includeonly|onlyinclude)", body, re.I):
        cl.add("pp")
    if re.search(r"</?(nowiki|math|pre|source|syntaxhighlight|timeline)", body, re.I):
        cl.add("tag")
    if "<!--" in body:
        cl.add("comment")
    return cl


def gen_search_cases(rng, tier):
    contexts = dict(CONTEXTS)
    if tier == "thorough":
        contexts.update(THOROUGH_CONTEXTS)
    cases = []
    i = 0
    # 1. every single fragment x every tag x every context (systematic part)
    for tag in OPAQUE:
        for fr in FRAGS:
            if closes(tag, fr):
                continue
            for ctx in contexts:
                if tier == "quick" and rng.random() < 0.72:
                    continue
                cases.append(make_case(i, tag, "", fr, "plain", ctx, contexts))
                i += 1
    # 2. random bodies
    n = 2600 if tier == "quick" else 60000
    ctxs = sorted(contexts)
    for _ in range(n):
        tag = rng.choice(OPAQUE)
        body = gen_body(rng, tag, 5 if tier == "quick" else 8)
        attrs = rng.choice(ATTRS)
        variant = rng.choice(["plain", "plain", "plain", "upper", "mixed", "space"])
        cases.append(make_case(i, tag, attrs, body, variant, rng.choice(ctxs), contexts))
        i += 1
    return cases
