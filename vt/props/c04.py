"""C04 — template expansion computes what the template language says.
Proof: coq/C04 (reference semantics `eval` of the template language vs the model of evaluate.pyx/nodes.pyx on the
expected parse `compile p`; shunting-yard of expr.py vs evaluation of the expression tree, operator table generated
from expr.py).  '=' in text leaves: `compile_r` (Model.v) is the real parse with the '=' of argument texts cut out as eqmark;
ProofsEq.v: compile_r = compile without '=', and the model on compile_r computes `eval` for text / parameter defaults / #if / #ifeq /
calls with positional and ` k = v ` arguments whose texts contain '=' (C04_eval_correct_eq_text_partial).
Tie: real parser vs `compile_r`, Expander vs `eval`, Expander vs the flatten model on compile_r, `{{#expr:..}}` vs the extracted
parser model.  The generator puts '=' into text leaves wherever the language defines it to be text (and blanks around argument names).
Numbers: parse_num (coq/C03/Model.v, shared by the model of maybe_numeric_compare / maybe_numeric and by the reference num_aware_eq)
accepts [+-]?(digits[.digits*]|.digits)([eE][+-]?digits)? - exponent folded into (mantissa, fraction digits) by `scale` - so the
reference compares 1e3 = 1000, 5e-1 = .5, 2.5E1 = 25 by value; the generator's number leaves and the deterministic num_family use
every such spelling (signs, zero padding, trailing point, exponent with/without fraction) in #ifeq / #switch, directly and through
arguments, defaults and nested templates.
Interior white space: the comparison value of #switch, its keys and the operands of #ifeq may be SEQUENCES of parameters / calls /
conditionals separated by white-space-only text (gen_seq, probability 0.3; one key repeats the sequence, one is the sequence without
its separators); ws_family puts such sequences (5 separators x 3 paddings) at every compared or returned position; the reference
trims at the ends only."""
import json

from vt import core

LEVEL = "proof"


def generate(src):
    from vt.gen import c04_ops
    c04_ops.generate(src)


def build():
    from vt.harness import c04_tpllib, c04_exprlib
    return [c04_tpllib.build(), c04_exprlib.build()]


def _merge(run, info):
    if not info:
        return
    run.rule = (run.rule + " || " if run.rule else "") + info.get("rule", "")
    run.trusted += info.get("trusted", [])
    run.assumptions += info.get("assumptions", [])
    run.coverage.setdefault("input_distribution", {}).update(info.get("distribution", {}))
    for k, v in info.get("coverage", {}).items():
        run.coverage[k] = v


def check(run):
    src = core.snapshot()
    run.trusted = ["Coq 8.16.1 kernel (coqc); vm_compute for the finite operator-table obligation and the examples",
                   "extraction (ExtrOcamlBasic directives only) + ocaml/c04*/driver.ml"]
    run.check_proofs("C04", gen=lambda: generate(src), dirs=["C03"])
    from vt.harness import c04_tpllib, c04_exprlib
    _merge(run, c04_tpllib.run(run, src))
    _merge(run, c04_exprlib.run(run, src))
    run.coverage["exhaustive"] = False


def replay(obj):
    src = core.snapshot()
    r = obj.get("replay", {})
    kind = r.get("kind")
    if kind == "expr":
        from vt.harness import c04_exprlib
        return c04_exprlib.replay(r, src)
    if kind == "tpl":
        from vt.harness import c04_tpllib
        return c04_tpllib.replay(r, src)
    print(json.dumps(r, indent=1))
    return 1
