"""C10 \u2014 tokens tile the input.
Proof: coq/C10 (Regex + rules regenerated from _uscan.re + hand-transcribed actions; theorem C10_tiling).
Tie:   (i) translator _uscan.re -> Gen_rules.v on every run (fail-closed);
       (ii) extracted OCaml scanner vs the rebuilt _uscan.cc through utoken.scan: exhaustive over all
            sequences of <=3 (quick) / <=4 (thorough) lexemes of a 45-lexeme alphabet, <=3 of an 88-lexeme
            extension (both tiers), exactly 4 of a 64-lexeme one (thorough), plus random long strings;
            token lists compared exactly.
Search: the tiling oracle itself on the real output of the same inputs (vt/harness/c10_impl.py)."""
import concurrent.futures
import json
import os
import subprocess

from vt import core
from vt.gen import c10_rules

LEVEL = "proof"

EBAD = "\uebad"
UNIQ = "\x7fUNIQ-a1-2-f-QINU\x7f"

# 45 lexemes: every rule of both blocks and every action branch is reachable with <= 3 of them
CORE = [
    "a", "B7", " ", "\t", "\n", "=", "{|", "{|\n", "|}", "|", "!", "-", "----", "+", ":", ";", "#",
    "[", "]", "'", "<", ">", "/", "<br/>", "</b>", "<!--c-->", "&", "&amp;", "&#x4f;", "&#65;",
    "http://a.b", "//r", "mailto:u@h", "irc://c", "news:n", "ftp://f", "__TOC__", "_", UNIQ, "\x7f",
    EBAD, "\0", "\U0001F600", "{", "é",
]
EXTRA = [
    "*", "}", "||", "!!", "|!", "|+", "|-", "[[", "]]", "''", "'''", "== ", "<b x='1'>", "<b/>", "https://x",
    "[http://a.b t]", "&#xZ;", "\ud800", "\uebae", "\uebac", "\uffff", "\U0010FFFF", ".", "\"", "\r", "__NOTOC__", "__END_",
    "-->", "<!--", "-QINU\x7f", "\x7fUNIQ-", "@", "s", "0", "\x1f", "`", "^", "mailto:", "http", "://", "&#", "x", ";a",
]
FULL = CORE + EXTRA
# 64 lexemes, enumerated at depth 4 in the thorough tier
MID = CORE + ["*", "}", "''", "== ", "<b x='1'>", "[http://a.b t]", "\ud800", "\uebae", ".", "\"", "\r", "__END_", "-->", "<!--",
              "-QINU\x7f", "\x7fUNIQ-", "@", "&#", "`"]
# 14 lexemes that drive the scanner STATE (tablemode, rowchar, section line, last_ebad, text merging, rewinds),
# enumerated deeper: depth <=5 (quick) / <=6 (thorough)
STATE = ["a", " ", "\t", "\n", "=", "{|", "|}", "|", "!", "-", "+", ":", "'", EBAD]
# contexts in which every boundary character of every character class of the rules is tried (prefix + c + suffix)
PREFIXES = ["", "\n", "a", "[", "news:", "news:a", "ftp://", "ftp://a", "irc://", "irc://a", "mailto:", "mailto:a", "mailto:a@", "mailto:a@b",
            "http://", "https://a", "[//", "//a", "&", "&a", "&#", "&#1", "&#x", "&#xa", "<", "</", "<a", "<a ", "<a/", "<!--", "<!--a-",
            "\x7fUNIQ-", "\x7fUNIQ-a", "\x7fUNIQ-a-", "\x7fUNIQ-a-1", "\x7fUNIQ-a-1-", "\x7fUNIQ-a-1-f", "\x7fUNIQ-a-1-f-QINU",
            "__TOC_", "_", "=", "= ", "''", "\n ", "\n\t", "\n:", "\n|", "\n---", "{|\n", "{|\n!", "{|\n|", "|"]
SUFFIXES = ["", "a", ";", "@b", ">", "-->", "-1-f-QINU\x7f", "\n", "|", "\0"]
HOT = list(" \t\n\n\n=|!-+:;#*[]'<>/&_{}\"@.?%~^`aZz09xX\\\x7f\r\x0b\x1f") + [EBAD, EBAD, "\U0001F600", "é", "\ud800", "\uffff", "\0"]


# LONG-LEXEME family.  The scanner stores a token as (type, start, len) and merges adjacent text; the quantifier of C10 is
# "every text", so the LENGTH of one lexeme is a dimension of its own (field widths of the token record, offsets).  One family
# per unbounded repetition of the rules ((lead,) pre, unit, suf): lexeme = pre + (unit repeated to fill) + suf of TOTAL length L.
# "lead" is context that is needed for the rule to fire (table mode, not at the beginning of a line) and is not counted in L.
LONG_FAMILIES = [
    # rules that only match at the beginning of a line
    ("bol-blanks-begin-table", "", "", " \t", "{|"), ("bol-colons-begin-table", "", " ", ":", "{|"),
    ("bol-blanks-end-table", "", "", " ", "|}"), ("bol-row-dashes", "", "|", "-", ""), ("bol-row-dashes-table", "{|\n", "|", "-", ""),
    ("bol-blanks-row-table", "{|\n", "", "\t ", "|-"), ("bol-blanks-column-table", "{|\n", "", " ", "!"),
    ("bol-blanks-column", "", "", "\t", "|"), ("bol-caption-plus", "", "|", "+", ""), ("bol-caption-plus-table", "{|\n", "|", "+", ""),
    ("bol-section-eq", "", "", "=", ""), ("bol-section-blanks", "", "==", " \t", ""), ("bol-item", "", "", ":;#*", ""),
    ("bol-hrule", "", "", "-", ""),
    # URL rules (6 schemes, bracketed and bare)
    ("mailto-user", "", "mailto:", "ab.", "@h.org"), ("mailto-host", "", "mailto:u@", "h.", ""), ("mailto-link", "", "[mailto:u@", "h_", ""),
    ("irc", "", "irc://", "c/", ""), ("irc-link", "", "[irc://", "c.", ""), ("news", "", "news:", "N.a0", ""),
    ("news-link", "", "[news:", "Zz", ""), ("ftp", "", "ftp://", "f/~", ""), ("ftp-link", "", "[ftp://", "f'", ""),
    ("http", "", "http://a.b/?q=", "a%20", ""), ("https", "", "https://", "x", ""), ("http-link", "", "[http://", "x/", ""),
    ("relurl-link", "", "[//", "r.", ""),
    # uniq marker (three repetitions)
    ("uniq-name", "", "\x7fUNIQ-", "a1", "-2-f-QINU\x7f"), ("uniq-dec", "", "\x7fUNIQ-a-", "12", "-f-QINU\x7f"),
    ("uniq-hex", "", "\x7fUNIQ-a-1-", "0f", "-QINU\x7f"),
    # plain repetitions of the main block
    ("alnum", "", "", "Ab0", ""), ("underscores", "", "", "_", ""), ("eq-midline", "a", "", "=", ""), ("eq-blanks-midline", "a", "=", " \t", ""),
    ("eq-section-end", "== t ", "", "=", ""), ("newlines", "a", "", "\n", ""), ("newlines-blanks", "a", "\n", " \n ", "\n"),
    ("quotes", "", "", "'", ""),
    ("tag-name", "", "<", "b", ">"), ("tag-attr", "", "<b x='", "a ", "'>"), ("tag-close", "", "</b", " ", ">"), ("tag-selfclose", "", "<br ", "x", "/>"),
    ("comment", "", "<!--", "x -", "-->"), ("entity-name", "", "&", "aZ9", ";"), ("entity-hex", "", "&#x", "aF0", ";"),
    ("entity-dec", "", "&#", "109", ";"),
    # not one lexeme but one TOKEN / one gap: merged text, U+EBAD run, non-BMP, unmatched openers that fall back to single characters
    ("merged-text", "", "", "ab ", ""), ("merged-nonascii", "", "", "é", ""), ("ebad-run", "a", "", EBAD, ""),
    ("nonbmp", "", "", "\U0001F600", ""), ("unterminated-comment", "", "<!--", "x", ""), ("unterminated-tag", "", "<b ", "x", ""),
    ("unterminated-entity", "", "&", "a", ""),
]
# families made of MANY small lexemes (one merged token / one gap): the extracted scanner is quadratic on them (unary offsets),
# so they are judged by the tiling oracle on the real output only and left out of the model comparison
LONG_MONITOR_ONLY = {"merged-text", "merged-nonascii", "ebad-run", "nonbmp"}
LONG_MODEL_MAX = 140000
# total lexeme lengths: around every width a length/offset field could have (8, 15, 16, 17 bits), and well beyond
LONG_LENGTHS = {"quick": [65535, 65536, 65537, 70000, 131077], "thorough": [32767, 32768, 65535, 65536, 65537, 70000, 131071, 131072,
                                                                          131077, 196613, 262147, 1048583]}
SHORT_WIDTHS = [255, 256, 257, 32767, 32768]      # alone only, both tiers
# (before, after) contexts: alone, embedded in a line of ordinary text, embedded on a line of its own between ordinary lines
LONG_CONTEXTS = [("", ""), ("ab ", " cd"), ("ab\n", " cd\nef")]


def long_cases(rng, tier):
    """[(label, [[unit, n], ...])]: every family x every length x contexts (quick: alone + one embedding, chosen so that
    beginning-of-line rules stay at the beginning of a line; thorough: all three), plus one seeded random length per family"""
    cases = []
    for name, lead, pre, unit, suf in LONG_FAMILIES:
        lens = [(L, True) for L in LONG_LENGTHS[tier]] + [(L, False) for L in SHORT_WIDTHS if L not in LONG_LENGTHS[tier]]
        lens.append((rng.randint(65538, 200000), True))
        for L, embed in lens:
            body = L - len(pre) - len(suf)
            if tier == "thorough":
                ctxs = LONG_CONTEXTS
            else:
                ctxs = [LONG_CONTEXTS[0], LONG_CONTEXTS[2] if name.startswith("bol-") else LONG_CONTEXTS[1]]
            for before, after in (ctxs if embed and L < 200000 else ctxs[:1]):
                segs = [[before, len(before)], [lead, len(lead)], [pre, len(pre)], [unit, body], [suf, len(suf)], [after, len(after)]]
                kind = "alone" if not before else ("emb-mid" if before == LONG_CONTEXTS[1][0] else "emb-line")
                cases.append(("%s/%d/%s" % (name, L, kind), [s for s in segs if s[1] > 0]))
    return cases


def seg_text(segs):
    parts = []
    for unit, n in segs:
        q, r = divmod(n, len(unit))
        parts.append(unit * q + unit[:r])
    return "".join(parts)


def show_segs(segs):
    """human readable form of a segment list: 'A'*65536 + '-->'"""
    out = []
    for unit, n in segs:
        q, r = divmod(n, len(unit))
        if q == 1 and r == 0:
            out.append(repr(unit))
        elif r == 0:
            out.append("%r*%d" % (unit, q))
        else:
            out.append("(%r*%d)[:%d]" % (unit, q + 1, n))
    return " + ".join(out) if out else "''"


def random_texts(rng, n):
    res = []
    for i in range(n):
        k = i % 4
        if k == 0:      # lexeme soup
            t = "".join(rng.choice(FULL) for _ in range(rng.randint(5, 40)))
        elif k == 1:    # hot characters
            t = "".join(rng.choice(HOT) for _ in range(rng.randint(1, 60)))
        elif k == 2:    # table-ish document: lines starting with markup
            lines = []
            for _ in range(rng.randint(1, 8)):
                lead = rng.choice(["", " ", "  ", "\t", ":", "::", " :"]) + rng.choice(
                    ["{|", "|}", "|-", "|---", "|", "!", "|+", "|++", "=", "==", "----", "-----", "*", "#:", ";", "", "", EBAD])
                body = "".join(rng.choice(FULL) for _ in range(rng.randint(0, 6)))
                lines.append(lead + body)
            t = "\n".join(lines)
        else:           # arbitrary code points, a few hot ones mixed in
            t = "".join(rng.choice(HOT) if rng.random() < 0.5 else chr(rng.choice(
                [rng.randint(1, 0x7f), rng.randint(0x80, 0xd7ff), rng.randint(0xe000, 0xffff), rng.randint(0x10000, 0x10ffff)]))
                for _ in range(rng.randint(1, 50)))
        if "\0" in t and rng.random() < 0.8:
            t = t.replace("\0", "")
        res.append(t)
    return res


def plan(tier):
    """[(alphabet name, alphabet, depth)] - every listed depth is enumerated exhaustively"""
    if tier == "quick":
        return ([("core", CORE, d) for d in range(0, 4)] + [("full", FULL, d) for d in range(1, 4)]
                + [("state", STATE, d) for d in (4, 5)])
    return ([("core", CORE, d) for d in range(0, 5)] + [("full", FULL, d) for d in range(1, 4)] + [("mid", MID, 4)]
            + [("state", STATE, d) for d in (5, 6)])


def build():
    return core.ocaml_build("c10", "C10/Extract.v", "driver.ml")


def generate(src):
    return c10_rules.generate(src)


def _big_stack():
    """the extracted scanner recurses once per code point of a lexeme (unary offsets): lift the stack limit for the driver"""
    import resource
    try:
        resource.setrlimit(resource.RLIMIT_STACK, (resource.RLIM_INFINITY, resource.RLIM_INFINITY))
        resource.setrlimit(resource.RLIMIT_AS, (6 * 2 ** 30, 6 * 2 ** 30))      # a runaway model must fail, not take the machine down
    except (ValueError, OSError):
        pass


def run_shard(job):
    """harness (real code) -> model -> compare.  Returns dict with counts, disagreements, hits."""
    spec, exe, src = job
    rc, out = core.run_impl("vt.harness.c10_impl", [spec["spec_path"]], src=src, timeout=3000)
    if rc != 0 or "done" not in out:
        raise RuntimeError("c10 harness failed rc=%s: %s" % (rc, out[-1500:]))
    mout = spec["out"] + ".model"
    a = open(spec["out"], "rb").read()
    n = a.count(b"\n")
    dis = []
    if exe is None or spec.get("no_model"):         # translator failed: no current model; the monitor still ran
        b = a
    else:
        with open(spec["inp"]) as fi, open(mout, "w") as fo:
            p = subprocess.run([exe], stdin=fi, stdout=fo, stderr=subprocess.PIPE, timeout=3000, preexec_fn=_big_stack)
        if p.returncode != 0:
            raise RuntimeError("model driver failed: " + p.stderr.decode("utf8", "replace")[-500:])
        b = open(mout, "rb").read()
    if a != b:
        la, lb = a.split(b"\n"), b.split(b"\n")
        li = open(spec["inp"]).read().split("\n")
        if len(la) != len(lb):
            dis.append((0, "shard %s: %d impl lines vs %d model lines" % (spec["name"], len(la), len(lb))))
        cand = []
        for x, y, t in zip(la, lb, li):
            if x != y:
                cand.append((len(t.split()), t, x, y))
        cand.sort(key=lambda c: (c[0], c[1]))
        for _n, t, x, y in cand[:6]:
            dis.append((_n, "text %r: impl %s model %s" % ("".join(chr(int(c)) for c in t.split()), x.decode(), y.decode())))
        if len(cand) > 6:
            dis.append((10 ** 9, "... %d more disagreements in shard %s" % (len(cand) - 6, spec["name"])))
    hits = [json.loads(l) for l in open(spec["hits"]) if l.strip()]
    stats = hits.pop()
    flags = open(spec["flags"]).read()
    return {"name": spec["name"], "n": n, "tied": 0 if (exe is None or spec.get("no_model")) else n, "dis": dis, "hits": hits, "violations": stats["total_violations"], "flags": flags,
            "inp": spec["inp"], "out": spec["out"], "stats": stats}


def cc_hand_part_matches(src):
    """the hand-written C++ of _uscan.re (which Model.v transcribes) must be what _uscan.cc contains"""
    cc = open(os.path.join(src, "mwlib/parser/token/_uscan.cc"), encoding="utf8").read()
    cc = "\n".join(l for l in cc.split("\n") if not l.startswith("#line"))
    ncc = c10_rules.norm(cc)
    missing = []
    if c10_rules.EXPECT_SCANNER not in ncc:
        missing.append("class Scanner/head of scan()")
    for body in list(c10_rules.ACTIONS) + [c10_rules.EXPECT_PRELUDE, c10_rules.EXPECT_BETWEEN_DEFS_AND_BOL,
                                           c10_rules.EXPECT_BETWEEN_BOL_AND_MAIN, c10_rules.EXPECT_DRIVER_LOOP, c10_rules.EXPECT_BUILD]:
        if body not in ncc:
            missing.append(body[:40])
    return missing


def check(run):
    run.rule = ("texts = all sequences of <=3 (quick) / <=4 (thorough) lexemes over a 45-lexeme alphabet (words, blanks, newline, "
                "table markup, '=' , list/rule markers, brackets, quotes, tags, comment, entities, 6 URL schemes, magic word, uniq "
                "marker, U+EBAD, NUL, non-BMP), all sequences of <=3 over an 88-lexeme extension (incl. a lone surrogate, "
                "U+10FFFF, partial markers), in the thorough tier all sequences of 4 over a 64-lexeme alphabet, all sequences of <=5 / <=6 "
                "over 14 state-driving lexemes, every boundary code point (lo-1, lo, hi, hi+1) of every character class of the generated "
                "rules between 52 prefixes and 10 suffixes, a LONG-LEXEME family (one lexeme per unbounded repetition of the rules - " + str(len(LONG_FAMILIES))
                + " families: line-start table/section/list/rule markup, 6 URL schemes bare and bracketed, uniq marker parts, alphanumerics, '_', '=', "
                "newline runs, quotes, tag name/attribute, comment, entities, merged text, U+EBAD run - of total length 255..257, 32767/8, "
                "65535, 65536, 65537, 70000, 131077 and a seeded random length (thorough: up to 2^20+7), alone and embedded in ordinary text; the model comparison leaves out texts of more than 140000 code points and the four "
                "many-small-lexeme families, on which the extracted scanner is quadratic - the tiling oracle judges them all), "
                "plus seeded random long texts (lexeme soup, hot characters, table-like documents, "
                "arbitrary code points). distinct = distinct text; non-trivial = real output has >=2 tokens or the text contains "
                "U+EBAD or NUL")
    run.trusted = [
        "Coq 8.16.1 kernel (coqc); vm_compute for the finite obligations over the generated rule table",
        "vt/gen/c10_rules.py (re2c-subset parser; refuses unknown syntax/actions and any change of the hand-transcribed C++)",
        "hand transcription of found/bol/eol/newline and of the 14 action bodies in coq/C10/Model.v; tie = exhaustive differential run",
        "extraction (ExtrOcamlBasic directives only) + ocaml/c10/driver.ml",
        "re2c 4.1 code generation (longest match, first rule on ties, swapped a-Z range) and the C++ glue "
        "(PyUnicode_AsUCS4Copy, 32 NUL sentinels): covered only by the differential run against the rebuilt _uscan.cc",
    ]
    run.assumptions = ["code points are arbitrary naturals in the model (the real scanner sees Py_UCS4 <= 0x10FFFF, lone surrogates included)",
                       "the `int` fields of the real scanner are unbounded naturals in the model; C10_fields_fit_int proves that every start, "
                       "length, end offset and token index stays below 2^31 when the text has fewer than 2^31 code points "
                       "(tablemode is bounded by the number of tokens); texts beyond that are not covered"]
    src = core.snapshot()
    info = {}

    def gen():
        info.update(generate(src))
    proofs_ok = run.check_proofs("C10", gen=gen)
    if info:
        run.coverage["generated"] = {"definitions": len(info["definitions"]), "bol_rules": info["bol_rules"],
                                     "main_rules": info["main_rules"], "action_tags": len(info["tags"])}
    missing = cc_hand_part_matches(src)
    run.obligation("hand-written C++ of _uscan.re is contained verbatim (modulo whitespace) in _uscan.cc", not missing, "; ".join(missing))
    exe = build() if info else None      # translator failed => Gen_rules.v is stale: do not run a stale model

    sdir = os.path.join(core.scratch(), "c10")
    os.makedirs(sdir, exist_ok=True)
    specs = []

    def add_spec(name, **kw):
        base = os.path.join(sdir, name)
        spec = dict(kw, name=name, inp=base + ".inp", out=base + ".out", flags=base + ".flags", hits=base + ".hits",
                    spec_path=base + ".json")
        json.dump(spec, open(spec["spec_path"], "w"))
        specs.append(spec)
        return spec

    # corpus + random texts (files written here, seeded)
    corpus = []
    cdir = os.path.join(core.VERIF, "corpus", "C10")
    if os.path.isdir(cdir):
        for fn in sorted(os.listdir(cdir)):
            cobj = json.load(open(os.path.join(cdir, fn)))
            if "text_rle" in cobj:      # long texts are stored in segment form [[unit code points, n], ...]
                corpus.append(seg_text([["".join(chr(c) for c in u), n] for u, n in cobj["text_rle"]]))
            else:
                corpus.append("".join(chr(c) for c in cobj["text"]))
    nrand = 20000 if run.tier == "quick" else 400000
    # every boundary character of every class / literal of the generated rules, in every context
    btexts = []
    for b in (info.get("class_bounds") or []):
        for pre in PREFIXES:
            for suf in SUFFIXES:
                btexts.append(pre + chr(b) + suf)
    rtexts = corpus + btexts + random_texts(run.rng, nrand)
    per = 20000 if run.tier == "quick" else 60000
    for k in range(0, len(rtexts), per):
        sp = add_spec("rand%03d" % (k // per), mode="file")
        with open(sp["inp"], "w") as f:
            for t in rtexts[k:k + per]:
                f.write(" ".join(str(ord(c)) for c in t) + "\n")
    # long-lexeme family (harness builds the texts from segments and writes the model's input itself)
    lcases = long_cases(run.rng, run.tier)
    nshard_long = 12 if run.tier == "quick" else 32
    def model_ok(c):        # the extracted scanner (unary offsets, lists) is only practical up to ~2*10^5 code points per text,
        fam, ln, ctx = c[0].split("/")      # and quadratic (time AND memory) where a text is many small lexemes: a line-start
        return (fam not in LONG_MONITOR_ONLY and int(ln) <= LONG_MODEL_MAX      # lexeme put in the middle of a line falls apart
                and not (fam.startswith("bol-") and ctx == "emb-mid"))
    tied = [c for c in lcases if model_ok(c)]
    untied = [c for c in lcases if not model_ok(c)]
    for k in range(nshard_long):
        for nm, cs, nomodel in (("long", tied, False), ("longmon", untied, True)):
            part = cs[k::nshard_long]
            nmon = 4 if run.tier == "quick" else 16
            if part and (not nomodel or k < nmon):
                if nomodel:
                    part = cs[k::nmon]
                add_spec("%s%02d" % (nm, k), mode="long", no_model=nomodel,
                         cases=[[[[ord(c) for c in u], n] for u, n in segs] for _l, segs in part])
    # exhaustive shards
    shard = 45000 if run.tier == "quick" else 250000
    total_enum = 0
    for aname, alpha, d in plan(run.tier):
        n = len(alpha) ** d
        total_enum += n
        for lo in range(0, n, shard):
            add_spec("%s%d_%06d" % (aname, d, lo // shard), mode="enum", alphabet=[[ord(c) for c in x] for x in alpha],
                     depth=d, lo=lo, hi=min(n, lo + shard))
    dis = []
    ncases = 0
    nviol = 0
    dist = {"exhaustive_texts": total_enum, "random_texts": nrand, "class_boundary_texts": len(btexts), "corpus": len(corpus),
            "long_lexeme_texts": len(lcases), "long_lexeme_families": len(LONG_FAMILIES),
            "long_lexeme_texts_monitor_only": len(untied),
            "long_lexeme_lengths": sorted(set(LONG_LENGTHS[run.tier] + SHORT_WIDTHS)),
            "text_length_max": 0, "token_count_hist": {}}
    hist = {}
    reported = 0
    seen_fp = set()
    with concurrent.futures.ThreadPoolExecutor(max_workers=min(16, core.NPROC)) as ex:
        for res in ex.map(run_shard, [(s, exe, src) for s in specs]):
            ncases += res["tied"]
            dis.extend(res["dis"])
            nviol += res["violations"]
            for h in res["hits"]:
                if reported < 10:
                    rep = {"what": h["what"]}
                    if h.get("min_rle") is not None:
                        msegs = [["".join(chr(c) for c in u), n] for u, n in h["min_rle"]]
                        mt, fp = show_segs(msegs), "rle:" + json.dumps(h["min_rle"])
                        rep["text_rle"] = h["min_rle"]
                    else:
                        mt, fp = repr("".join(chr(c) for c in h["min_text"])), json.dumps(h["min_text"])
                        rep["text"] = h["min_text"]
                    if h.get("text_rle") is not None:
                        rep["original_text_rle"] = h["text_rle"]
                    else:
                        rep["original_text"] = h["text"]
                    fp = "tiling:%s:%s" % (h.get("min_kind") or h["kind"], fp)
                    if fp in seen_fp:
                        continue
                    seen_fp.add(fp)
                    reported += 1
                    run.hit(fp,
                            "utoken.scan(%s) = %r: %s" % (mt, h["min_tokens"], h["min_what"] or h["what"]), rep)
            for k, v in res["stats"]["token_count_hist"].items():
                hist[int(k)] = hist.get(int(k), 0) + v
            dist["text_length_max"] = max(dist["text_length_max"], res["stats"]["text_length_max"])
            want_samples = len(run.samples) < 6 and res["name"].startswith("rand")
            with open(res["inp"]) as fi:
                for line, fl in zip(fi, res["flags"]):
                    run.count(line, nontrivial=(fl == "1"))
            if want_samples:
                with open(res["inp"]) as fi, open(res["out"]) as fo:
                    for line, oline, fl in zip(fi, fo, res["flags"]):
                        if fl == "1" and 3 <= oline.count(";") + 1 <= 8 and len(run.samples) < 6:
                            run.sample({"text": "".join(chr(int(c)) for c in line.split()), "tokens": oline.strip()})
            for p in (res["inp"], res["out"], res["out"] + ".model"):
                try:
                    os.unlink(p)
                except OSError:
                    pass
    dist["token_count_hist"] = {str(k): v for k, v in sorted(hist.items())[:12]}
    dist["token_count_max"] = max(hist) if hist else 0
    dis.sort()
    if exe is None:
        run.tie("extracted Coq scanner vs rebuilt _uscan.cc via utoken.scan: exact (type,start,len) lists", 0,
                ["translator failed: the model could not be regenerated from _uscan.re, no comparison made"])
    else:
        run.tie("extracted Coq scanner vs rebuilt _uscan.cc via utoken.scan: exact (type,start,len) lists", ncases,
                [d for _n, d in dis])
    run.obligation("tiling oracle holds on every real output", nviol == 0, "%d violating texts" % nviol)
    # concurrency probe: scan() releases the GIL, so concurrent calls must not interfere (a hit here needs a schedule,
    # not a special text: replay = the texts that were scanned concurrently)
    rounds = 400 if run.tier == "quick" else 5000
    rc, out = core.run_impl("vt.harness.c10_threads", [str(rounds), str(run.seed)], src=src, timeout=1200)
    tres = None
    for ln in out.splitlines():
        if ln.startswith("{"):
            tres = json.loads(ln)
    if rc != 0 or tres is None:
        run.hit("threads:crash", "concurrent utoken.scan calls from 4 threads crashed or failed (rc=%s): %s" % (rc, out[-300:]),
                {"threads": 4, "rounds": rounds, "output": out[-2000:]})
    else:
        run.coverage["concurrent_scans"] = tres["scans"]
        for b in tres["bad"][:2]:
            run.hit("threads:interference", "utoken.scan returned a different token list when 4 threads scanned concurrently "
                    "(text of %d code points: expected %r..., got %r...)" % (len(b["text"]), b["expected"][:3], b["got"][:3]),
                    {"threads": 4, "rounds": rounds, "case": b})
    run.coverage["exhaustive"] = False
    run.coverage["exhaustive_part"] = "; ".join("%s alphabet (%d lexemes) depth %d" % (a, len(al), d) for a, al, d in plan(run.tier))
    run.coverage["input_distribution"] = dist
    run.coverage["monitor_violations"] = nviol
    return proofs_ok


def replay(obj):
    src = core.snapshot()
    rep = obj["replay"]
    if "threads" in rep:
        rc, out = core.run_impl("vt.harness.c10_threads", [str(rep.get("rounds", 2000)), "0"], src=src, timeout=1200)
        print(out[-1500:])
        res = [json.loads(l) for l in out.splitlines() if l.startswith("{")]
        badr = rc != 0 or not res or bool(res[-1]["bad"])
        print("REPRODUCED" if badr else "not reproduced")
        return 1 if badr else 0
    if "text" not in rep and "text_rle" in rep:
        segs = [["".join(chr(c) for c in u), n] for u, n in rep["text_rle"]]
        print("text   = " + show_segs(segs))
        rep = dict(rep, text=[ord(c) for c in seg_text(segs)])
    if "text" not in rep:
        print(json.dumps(rep, indent=1))
        return 1
    sdir = os.path.join(core.scratch(), "c10r")
    os.makedirs(sdir, exist_ok=True)
    base = os.path.join(sdir, "r")
    spec = {"mode": "file", "name": "replay", "inp": base + ".inp", "out": base + ".out", "flags": base + ".flags",
            "hits": base + ".hits"}
    open(spec["inp"], "w").write(" ".join(str(c) for c in rep["text"]) + "\n")
    json.dump(spec, open(base + ".json", "w"))
    rc, out = core.run_impl("vt.harness.c10_impl", [base + ".json"], src=src)
    if rc != 0:
        print(out)
        return 1
    text = "".join(chr(c) for c in rep["text"])
    if len(text) <= 4096:
        print("text   = %r" % text)
    print("tokens = %s" % open(spec["out"]).read().strip()[:2000])
    hits = [json.loads(l) for l in open(spec["hits"]) if l.strip()]
    total = hits.pop()["total_violations"]
    for h in hits:
        print("oracle : " + h["what"])
    print("REPRODUCED" if total else "not reproduced")
    return 1 if total else 0
