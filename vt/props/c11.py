"""C11 — fetching a collection yields a complete and faithful archive.
Proof: coq/C11 (work-list model of Fetcher with an explicit schedule; termination measure; for every wiki,
metabook, batch size and EVERY schedule the final archive = the declarative `needed`).
Tie: the real make_nuwiki/Fetcher/MwApi against a synthetic MediaWiki below MwApi (vt/harness/c11_*.py);
the archive read back with nuwiki.Adapt is compared with the extracted model's final state and spec.
Query continuation (sapi.py: merge_data, _handle_query_continue, _do_request): coq/C11/ModelContinue.v with the
give-up condition TRANSLATED from the source on every run (vt/gen/c11_sapi.py -> Gen_continue.v, which also pins the
statements of the functions and every write to qccount); proved: continuation is per query, no cross-query state,
any result limit >= 1 is invisible; tied to the real client on scripted servers (vt/harness/c11_continue.py).
Search: the property's own oracle (vt/harness/c11_oracle.py) on the archive."""
import atexit
import concurrent.futures
import json
import os
import queue
import random
import re
import shutil
import subprocess
import time

from vt import core
from vt.gen import c11_sapi
from vt.harness import c11_oracle, c11_shrink, c11_wiki

LEVEL = "proof"
NPROC = min(16, core.NPROC)


# ----------------------------------------------------------------------------- real code
_fast = []


def fast_tmp():
    """where the harness lets the real fetcher write its archives: tmpfs when the machine has one (every archive is
    read back and deleted right after its case; the fetcher's sqlite commits are fsync-bound on a disk, which made
    the wall time of the check a function of the other jobs on the machine), else the scratch directory"""
    if not _fast:
        base = os.environ.get("VERIF_C11_TMP", "/dev/shm")
        d = core.scratch()
        if os.path.isdir(base) and os.access(base, os.W_OK):
            for fn in os.listdir(base):          # left behind by a run that was killed
                m = re.fullmatch(r"verif-c11-(\d+)", fn)
                if m and not os.path.exists("/proc/%s" % m.group(1)):
                    shutil.rmtree(os.path.join(base, fn), ignore_errors=True)
            d = os.path.join(base, "verif-c11-%d" % os.getpid())
            shutil.rmtree(d, ignore_errors=True)
            os.makedirs(d)
            atexit.register(shutil.rmtree, d, True)
        _fast.append(d)
    return _fast[0]


def cost_of(case):
    rv = max(1, int(case["opts"].get("rvlimit", 50)))
    return 12.0 + sum(3 + len(p.get("users", [])) / rv for p in case["wiki"]["pages"])


def run_real(cases, src, brief=True, timeout=3000):
    """Run the cases on the real code, sharded over processes.  Returns results in case order."""
    if not cases:
        return []
    nsh = max(1, min(NPROC, len(cases) // 4 or 1))
    # shards of about equal COST (estimated number of requests: a few per page + the contributor slices), largest first
    shards = [[] for _ in range(nsh)]
    load = [0.0] * nsh
    for c in sorted(cases, key=cost_of, reverse=True):
        k = load.index(min(load))
        shards[k].append(c)
        load[k] += cost_of(c)
    base = os.path.join(fast_tmp(), "c11")

    def one(k):
        inp = "".join(json.dumps(c) + "\n" for c in shards[k])
        rc, out = core.run_impl("vt.harness.c11_impl", [os.path.join(base, "sh%d" % k)] + (["brief"] if brief else []),
                                src=src, input=inp, timeout=timeout)
        res = [json.loads(ln) for ln in out.splitlines() if ln.startswith("{")]
        if rc != 0 or len(res) != len(shards[k]):
            raise RuntimeError("c11 harness failed rc=%s got %d/%d results: %s" % (rc, len(res), len(shards[k]), out[-1500:]))
        return res
    with concurrent.futures.ThreadPoolExecutor(nsh) as ex:
        parts = list(ex.map(one, range(nsh)))
    byid = {}
    for part in parts:
        for r in part:
            byid[r["id"]] = r
    return [byid[c["id"]] for c in cases]


class Workers:
    """persistent harness processes (one case in, one result out): the shrinker runs thousands of small cases and
    must not pay the interpreter + import start-up for each batch"""

    def __init__(self, src, n):
        self.idle = queue.Queue()
        self.procs = []
        base = os.path.join(fast_tmp(), "c11w")
        for k in range(n):
            p = subprocess.Popen([core.PY, "-m", "vt.harness.c11_impl", os.path.join(base, "w%d" % k), "brief"], cwd=core.VERIF,
                                 env=core.impl_env(src), stdin=subprocess.PIPE, stdout=subprocess.PIPE,
                                 stderr=subprocess.DEVNULL, text=True, bufsize=1)
            self.procs.append(p)
            self.idle.put(p)
        self.n = n

    def one(self, case):
        p = self.idle.get()
        try:
            p.stdin.write(json.dumps(case) + "\n")
            p.stdin.flush()
            while True:
                line = p.stdout.readline()
                if not line:
                    raise RuntimeError("c11 harness worker died")
                if line.startswith("{"):
                    return json.loads(line)
        finally:
            self.idle.put(p)

    def map(self, cases):
        if not cases:
            return []
        with concurrent.futures.ThreadPoolExecutor(self.n) as ex:
            return list(ex.map(self.one, cases))

    def close(self):
        for p in self.procs:
            try:
                p.stdin.close()
            except OSError:
                pass
        for p in self.procs:
            try:
                p.wait(timeout=20)
            except subprocess.TimeoutExpired:
                p.kill()


# kinds of violation whose fingerprint suffix only describes the SHAPE of the input (it may change while the input
# is shrunk); for all others (exceptions, not-skipped:*) the whole fingerprint has to stay
SHAPE_KINDS = ("article-missing", "article-text", "contributors-article", "contributors-image", "image-missing",
               "image-file", "image-info", "image-description")


def kind_of(fp):
    k = fp.split(":", 1)[0]
    return k if k in SHAPE_KINDS else fp


def minimise(case, want, workers, seconds, log=None):
    """delta debugging of a failing case (vt/harness/c11_shrink.py): pages, revisions, template/image uses,
    contributors, metabook items, chapters, options, schedule.  `want` = kind_of(fingerprint) that has to show."""
    def shows(c, r):
        if r.get("harness_error"):
            return False
        try:
            return any(kind_of(fp) == want for fp, _w in c11_oracle.judge(c, r))
        except Exception:
            return False

    def test_batch(cs):
        ok = [c11_oracle.in_domain(c) for c in cs]
        res = workers.map([c for c, o in zip(cs, ok) if o])
        it = iter(res)
        return [o and shows(c, next(it)) for c, o in zip(cs, ok)]
    small, info = c11_shrink.shrink(case, test_batch, workers.one, seconds=seconds)
    # a replay must reproduce: run the result three more times
    again = workers.map([small] * 3)
    info["reproduced_3_of_3"] = all(shows(small, r) for r in again)
    return small, info


# ----------------------------------------------------------------------------- abstraction W -> model input
class Abs:
    """numbering of titles / users for the Coq model (ids in sorted order so that sorting is preserved)"""

    def __init__(self, case):
        self.case = case
        titles = set()
        users = set()
        for p in case["wiki"]["pages"]:
            titles.add(p["title"])
            users.update(p.get("users", []))
            for r in p["revs"]:
                if r.get("redirect"):
                    titles.add(r["redirect"])
                for t in r.get("tpls", []):
                    titles.add("Template:" + t)
                for i in r.get("imgs", []):
                    titles.add("File:" + i)
        for it in c11_oracle.flat_articles(case["metabook"]):
            titles.add(it["title"])
        self.titles = sorted(titles)
        self.tid = {t: i + 1 for i, t in enumerate(self.titles)}
        self.users = sorted(users)
        self.uid = {u: i + 1 for i, u in enumerate(self.users)}

    def line(self, schedules):
        c = self.case
        out = ["L %d" % c["opts"]["req_limit"], "F %d" % (0 if c["opts"].get("noimages") else 1)]
        for p in c["wiki"]["pages"]:
            us = sorted(p.get("users", []))
            toks = ["P", self.tid[p["title"]], 1 if p.get("file") else 0, int(p.get("anon", 0)), len(us)]
            for u in us:
                toks += [self.uid[u], 1 if c11_oracle.BOT_RE.search(u) else 0]
            toks.append(len(p["revs"]))
            for r in p["revs"]:
                toks += [r["revid"], self.tid[r["redirect"]] if r.get("redirect") else 0]
                tp = [self.tid["Template:" + t] for t in r.get("tpls", [])]
                im = [self.tid["File:" + i] for i in r.get("imgs", [])]
                toks += [len(tp)] + tp + [len(im)] + im
            out.append(" ".join(str(x) for x in toks))
        arts = list(c11_oracle.flat_articles(c["metabook"]))
        toks = ["M", len(arts)]
        for it in arts:
            toks += [self.tid[it["title"]], it.get("revision") or 0]
        out.append(" ".join(str(x) for x in toks))
        for s in schedules:
            out.append("S %d %s" % (len(s), " ".join(str(x) for x in s)))
        out.append("E")
        return " ; ".join(out)


def parse_items(field):
    """'A t r src|I img|X img|D img|U key anon u1 u2' items separated by ',' -> set of tuples"""
    res = set()
    for tok in field.split(","):
        tok = tok.strip()
        if tok:
            parts = tok.split()
            res.add((parts[0],) + tuple(int(x) for x in parts[1:]))
    return res


def run_model(exe, lines):
    p = subprocess.run([exe], input="\n".join(lines) + "\n", capture_output=True, text=True, timeout=3000)
    if p.returncode != 0:
        raise RuntimeError("model driver failed: " + p.stderr[-800:])
    return p.stdout.splitlines()


def archive_items(ab, case, res):
    """what the archive holds (res['all']) in the model's vocabulary; texts are identified by the revision
    whose server-side expansion they equal ('?' when they equal none)"""
    sw = c11_wiki.SynthWiki(case["wiki"], {})
    by_text = text_classes(case, sw)[0]
    raw_text = {c11_wiki.render(p["revs"][-1]): p for p in case["wiki"]["pages"]}
    items = set()
    odd = []
    for key, title, revid, text, expanded in res["all"]["revisions"]:
        if isinstance(key, str) and revid is not None:
            continue                     # title alias of a revid record (nuwiki.py:177-182)
        if title not in ab.tid:
            odd.append("page %r not in the wiki's vocabulary" % title)
            continue
        if expanded:
            src = by_text.get(text)
            if src is None:
                odd.append("page %r holds a text no revision expands to: %r" % (title, text[:60]))
                continue
            items.add(("A", ab.tid[title], revid or 0, src))
        else:
            p = raw_text.get(text)
            if p is None or p["title"] != title:
                odd.append("raw page %r holds %r" % (title, text[:60]))
                continue
            items.add(("D", ab.tid[title]))
    for t in res["all"]["imageinfo"]:
        items.add(("I", ab.tid[t]))
    for f, t in res["all"]["files"]:
        if t is None:
            odd.append("file %r" % f)
        else:
            items.add(("X", ab.tid[t]))
    for a, b in (res["all"]["redirects"] or {}).items():
        items.add(("R", ab.tid.get(a, 0), ab.tid.get(b, 0)))
    for t, val in (res["all"]["authors"] or {}).items():
        anon = 0
        us = []
        for u in val:
            if u.startswith("ANONIPEDITS:"):
                anon = int(u.split(":")[1])
            else:
                us.append(ab.uid.get(u, 0))
        items.add(("U", ab.tid.get(t, 0), anon) + tuple(us))
    return canon(items), odd


def text_classes(case, sw=None):
    """texts are identified with revisions: revisions with the same expanded text are one class (smallest revid)"""
    sw = sw or c11_wiki.SynthWiki(case["wiki"], {})
    by_text = {}
    cls = {}
    for p in case["wiki"]["pages"]:
        for r in p["revs"]:
            t = sw.expand(c11_wiki.render(r))
            by_text[t] = min(by_text.get(t, r["revid"]), r["revid"])
    for p in case["wiki"]["pages"]:
        for r in p["revs"]:
            cls[r["revid"]] = by_text[sw.expand(c11_wiki.render(r))]
    return by_text, cls


def canon_src(items, cls):
    return {(it[0], it[1], it[2], cls.get(it[3], it[3])) if it[0] == "A" else it for it in items}


def canon(items):
    """an authors entry without users and without anonymous edits carries no information: dropped on both sides"""
    return {it for it in items if not (it[0] == "U" and len(it) == 3 and it[2] == 0)}


def build():
    return core.ocaml_build("c11", "C11/Extract.v", "driver.ml")


def generate(src):
    """coq/C11/Gen_continue.v from sapi.py (vt/gen/c11_sapi.py, fail-closed)"""
    return c11_sapi.generate(src)


# ----------------------------------------------------------------------------- tie of the continuation model
def gen_script(rng, cid):
    """a scripted server: 1-5 queries of 1-7 slices over 4 keys, fresh continuation values (10%: the value just sent
    is handed out again - the client must give that query up), and the order in which one client asks them"""
    nq = rng.randint(1, 5)
    script = []
    nxt = [10]
    for q in range(1, nq + 1):
        slices = []
        n = rng.choice([1, 1, 2, 3, 3, 4, 5, 7])
        prev = None
        for i in range(n):
            d = []
            for k in rng.sample([1, 2, 3, 4], rng.randint(0, 3)):
                d.append([k, [rng.randint(0, 99) for _ in range(rng.randint(0, 3))]])
            if i == n - 1:
                c = None
            elif prev is not None and rng.random() < 0.1:
                c = prev
            else:
                nxt[0] += rng.randint(1, 3)
                c = nxt[0]
            slices.append([d, c])
            prev = c
        script.append([q, slices])
    order = [rng.randint(1, nq + (1 if rng.random() < 0.2 else 0)) for _ in range(rng.randint(1, 14))]
    return {"id": cid, "script": script, "order": order}


def gen_sliced(rng, cid):
    """a wiki that serves lists of 0-12 values in slices of `limit` values, next offset = continuation value
    (sliced_server of coq/C11/ModelSliced.v), written out as a script for the real client"""
    nq = rng.randint(1, 5)
    limit = rng.choice([1, 1, 2, 3, 5, 50])
    table = [[q, [rng.randint(0, 99) for _ in range(rng.choice([0, 1, 2, 3, 5, 8, 12]))]] for q in range(1, nq + 1)]
    script = []
    for q, vals in table:
        slices = []
        off = 0
        while True:
            rest = vals[off:]
            if len(rest) <= limit:
                slices.append([[[q, rest]], None])
                break
            slices.append([[[q, rest[:limit]]], off + limit])
            off += limit
        script.append([q, slices])
    order = [rng.randint(1, nq) for _ in range(rng.randint(1, 14))]
    return {"id": cid, "script": script, "order": order, "sliced": {"limit": limit, "table": table}}


def gen_val(rng, depth):
    r = rng.random()
    if depth <= 0 or r < 0.25:
        return "a%d" % rng.randint(0, 9) if rng.random() < 0.5 else [rng.randint(0, 99) for _ in range(rng.randint(0, 3))]
    return {str(k): gen_val(rng, depth - 1) for k in rng.sample(range(1, 7), rng.randint(0, 4))}


def gen_merge_pair(rng, depth):
    """(dst, src) with many common keys; 10% of the common positions hold values of different types"""
    r = rng.random()
    if r < 0.1:
        return gen_val(rng, depth), gen_val(rng, depth)          # unrelated: often a type mismatch
    if depth <= 0 or r < 0.3:
        if rng.random() < 0.4:
            return "a%d" % rng.randint(0, 9), "a%d" % rng.randint(0, 9)
        return [rng.randint(0, 99) for _ in range(rng.randint(0, 3))], [rng.randint(0, 99) for _ in range(rng.randint(0, 3))]
    dst, src = {}, {}
    keys = rng.sample(range(1, 7), rng.randint(0, 5))
    for k in keys:
        where = rng.random()
        if where < 0.5:
            dst[str(k)], src[str(k)] = gen_merge_pair(rng, depth - 1)
        elif where < 0.75:
            dst[str(k)] = gen_val(rng, depth - 1)
        else:
            src[str(k)] = gen_val(rng, depth - 1)
    src = dict(sorted(src.items(), key=lambda kv: rng.random()))     # src.items() order is independent of dst's
    return dst, src


def coq_val(v):
    if v is None:
        return "None"
    if isinstance(v, str):
        return "(VAtom %d)" % int(v[1:])
    if isinstance(v, list):
        return "(VList %s)" % coq_list("%d" % x for x in v)
    return "(VDict %s)" % coq_list("(%d, %s)" % (int(k), coq_val(x)) for k, x in v.items())


def coq_list(xs):
    return "[" + "; ".join(xs) + "]"


def coq_data(d):
    return coq_list("(%d, %s)" % (k, coq_list("%d" % v for v in vs)) for k, vs in d)


def coq_opt(c):
    return "None" if c is None else "(Some %d)" % c


def continue_tie(run, src):
    """the real MwApi._do_request on scripted servers = run_queries gen_stop (srv_of script) of ModelContinue.v"""
    n = 150 if run.tier == "quick" else 300          # <= 500 Eval per generated file
    cases = [gen_sliced(run.rng, i) if i % 3 == 2 else gen_script(run.rng, i) for i in range(n)]
    nmerge = 150 if run.tier == "quick" else 200
    merges = [{"id": "m%d" % i, "merge": list(gen_merge_pair(run.rng, 3))} for i in range(nmerge)]
    cases_in = cases + merges
    rc, out = core.run_impl("vt.harness.c11_continue", [], src=src, input="".join(json.dumps(c) + "\n" for c in cases_in), timeout=600)
    res = {}
    for ln in out.splitlines():
        if ln.startswith("{"):
            r = json.loads(ln)
            res[r["id"]] = r
    dis = []
    if rc != 0 or len(res) != len(cases_in):
        dis.append("harness vt.harness.c11_continue failed: rc=%s, %d/%d results: %s" % (rc, len(res), len(cases_in), out[-400:]))
        return len(cases_in), dis, {}
    rel = "C11/cases_%d.v" % os.getpid()
    lines = ["From Coq Require Import List NArith Bool.", "From MW Require Import C11.ModelContinue C11.Gen_continue C11.ModelSliced C11.ModelMerge.",
             "Import ListNotations.", "Open Scope N_scope."]
    todo = []
    rounds = 0
    stopped = 0
    for c in cases:
        r = res[c["id"]]
        if "error" in r:
            dis.append("script %s: real client raised: %s" % (c["id"], r["error"][:300]))
            continue
        rounds = max(rounds, r["qccount"])
        stopped += 1 if any(sl[i][1] is not None and sl[i][1] == sl[i - 1][1] for _q, sl in c["script"] for i in range(1, len(sl))) else 0
        sc = coq_list("(%d, %s)" % (q, coq_list("(%s, %s)" % (coq_data(d), coq_opt(k)) for d, k in sl)) for q, sl in c["script"])
        exp = "(%d, %s)" % (r["qccount"], coq_list("Some %s" % coq_data(a) for a in r["answers"]))
        srv = "(srv_of %s)" % sc
        if c.get("sliced"):
            # the script was written out from sliced_server: the model side evaluates sliced_server itself
            srv = "(sliced_server %d%%nat (db_of %s))" % (c["sliced"]["limit"], coq_list("(%d, %s)" % (q, coq_list("%d" % v for v in vs)) for q, vs in c["sliced"]["table"]))
        lines.append("Eval vm_compute in (result_eqb (run_queries gen_stop %s 60 0 %s) %s)."
                     % (srv, coq_list("%d" % q for q in c["order"]), exp))
        todo.append(c)
    nerr = 0
    for c in merges:
        r = res[c["id"]]
        if "error" in r:
            dis.append("merge %s: real merge_data raised: %s" % (c["id"], r["error"][:300]))
            continue
        nerr += 1 if r["merged"] is None else 0
        lines.append("Eval vm_compute in (oval_eqb (merge_val %s %s) %s)."
                     % (coq_val(c["merge"][0]), coq_val(c["merge"][1]), "None" if r["merged"] is None else "(Some %s)" % coq_val(r["merged"])))
        todo.append(c)
    path = os.path.join(core.COQ, rel)
    try:
        with open(path, "w") as f:
            f.write("\n".join(lines) + "\n")
        ok, cout = core.coqc_file(rel)
    finally:
        for ext in (".v", ".vo", ".vok", ".vos", ".glob"):
            try:
                os.unlink(path[:-2] + ext)
            except OSError:
                pass
        try:
            os.unlink(os.path.join(core.COQ, "C11", ".cases_%d.aux" % os.getpid()))
        except OSError:
            pass
    verdicts = re.findall(r"=\s*(true|false)\s*:\s*bool", cout)
    if not ok or len(verdicts) != len(todo):
        dis.append("coqc on the generated cases failed (%d verdicts for %d cases): %s" % (len(verdicts), len(todo), cout[-400:]))
    else:
        for c, v in zip(todo, verdicts):
            if v != "true":
                if "merge" in c:
                    dis.append("merge %s: real merge_data(%s) = %s != merge_val" % (c["id"], json.dumps(c["merge"])[:300], json.dumps(res[c["id"]])[:300]))
                    continue
                dis.append("script %s: real client %s != model; script %s order %s"
                           % (c["id"], json.dumps(res[c["id"]])[:300], json.dumps(c["script"])[:300], c["order"]))
    return len(cases_in), dis, {"merge_data_pairs": nmerge, "merge_data_pairs_with_ValueError": nerr, "scripts": n, "max_qccount_of_one_client": rounds, "scripts_with_a_repeated_continuation_value": stopped,
                     "scripts_from_sliced_server": sum(1 for c in cases if c.get("sliced"))}


# ----------------------------------------------------------------------------- check
def shape_of(case):
    sw = c11_wiki.SynthWiki(case["wiki"], {})
    arts = list(c11_oracle.flat_articles(case["metabook"]))
    feats = set()
    for it in arts:
        if it.get("revision"):
            pr = sw.by_rev.get(it["revision"])
            feats.add("badrev" if pr is None else "pinned-redirect" if pr[1].get("redirect") else "pinned")
        else:
            hops, fin = sw.resolve(it["title"])
            if fin is None:
                feats.add("cycle")
            elif fin not in sw.pages:
                feats.add("dead-end" if hops else "missing")
            elif len(hops) > 1:
                feats.add("chain")
            elif hops:
                feats.add("redirect")
            else:
                feats.add("plain")
    if any("chapter" in x for x in case["metabook"]):
        feats.add("chapters")
    specs = {}
    for it in arts:
        specs.setdefault(it["title"], set()).add(it.get("revision"))
    for v in specs.values():
        if len(v) >= 2:
            feats.add("same-title-pinned+unpinned" if None in v else "same-title-pinned+pinned")
            if len(v) >= 3:
                feats.add("same-title-3+listings")
    return feats


def check_cases(run, cases, src, exe, stats, found):
    results = run_real(cases, src)
    dis = []
    # ---- monitor
    best = {}
    for case, res in zip(cases, results):
        hits = c11_oracle.judge(case, res)
        feats = shape_of(case)
        run.count(json.dumps([case["wiki"], case["metabook"], case["opts"]], sort_keys=True),
                  nontrivial=len(feats - {"plain"}) > 0 or len(case["wiki"]["pages"]) > 4)
        for f in feats:
            stats["features"][f] = stats["features"].get(f, 0) + 1
        stats["requests"] += len(res.get("requests", []))
        stats["continuations"] += sum(1 for q in res.get("requests", []) if q[3])
        stats["max_inflight"] = max(stats["max_inflight"], res.get("max_inflight", 0))
        tot, per_query = res.get("cont_rounds", [0, 0])
        b = "0" if tot == 0 else "1-9" if tot < 10 else "10-39" if tot < 40 else "40-99" if tot < 100 else "100-199" if tot < 200 else "200-499" if tot < 500 else "500+"
        stats["continuation_rounds_per_fetch"][b] = stats["continuation_rounds_per_fetch"].get(b, 0) + 1
        stats["max_continuation_rounds_per_fetch"] = max(stats["max_continuation_rounds_per_fetch"], tot)
        stats["max_continuation_rounds_of_one_query"] = max(stats["max_continuation_rounds_of_one_query"], per_query)
        stats["bulk_cases"] += 1 if case["opts"].get("bulk") else 0
        nii = sum(1 for q in res.get("requests", []) if (q[2] or "").startswith("imageinfo"))
        stats["cases_with_2+_imageinfo_batches"] += 1 if nii >= 2 else 0
        lat = case["opts"].get("latency", "random")
        lat = "explicit" if isinstance(lat, list) else "kinds" if isinstance(lat, dict) else lat
        stats["latency_mode"][lat] = stats["latency_mode"].get(lat, 0) + 1
        stats["greenlet_skips"] += len(res.get("greenlet_errors", []))
        o = case["opts"]
        stats["noimages"] += 1 if o.get("noimages") else 0
        stats["req_limit_1"] += 1 if o["req_limit"] == 1 else 0
        # out-of-order completion = a real interleaving happened
        done = [q[5] for q in res.get("requests", []) if q[5] is not None]
        if done != sorted(done):
            stats["cases_with_reordered_completions"] += 1
        # representative of a kind of violation: reproducible schedule first, then the smallest case
        size = (1 if o.get("latency", "random") == "random" else 0, len(json.dumps(case)))
        for fp, what in hits:
            k = kind_of(fp)
            if k not in best or size < best[k][0]:
                best[k] = (size, what, case, fp)
            stats["hits"][fp] = stats["hits"].get(fp, 0) + 1
        if not hits and len(run.samples) < 4 and len(feats) >= 3:
            run.sample({"metabook": case["metabook"], "opts": case["opts"], "pages": [p["title"] for p in case["wiki"]["pages"]],
                        "archive_pages": [r[:3] for r in res["all"]["revisions"]][:12], "requests": len(res["requests"])})
    for k, cand in best.items():
        if k not in found or cand[0] < found[k][0]:
            found[k] = cand
    # ---- correspondence with the extracted model
    if exe is not None:
        lines = []
        abss = []
        for case in cases:
            ab = Abs(case)
            abss.append(ab)
            rng = random.Random(case["opts"]["seed"])
            scheds = [[1], [1998], [rng.randint(0, 60) for _ in range(400)]]
            lines.append(ab.line(scheds))
        outs = run_model(exe, lines)
        if len(outs) != len(cases):
            raise RuntimeError("model driver returned %d lines for %d cases" % (len(outs), len(cases)))
        for case, res, ab, ln in zip(cases, results, abss, outs):
            if res.get("readback_error") or not res.get("terminated"):
                continue
            fields = ln.split("#")
            if fields[0].strip() != "OK":
                dis.append("case %s: model driver: %s" % (case["id"], ln[:200]))
                continue
            cls = text_classes(case)[1]
            fetched = canon_src(canon(parse_items(fields[1])), cls)
            needed = canon_src(canon(parse_items(fields[2])), cls)
            finals = [canon_src(canon(parse_items(f.split("|", 1)[1])), cls) for f in fields[3:]]
            flags = [f.split("|", 1)[0].split() for f in fields[3:]]
            stats["model_steps"] += sum(int(fl[1]) for fl in flags)
            stats["model_measure_max"] = max(stats.get("model_measure_max", 0), max(int(fl[2]) for fl in flags))
            if any(fl[0] != "final" for fl in flags):
                dis.append("case %s: model did not reach a final state: %r" % (case["id"], flags))
                continue
            if any(int(fl[1]) > int(fl[2]) for fl in flags):
                dis.append("case %s: model took more steps than its measure: %r" % (case["id"], flags))
                continue
            if any(f != fetched for f in finals):
                bad = [f for f in finals if f != fetched][0]
                dis.append("case %s: model final state != fetched: extra %r missing %r" % (case["id"], sorted(bad - fetched)[:4], sorted(fetched - bad)[:4]))
                continue
            if not needed <= fetched:
                dis.append("case %s: needed is not contained in fetched: %r" % (case["id"], sorted(needed - fetched)[:4]))
                continue
            needed = fetched
            asked = res.get("imageinfo_titles", [])
            if len(asked) != len(set(asked)):
                dis.append("case %s: request log: imageinfo asked more than once for %r (the model asks once per image: `scheduled`)"
                           % (case["id"], sorted({t for t in asked if asked.count(t) > 1})[:3]))
                continue
            got, odd = archive_items(ab, case, res)
            if got != needed or odd:
                dis.append("case %s (opts %s): archive vs model: only in archive %r, only in model %r, odd %r"
                           % (case["id"], json.dumps(case["opts"]), sorted(got - needed)[:4], sorted(needed - got)[:4], odd[:2]))
    return dis


def report_hits(run, found, src, stats):
    """every kind of violation the monitor saw: minimise the representative case, re-judge it, report it with the
    full request log of the minimised case"""
    if not found:
        return
    total = 60 if run.tier == "quick" else 420
    t_end = time.time() + total
    workers = Workers(src, NPROC)
    try:
        todo = sorted(found.items(), key=lambda kv: kv[1][0])
        stats["shrink"] = []
        for n, (k, (_size, what, case, fp)) in enumerate(todo):
            left = t_end - time.time()
            info = {"note": "no time left for shrinking"}
            small = case
            if left > 3 and n < 8:
                small, info = minimise(case, k, workers, max(3.0, left / max(1, min(len(todo), 8) - n)))
            res = workers.one(small)
            hits = [(f, w) for f, w in c11_oracle.judge(small, res) if kind_of(f) == k]
            if hits:
                fp, what = sorted(hits)[0]
            else:
                small, info = case, dict(info, note="the minimised case did not show the violation again; original case kept")
            small = dict(small, shrunk=info)
            stats["shrink"].append(dict(info, fingerprint=fp))
            full = run_real([small], src, brief=False)[0]
            full.pop("all", None)
            run.hit(fingerprint=fp, what=what,
                    replay={"case": small, "observed": {x: full.get(x) for x in ("terminated", "exc", "greenlet_errors", "articles", "images")},
                            "request_log": full.get("requests"), "downloads": full.get("downloads")})
    finally:
        workers.close()


def check(run):
    run.rule = ("synthetic wikis: 1-9 articles with 1-4 revisions (an old one may be a redirect), 0-6 templates forming a DAG of "
                "depth <=6 (+ a missing template), 0-14 images (10% without file, + referenced images without page), 0-5 redirects "
                "(chains into articles or redirects, dead ends, self loops, 2-cycles), contributors from a pool incl. bot names, anon "
                "counts; metabooks of 1-10 items: titles / pinned revisions (current, old, redirect text, nonexistent revid), redirects, "
                "missing titles, chapters, duplicates, in 35% of the cases one page listed 2..n+1 times with different revisions "
                "(pinned+pinned, pinned+unpinned, all revisions + unpinned); plus a BULK family (28 cases quick / 640 thorough): "
                "8..45 (thorough ..70) articles, log-uniform, sharing 2-14 images directly and through gallery templates, up to 20 "
                "contributors per page from a pool of 47, most articles listed (some pinned / through redirects / missing), "
                "rvlimit and api_result_limit in {1,2,3,5}: every query needs a handful of continuation rounds, one fetch 20..1000+ "
                "on the same API client (measured: continuation_rounds_per_fetch); the quantifier's exclusion is enforced (a title "
                "reached through a listed redirect is not listed pinned); api_request_limit, api_result_limit, rvlimit in 1..50 "
                "(biased to 1,2,3), 25% noimages; response latencies per request/download: 75% VIRTUAL (k cooperative yields, a "
                "function of the case's seed, so the interleaving replays exactly: k in 0 / 1-4 / 5-25 / 26-90 per request, or "
                "a per-case typical delay 0..45 for each KIND of request - siteinfo, parse, expandtemplates, imageinfo, "
                "contributors, page texts, image lists, downloads - plus jitter), 10% real time "
                "(0 / U(0,2ms) / U(2,8ms) via gevent.sleep), 15% one yield or none. Every kind of violation found is "
                "delta-debugged (pages, revisions, template/image uses, contributors, metabook items, options, the "
                "schedule as an explicit list of yield counts) before it is reported. distinct = distinct (wiki, "
                "metabook, options); non-trivial = some listed item is not a plain existing title, or the wiki has > 4 pages")
    run.trusted = ["Coq 8.16.1 kernel (coqc); vm_compute only in the Examples",
                   "extraction (ExtrOcamlBasic directives only) + ocaml/c11/driver.ml (parser/printer)",
                   "hand-written model coq/C11/Model.v of Fetcher (fetch.py as of the fix commits 4906af9 8808eaf 8d69ad3 3ee1a3d); tie = differential run against the real code",
                   "hand-written model coq/C11/ModelContinue.v of merge_data/_handle_query_continue/_do_request (results abstracted to dicts of "
                   "lists; statements pinned and the give-up condition translated by vt/gen/c11_sapi.py; tie = real client on scripted servers); "
                   "coq/C11/ModelSliced.v (a wiki serving slices of `limit` values) is a model of the SERVER, tied only through c11_wiki.py's behaviour",
                   "synthetic MediaWiki vt/harness/c11_wiki.py (legacy query-continue protocol, MediaWiki transclusion/redirect semantics as documented there)",
                   "abstraction archive -> model items in vt/props/c11.py (texts identified with the revision whose expansion they equal)",
                   "gevent: a greenlet runs until it blocks; sqlitedict, nuwiki.Adapt (read back)"]
    run.assumptions = ["the wiki does not change during the fetch (static W)",
                       "one wiki, image description pages on the same wiki; canonical titles in the metabook",
                       "the API answers in the legacy raw-continue format (query-continue), which is the only one sapi.py follows",
                       "NOT modelled: HTTP transport/retries, OAuth, rate limiting, HTML/timeline/mapframe scraping (parse output is only "
                       "used for its image list), print templates, licenses, multi-wiki collections"]
    t0 = time.time()
    src = core.snapshot()
    info = {}

    def gen():
        info.update(generate(src))
    run.check_proofs("C11", gen=gen)
    t_proofs = time.time() - t0
    if info:
        # the model of query continuation (with the translated stop condition) against the real client
        try:
            ncont, cdis, cstats = continue_tie(run, src)
        except Exception as e:
            ncont, cdis, cstats = 0, ["continuation tie could not run: %s: %s" % (type(e).__name__, str(e)[-300:])], {}
        run.tie("real MwApi._do_request/_handle_query_continue/merge_data on scripted servers (several queries on one client, "
                "slices, repeated continuation values, servers written out from sliced_server) = run_queries gen_stop (srv_of script) of "
                "coq/C11/ModelContinue.v; real sapi.merge_data on random nested values = merge_val of coq/C11/ModelMerge.v", ncont, cdis)
        run.coverage["continuation_model"] = dict(cstats, translated=info)
    try:
        exe = build()
    except Exception as e:      # model does not build: the monitor still runs
        run.obligation("ocaml-driver-builds", False, str(e)[-300:])
        exe = None
    n = 900 if run.tier == "quick" else 20000
    corpus = os.path.join(core.VERIF, "corpus", "C11")
    cases = []
    if os.path.isdir(corpus):
        for fn in sorted(os.listdir(corpus)):
            c = json.load(open(os.path.join(corpus, fn)))
            c["id"] = "corpus-" + fn
            cases.append(c)
    ncorpus = len(cases)
    # the SIZE dimension (c11_oracle.gen_bulk_case): larger collections with small result limits, dozens to many
    # hundreds of continuation rounds per fetch on one API client, each query short.  A fixed number per tier (they
    # cost 10-50 times an ordinary case), spread over the run so that every chunk / shard gets some.
    nbulk = 28 if run.tier == "quick" else 640
    every = n // nbulk
    for i in range(n):
        cases.append(c11_oracle.gen_case(run.rng, i, run.tier, bulk=(i % every == every // 2)))
    stats = {"features": {}, "requests": 0, "continuations": 0, "max_inflight": 0, "greenlet_skips": 0, "noimages": 0,
             "req_limit_1": 0, "cases_with_reordered_completions": 0, "hits": {}, "model_steps": 0,
             "cases_with_2+_imageinfo_batches": 0, "latency_mode": {}, "continuation_rounds_per_fetch": {},
             "max_continuation_rounds_per_fetch": 0, "max_continuation_rounds_of_one_query": 0, "bulk_cases": 0}
    dis = []
    chunk = 1000
    found = {}
    for i in range(0, len(cases), chunk):
        dis += check_cases(run, cases[i:i + chunk], src, exe, stats, found)
    t1 = time.time()
    report_hits(run, found, src, stats)
    stats["wall_s"] = {"snapshot+coq": round(t_proofs, 1), "cases": round(t1 - t0 - t_proofs, 1), "shrink+report": round(time.time() - t1, 1)}
    run.tie("archive written by the real make_nuwiki (read back with nuwiki.Adapt) = final state of the extracted model under 3 schedules = extracted spec `needed`",
            len(cases), dis)
    run.coverage["exhaustive"] = False
    run.coverage["input_distribution"] = dict(stats, cases=len(cases), corpus=ncorpus)


def replay(obj):
    src = core.snapshot()
    case = obj["replay"].get("case")
    if not case:
        print(json.dumps(obj["replay"], indent=1)[:4000])
        return 1
    res = run_real([case], src, brief=False)[0]
    hits = c11_oracle.judge(case, res)
    for q in res.get("requests", []):
        print("req", q["n"], q["m"], json.dumps({k: v for k, v in q["p"].items() if k != "format"}), "done@", q.get("done"))
    for fp, what in hits:
        print("HIT", fp, "--", what)
    want = obj.get("fingerprint")
    bad = any(fp == want for fp, _w in hits) or (want in (None, "broken-obligation") and bool(hits))
    print("REPRODUCED" if bad else "not reproduced")
    return 1 if bad else 0
