"""C17 — see vt/harness/c16_check.py (shared by C16/C17/C18), coq/C17/Properties.v, coq/C16/Model.v."""
from vt.harness import c16_check

LEVEL = "proof"


def build():
    return c16_check.build()


def check(run):
    c16_check.check(run, "C17")


def replay(obj):
    return c16_check.replay(obj, "C17")
