"""C13 — metabooks round-trip through JSON and identify collections deterministically.
Proof: coq/C13 (to_json/of_json over key-sorted maps, round trip, fixed point, id pre-image invariance and
separation, parametric in the dumps / sha256 / repr oracles).  Tie: op sequences on the real metabook classes
vs the extracted model, canonical JSON and collection ids recomputed from the model's output.
Search: round-trip / fixed-point / id-invariance / id-separation / no-shared-defaults / independence-of-loaded-copies oracles on the
real code, and the identifiers over the LIFE of one object: `probe` ops (calc_checksum / make_collection_id of the live
object) interleaved with API calls and in-place edits of every kind at every depth (coq/C13/ModelEdit.v edit_at): the checksum
is that of a fresh copy of the same content and changes exactly when dumps() changes; every hit is settled (re-run alone in a fresh process, delta-debugged) before it is reported."""
import hashlib
import json
import os
import subprocess
import threading

from vt import core
from vt.gen import c13_classes
from vt.harness import c13_codec as cc

try:
    import simplejson as sjson
except ImportError:  # pragma: no cover
    sjson = json

LEVEL = "proof"

TITLES = ["Main Page", " Foo ", "Ärger mit Ümläuten", "日本語", "a b", " x ", "Q&A \"quoted\"", "back\\slash", "emoji \U0001F600",
          "", "A", "a/b:c", "new\nline", "tab\there", "K", "ǅ", "x" * 40, "‮rtl", "null", "type"]
OPT_FIELDS = ["title", "subtitle", "editor", "cover_image", "cover_color", "text_color", "description", "sort_as"]
EXTRA_FIELDS = ["custom_key", "x-y", "ключ", "Title", "image", "_private", "_env", "Type", "itemz"]
BASES = [{}, {"base_url": "http://en.wikipedia.org/w/"}, {"base_url": "http://de.wikipedia.org/w/", "script_extension": ".php"},
         {"base_url": "https://x/'q\"", "script_extension": "", "login_credentials": "user:pw"}, {"base_url": "http://ü/"}]


# falsy but meaningful: none of these is "unset" (only None is)
FALSY = [0, "", False, ["L", []], ["D", {}]]


def fz(rng, v, p=0.12):
    """v, or with probability p one of the falsy values -- applied to EVERY attribute slot the generators fill."""
    return rng.choice(FALSY) if rng.random() < p else v


def gen_muts(rng):
    """What a consumer does to its own loaded copy of a metabook (see `indep` in the harness)."""
    muts = []
    for _ in range(rng.choice([1, 1, 2, 3, 5])):
        r = rng.random()
        if r < 0.3:
            muts.append(["append", rng.choice(TITLES), rng.choice([None, "D"]), {} if rng.random() < 0.7 else {"revision": rng.choice(["7", 0])}])
        elif r < 0.45:
            muts.append(["set", rng.choice(OPT_FIELDS + ["summary", "version", "custom_key"]), fz(rng, rng.choice(TITLES))])
        elif r < 0.55:
            muts.append(["additem", "chapter", {"title": rng.choice(TITLES)}])
        elif r < 0.65:
            muts.append(["wiki", rng.choice(["en", "de", None]), "http://w/"])
        elif r < 0.7:
            muts.append(["license", "GFDL", rng.choice(TITLES)])
        elif r < 0.82:
            muts.append(["item_set", rng.randrange(8), rng.choice(["title", "revision", "displaytitle", "custom"]), fz(rng, rng.choice(TITLES))])
        elif r < 0.9:
            muts.append(["item_append", rng.randrange(4), rng.choice(TITLES)])
        elif r < 0.96:
            muts.append(["pop", rng.randrange(8)])
        else:
            muts.append(["reverse"])
    return muts


EDIT_FIELDS = ["title", "revision", "displaytitle", "custom", "content_type", "wikiident", "summary", "sort_as", "caption"]
ITEM_CLASSES = ["article", "article", "chapter", "custom"]


def shape_of_json(j):
    """Shadow of the items tree ([class, children]) of a request text, so that edits can address objects that exist."""
    kids = []
    for x in (j.get("items") or []) if isinstance(j, dict) else []:
        if isinstance(x, dict) and isinstance(x.get("type"), str):
            kids.append(shape_of_json(x))
    return [str(j.get("type", "")).lower(), kids]


def shape_nodes(shape, path=()):
    yield path, shape
    for i, k in enumerate(shape[1]):
        yield from shape_nodes(k, path + (i,))


def gen_edit(rng, shape):
    """In-place edits of the live metabook: list of [path, action].  path = indices followed through .items (any depth,
    [] = the Collection object itself, whose containers are then changed WITHOUT assigning an attribute of the Collection).
    `shape` shadows the items tree so that most edits hit an existing object; 15% of the paths are arbitrary."""
    if rng.random() < 0.15:
        path = [rng.randrange(6) for _ in range(rng.choice([1, 2, 3]))]
        node = None
    else:
        nodes = list(shape_nodes(shape))
        deep = [n for n in nodes if len(n[0]) >= 1]
        path, node = rng.choice(deep if deep and rng.random() < 0.75 else nodes)
        path = [i + rng.choice([0, 0, len(_parent(shape, path[:d])[1])]) for d, i in enumerate(path)]    # modulo spellings
    has_items = node is None or node[0] in ("collection", "chapter")
    r = rng.random()
    pre = []
    if not has_items and r >= 0.34 and r < 0.8:
        r = rng.random() * 0.34
    if r < 0.34:
        act = ["set", rng.choice(EDIT_FIELDS), fz(rng, rng.choice(TITLES + ["11", 7, None]))]
    elif r < 0.5:
        cls = rng.choice(ITEM_CLASSES)
        act = ["append", cls, {"title": fz(rng, rng.choice(TITLES))}]
        if node:
            node[1].append([cls, []])
    elif r < 0.6:
        cls = rng.choice(ITEM_CLASSES)
        i = rng.randrange(6)
        act = ["insert", i, cls, {"title": fz(rng, rng.choice(TITLES)), **({"revision": rng.choice(["3", 0])} if rng.random() < 0.3 else {})}]
        if node:
            node[1].insert(i % (len(node[1]) + 1), [cls, []])
    elif r < 0.7:
        i = rng.randrange(6)
        act = ["pop", i]
        if node and node[1]:
            node[1].pop(i % len(node[1]))
    elif r < 0.8:
        act = ["reverse"]
        if node:
            node[1].reverse()
    elif r < 0.9:
        top = node is not None and node[0] == "collection"
        f = rng.choice(["wikis", "licenses"] if top and rng.random() < 0.8 else ["custom_key", "Title"])
        v = (["O", "WikiConf", {"image": None, "baseurl": "http://w/", "ident": rng.choice(["en", "de", None])}] if f == "wikis" else
             ["D", {"name": "GFDL", "mw_rights_text": rng.choice(TITLES)}] if f == "licenses" else fz(rng, rng.choice(TITLES)))
        if f in ("custom_key", "Title") and rng.random() < 0.7:
            pre.append([path, ["set", f, ["L", [rng.choice(TITLES)] * rng.randrange(2)]]])
        act = ["listappend", f, v]
    else:
        f = rng.choice(["licenses", "wikis", "custom_key", "custom"])
        if f == "licenses" and rng.random() < 0.7:
            pre.append([path, ["listappend", f, ["D", {"name": "GFDL", "mw_rights_text": rng.choice(TITLES)}]]])
        elif f == "wikis" and rng.random() < 0.7:
            pre.append([path, ["listappend", f, ["O", "WikiConf", {"image": None, "baseurl": "http://w/", "ident": None}]]])
        elif rng.random() < 0.7:
            pre.append([path, ["set", f, rng.choice([["D", {"a": "1"}], ["L", [["D", {}], ["D", {"url": "u"}]]]])]])
        act = ["inner", f, rng.randrange(4), rng.choice(["name", "mw_rights_text", "ident", "baseurl", "a", "url"]), fz(rng, rng.choice(TITLES))]
    return pre + [[path, act]]


def _parent(shape, path):
    for i in path:
        shape = shape[1][i]
    return shape


def shape_append_article(shape):
    """Collection.append_article on the shadow tree."""
    if shape[1] and shape[1][-1][0] == "chapter":
        shape[1][-1][1].append(["article", []])
    else:
        shape[1].append(["article", []])


def gen_session(rng, base, shape):
    """The life of one metabook object between requests: its checksum / collection id is asked for (`probe`), the object is
    changed in place at some depth or through the API, and the identifiers are asked for again -- several times."""
    ops = [["probe", base]]
    last = None
    for _ in range(rng.choice([1, 1, 2, 3, 4])):
        for _ in range(rng.choice([1, 1, 1, 2])):
            r = rng.random()
            if last is not None and last[2][0] in ("set", "inner") and r < 0.1:
                ops.append(last)             # the same assignment again: nothing changes, nothing may change
            elif r < 0.78:
                es = [["edit"] + e for e in gen_edit(rng, shape)]
                if len(es) > 1 and rng.random() < 0.5:
                    es.insert(len(es) - 1, ["probe", base])
                ops += es
                last = es[-1]
            elif r < 0.86:
                ops.append(["set", rng.choice(OPT_FIELDS), rng.choice(TITLES)])
            elif r < 0.95:
                ops.append(["append", rng.choice(TITLES), None, {}])
                shape_append_article(shape)
            else:
                ops.append(["reload"])
        ops.append(["probe", base])
    return ops


def rand_value(rng, depth=0):
    r = rng.random()
    if r < 0.45:
        return rng.choice(TITLES)
    if r < 0.55:
        return None
    if r < 0.65:
        return rng.choice([0, 1, -5, 1099511627776, True, False])
    if r < 0.8 and depth < 2:
        return ["L", [rand_value(rng, depth + 1) for _ in range(rng.randrange(3))]]
    if depth < 2:
        return ["D", {rng.choice(["a", "b", "name", "url", "mw_rights_text", "Type", "ß"]): rand_value(rng, depth + 1) for _ in range(rng.randrange(3))}]
    return rng.choice(TITLES)


def gen_case(rng, cid, null_defaults):
    """null_defaults: also assign None to fields that have a non-None class default."""
    ops = []
    kw = {}
    for f in OPT_FIELDS:
        if rng.random() < 0.3:
            kw[f] = fz(rng, rng.choice(TITLES + [None]))
    if rng.random() < 0.15:
        kw[rng.choice(["version", "summary"])] = fz(rng, rng.choice([1, 2, "s"]), 0.5)
    if rng.random() < 0.2:
        kw[rng.choice(EXTRA_FIELDS)] = rand_value(rng)
    ops.append(["new", kw])
    shape = ["collection", []]
    n = rng.choice([0, 1, 2, 3, 5, 8, 13])
    nchap = 0
    for _ in range(n):
        r = rng.random()
        if r < 0.55:
            akw = {}
            q = rng.random()
            if q < 0.35:
                akw["revision"] = rng.choice([None, "12345", 678, "0", 0, "", False])
            if rng.random() < 0.1:
                akw[rng.choice(["wikiident", "content_type", "custom"])] = fz(rng, rng.choice(["en", "text/x-wiki", None] if not null_defaults else ["en", None]), 0.3)
                if not null_defaults and akw.get("content_type", 1) is None:
                    akw["content_type"] = "text/html"
            ops.append(["append", rng.choice(TITLES), rng.choice([None, None, " Shown ", "Ü", ""]), akw])
            shape_append_article(shape)
        elif r < 0.72:
            t = fz(rng, rng.choice(TITLES + ([None] if null_defaults else [])))
            ckw = {} if rng.random() < 0.1 else {"title": t}
            ops.append(["additem", "chapter", ckw])
            shape[1].append(["chapter", []])
            nchap += 1
        elif r < 0.76:
            # an article object put into the list directly: every attribute may carry a falsy value
            akw = {"title": fz(rng, rng.choice(TITLES), 0.3)}
            for f in ("revision", "displaytitle", "content_type", "wikiident"):
                if rng.random() < 0.3:
                    akw[f] = fz(rng, rng.choice(["1", "x"]), 0.6)
            ops.append(["additem", "article", akw])
            shape[1].append(["article", []])
        elif r < 0.8:
            ops.append(["additem", "custom", {"title": fz(rng, rng.choice(TITLES)), "content": fz(rng, "some ''wikitext''", 0.3),
                                              **({"content_type": fz(rng, "text/html", 0.5)} if rng.random() < 0.3 else {})}])
            shape[1].append(["custom", []])
        elif r < 0.95:
            f = rng.choice(OPT_FIELDS + EXTRA_FIELDS + ["summary", "version", "licenses", "wikis"])
            if f == "summary":
                v = fz(rng, rng.choice(TITLES + ([None] if null_defaults else [])))
            elif f == "version":
                v = fz(rng, rng.choice([1, 2] + ([None] if null_defaults else [])), 0.3)
            elif f == "licenses":
                v = ["L", [["D", {"name": "GFDL", "mw_rights_text": rng.choice(TITLES)}] for _ in range(rng.randrange(3))]]
            elif f == "wikis":
                v = ["L", [["O", "WikiConf", {"image": None, "baseurl": "http://w/", "ident": rng.choice(["en", None])}] for _ in range(rng.randrange(2))]]
            else:
                v = fz(rng, rand_value(rng))
            ops.append(["set", f, v])
        else:
            ops.append(["reload"])
        if rng.random() < 0.15:
            ops.append(["state"])
        if rng.random() < 0.04:
            ops.append(["indep", rng.choice(BASES), gen_muts(rng), False])
    base = rng.choice(BASES)
    if rng.random() < 0.5:
        ops += gen_session(rng, base, shape)
    ops += [["state"], ["dumps"], ["walk"], ["roundtrip"], ["ids", base]]
    if rng.random() < 0.15:
        ops += gen_session(rng, base, shape) + [["state"]]
    if rng.random() < 0.6:
        # another consumer loads the very text this request carries and works on its own copy
        ops += [["indep", base, gen_muts(rng), False], ["state"], ["roundtrip"]]
    ops += [["shared"]]
    if rng.random() < 0.5:
        ops += [["reload"], ["state"], ["dumps"]]
    return {"id": cid, "ops": ops}


def gen_text_case(rng, cid, null_defaults):
    """A request whose metabook text was not produced by mwlib: odd type case, nulls, unknown types, extra keys."""
    def art():
        d = {"type": rng.choice(["article", "Article", "ARTICLE", "Krticle" if False else "article"]), "title": rng.choice(TITLES)}
        if rng.random() < 0.4:
            d["revision"] = rng.choice(["1", None, 5])
        if rng.random() < 0.2:
            d["displaytitle"] = rng.choice([None, "D"])
        if null_defaults and rng.random() < 0.2:
            d["content_type"] = None
        return d
    items = []
    for _ in range(rng.randrange(5)):
        if rng.random() < 0.3:
            ch = {"type": rng.choice(["chapter", "Chapter"]), "title": fz(rng, rng.choice(TITLES)), "items": [art() for _ in range(rng.randrange(3))]}
            if rng.random() < 0.3:      # chapters nest
                ch["items"].insert(rng.randrange(len(ch["items"]) + 1),
                                   {"type": "chapter", "title": rng.choice(TITLES), "items": [art() for _ in range(rng.randrange(1, 3))]})
            if null_defaults and rng.random() < 0.3:
                ch["title"] = None
            items.append(ch)
        else:
            items.append(art())
    mb = {"type": rng.choice(["collection", "Collection", "COLLECTION"]), "items": items}
    if rng.random() < 0.5:
        mb["title"] = fz(rng, rng.choice(TITLES))
    if rng.random() < 0.15:
        mb["version"] = rng.choice([0, 1, 2, False, ""])
    if rng.random() < 0.15:
        mb[rng.choice(OPT_FIELDS)] = json_of(rng.choice(FALSY))
    if rng.random() < 0.3:
        mb["licenses"] = [{"name": "L", "type": rng.choice(["weird", "license"])}]
    if rng.random() < 0.2:
        mb["summary"] = rng.choice(["s", ""] + ([None] if null_defaults else []))
    if rng.random() < 0.2:
        mb[rng.choice(EXTRA_FIELDS)] = json_of(rand_value(rng))
    text = json.dumps(mb, ensure_ascii=rng.random() < 0.5, indent=rng.choice([None, 2]))
    base = rng.choice(BASES)
    ops = [["loadtext", text], ["dumps"], ["walk"], ["roundtrip"], ["ids", base]]
    shape = shape_of_json(mb)
    if rng.random() < 0.3:
        # the consumer that loaded the text goes on working with its object
        for _ in range(rng.choice([1, 2])):
            if rng.random() < 0.5:
                ops.append(["append", rng.choice(TITLES), None, {}])
                shape_append_article(shape)
            else:
                ops.append(["set", rng.choice(OPT_FIELDS + ["summary"]), fz(rng, rng.choice(TITLES))])
        ops.append(["state"])
    if rng.random() < 0.35:
        # .. asks for its identifiers and edits it in place, at any depth
        ops += gen_session(rng, base, shape) + [["state"], ["roundtrip"]]
    if rng.random() < 0.6:
        # the same request text is decoded again by another consumer (True: the text as received, not a re-serialisation)
        ops += [["indep", base, gen_muts(rng), rng.random() < 0.7], ["state"], ["roundtrip"]]
    return {"id": cid, "ops": ops + [["shared"]]}


def json_of(p):
    if isinstance(p, list):
        if p[0] == "D":
            return {k: json_of(v) for k, v in p[1].items()}
        if p[0] == "L":
            return [json_of(v) for v in p[1]]
        if p[0] == "O":
            d = {k: json_of(v) for k, v in p[2].items()}
            d["type"] = p[1]
            return d
    return p


class Model:
    def __init__(self, exe):
        self.p = subprocess.Popen([exe], stdin=subprocess.PIPE, stdout=subprocess.PIPE, text=True, bufsize=1 << 20)

    def batch(self, lines):
        out = []

        def reader():
            for _ in range(len(lines) + 1):
                out.append(self.p.stdout.readline().rstrip("\n"))
        t = threading.Thread(target=reader)
        t.start()
        self.p.stdin.write("".join(x + "\n" for x in lines) + "FLUSH\n")
        self.p.stdin.flush()
        t.join()
        if out[-1].strip() != "flushed":
            raise RuntimeError("model driver out of sync: %r" % (out[-3:],))
        return out[:-1]

    def close(self):
        self.p.stdin.close()
        self.p.wait()


# ---------------------------------------------------------------------------------------------- oracle

def effective(p, defaults):
    """The attributes of an object as the program sees them: entries whose name starts with "_" are private,
    an absent entry reads as the class default (None if there is none)."""
    if isinstance(p, list):
        if p[0] == "O":
            d = {}
            cd = defaults.get(p[1], {})
            for k in set(p[2]) | set(cd):
                if k.startswith("_"):
                    continue
                v = effective(p[2][k], defaults) if k in p[2] else cd[k]
                if v is not None:
                    d[k] = v
            return ["O", p[1], d]
        if p[0] == "D":
            return ["D", {k: effective(v, defaults) for k, v in p[1].items()}]
        if p[0] == "L":
            return ["L", [effective(v, defaults) for v in p[1]]]
    return p


def first_diff(a, b, path=""):
    if isinstance(a, list) and isinstance(b, list) and a[0] == b[0]:
        if a[0] == "O":
            if a[1] != b[1]:
                return path + ":class"
            for k in sorted(set(a[2]) | set(b[2])):
                if k not in a[2] or k not in b[2]:
                    return "%s/%s.%s" % (path, a[1], k)
                d = first_diff(a[2][k], b[2][k], "%s/%s.%s" % (path, a[1], k))
                if d:
                    return d
            return None
        if a[0] == "D":
            for k in sorted(set(a[1]) | set(b[1])):
                if k not in a[1] or k not in b[1]:
                    return "%s/{%s}" % (path, k)
                d = first_diff(a[1][k], b[1][k], "%s/{%s}" % (path, k))
                if d:
                    return d
            return None
        if a[0] == "L":
            if len(a[1]) != len(b[1]):
                return path + "/len"
            for i, (x, y) in enumerate(zip(a[1], b[1])):
                d = first_diff(x, y, path + "/[]")
                if d:
                    return d
            return None
    return None if cc.canon(a) == cc.canon(b) else path


def first_diff_last(a, b):
    return str(first_diff(a, b)).split("/")[-1]


def py_defaults(gen):
    res = {}
    for name, defs in gen["classes"].items():
        d = {}
        for k, term in defs:
            d[k] = {"VList []": ["L", []], "VBool false": False, "VBool true": True}.get(term)
            if d[k] is None:
                if term.startswith("VInt"):
                    d[k] = int(term[term.index("(") + 1:term.index(")")])
                elif term.startswith("VStr"):
                    body = term[term.index("[") + 1:term.index("]")]
                    d[k] = "".join(chr(int(x)) for x in body.split(";") if x.strip())
                else:
                    raise RuntimeError("default term %r" % term)
        res[name] = d
    return res


def monitor(run, case, op, r, defaults):
    """The property's oracles on the real observations of one op."""
    k = op[0]
    rp = {"case": case}
    if k == "roundtrip":
        if "exc" in r:
            return
        o = r["ok"]
        if o.get("not_object"):
            run.hit("roundtrip:not-a-collection", "loads(dumps(m)) is not a Collection object any more: %s" % json.dumps(o["m2"])[:120], rp)
            return
        e1, e2 = effective(o["m"], defaults), effective(o["m2"], defaults)
        d = first_diff(e1, e2)
        if d:
            run.hit("roundtrip:" + d.split("/")[-1], "loads(dumps(m)) differs from m at %s (an attribute is lost or changed by the JSON round trip)" % d, rp)
        if o["articles"] != o["articles2"]:
            run.hit("roundtrip-articles", "article order/nesting changed by the round trip: %r vs %r" % (o["articles"][:5], o["articles2"][:5]), rp)
        if o["t2"] != o["t1"]:
            d2 = first_diff(cc.plain_of_json(json.loads(o["t1"])), cc.plain_of_json(json.loads(o["t2"])))
            run.hit("fixed-point:%s" % str(d2).split("/")[-1], "dumps(loads(dumps(m))) != dumps(m): differs at %s" % d2, rp)
        elif o["t3"] != o["t2"]:
            run.hit("fixed-point-2", "the second re-serialisation differs from the first", rp)
        if hashlib.sha256(o["t1"].encode("utf8")).hexdigest() != o["checksum"]:
            run.hit("checksum", "calc_checksum is not sha256 of dumps()", rp)
    elif k == "ids":
        if "exc" in r:
            return
        ids = r["ok"]["ids"]
        same = ids["same"].get("ok")
        if same is None:
            return
        for name in ("permuted", "compact", "spaced", "reserialized"):
            if ids[name].get("ok") != same:
                cause = ""
                if name == "reserialized":
                    cause = ":" + str(first_diff_last(cc.plain_of_json(json.loads(r["ok"]["texts"]["same"])),
                                                 cc.plain_of_json(json.loads(sjson.dumps(json.loads(r["ok"]["texts"]["reserialized"]))))))
                run.hit("id-invariance:%s%s" % (name, cause), "collection id changes under %s of the same metabook (%s vs %s)" %
                        (name, same, ids[name]), rp)
        for name, v in ids.items():
            if (name.startswith("diff:") or name.startswith("param:") or name == "nometabook") and v.get("ok") == same:
                run.hit("id-separation:%s" % name, "collection id does not change under a difference in %s" % name, rp)
    elif k == "indep":
        if "exc" in r or "skipped" in r["ok"]:
            return
        o = r["ok"]
        first = o["first"]
        after = first if o["first_after"] == "=first" else o["first_after"]
        again = first if o["again"] == "=first" else o["again"]
        muts = json.dumps(op[2])[:160]
        if o["shared"]:
            run.hit("indep:aliased", "two separate loads() of one text (or a load and the object it was "
                    "serialised from) share mutable state: %r" % (o["shared"][:6],), rp)
        d = first_diff(first, after)
        if d or cc.canon(first) != cc.canon(after):
            run.hit("indep:other-copy-changed:" + str(d).split("/")[-1], "a consumer changed its own loaded copy (%s) and the copy another consumer "
                    "had loaded from the same text changed at %s" % (muts, d), rp)
        d = first_diff(first, again)
        if d or cc.canon(first) != cc.canon(again):
            run.hit("indep:reload-differs:" + str(d).split("/")[-1], "loads(text) is not a function of the text: after a consumer changed its own "
                    "copy (%s), loading the same text again differs from the first load at %s" % (muts, d), rp)
        if o.get("loadtime", "=first") != "=first":
            d = first_diff(o["loadtime"], first)
            run.hit("indep:load-differs-from-earlier-load:" + str(d).split("/")[-1], "loads(text) is not a function of the text: it returns "
                    "something else (at %s) than when the same text was loaded earlier in the case, after the object loaded then was changed" % d, rp)
        if o["titles_first"] != o["titles_again"]:
            run.hit("indep:reload-articles", "articles of loads(text) changed from %r to %r after a consumer changed its own copy" %
                    (o["titles_first"][:5], o["titles_again"][:5]), rp)
        if o["dumps_first"] != o["dumps_again"]:
            run.hit("indep:reload-dumps", "loads(text).dumps() changed after a consumer changed its own copy (%s)" % muts, rp)
        if o["id_before"] != o["id_after"]:
            run.hit("indep:id-changed", "make_collection_id of the identical request changed from %r to %r after a consumer changed its own copy "
                    "of the metabook (%s)" % (o["id_before"], o["id_after"], muts), rp)
        if o["bystander_changed"]:
            run.hit("indep:source-changed", "the metabook the text was serialised from changed when a consumer changed the copy it had loaded", rp)
    elif k == "shared":
        if r["ok"]:
            run.hit("shared-defaults:" + r["ok"][0][:60], "operations on one metabook changed another object / a class default: %r" % r["ok"][:3], rp)


def edit_kind(op):
    """Fingerprint part: what kind of change and how deep below the Collection object."""
    if op[0] == "edit":
        return "%s@depth%d" % (op[2][0], len(op[1]))
    return op[0] + "@api"


def monitor_probes(run, case, outs):
    """C13 over the LIFE of one metabook object: `probe` ops ask for checksum / collection id of the live object between
    API calls and in-place edits at any depth.  The identifiers depend only on the content: at every probe the checksum is
    that of a fresh copy of the same content, and between any two probes checksum and id change exactly when the dumped
    JSON changes."""
    rp = {"case": case}
    probes = []
    for oi, (op, r) in enumerate(zip(case["ops"], outs)):
        if op[0] == "probe" and "ok" in r:
            probes.append((oi, r["ok"]))
    for n, (oi, p) in enumerate(probes):
        between = [o for o in case["ops"][(probes[n - 1][0] + 1 if n else 0):oi] if o[0] in ("edit", "set", "append", "additem", "reload", "indep")]
        last = edit_kind(between[-1]) if between else "none"
        if p["checksum"] != p["checksum_again"]:
            run.hit("probe:checksum-unstable", "two calc_checksum calls in a row on the same object differ", rp)
        if p["fresh_checksum"] is not None and p["checksum"] != p["fresh_checksum"]:
            run.hit("probe:checksum-not-of-content:" + last, "calc_checksum(m) = %s.. but a fresh copy of the same content, "
                    "loads(m.dumps()), has checksum %s.. (last change before the probe: %s)" % (p["checksum"][:12], p["fresh_checksum"][:12], last), rp)
        elif hashlib.sha256(p["text"].encode("utf8")).hexdigest() != p["checksum"]:
            run.hit("probe:checksum-not-of-dump:" + last, "calc_checksum(m) is not sha256 of m.dumps() (last change before the probe: %s)" % last, rp)
        for m in range(n):
            oj, q = probes[m]
            same_text = q["text"] == p["text"]
            adj = "" if m == n - 1 else ":non-adjacent"
            lastk = last if m == n - 1 else "non-adjacent"
            if not same_text and q["checksum"] == p["checksum"]:
                run.hit("probe:checksum-unchanged:" + lastk, "the metabook changed between two calc_checksum calls (ops #%d..#%d, last: %s; "
                        "dumps() differ) but the checksum stayed %s.." % (oj, oi, last, p["checksum"][:12]), rp)
            if same_text and q["checksum"] != p["checksum"]:
                run.hit("probe:checksum-changed-same-content" + adj, "dumps() at ops #%d and #%d are identical but the checksums differ" % (oj, oi), rp)
            qi, pi = q["id"].get("ok"), p["id"].get("ok")
            if qi is None or pi is None:
                continue
            if not same_text and qi == pi:
                run.hit("probe:id-unchanged:" + lastk, "the metabook changed between ops #%d and #%d (last: %s) but the collection id of the "
                        "request carrying its dump stayed %s" % (oj, oi, last, pi), rp)
            if same_text and qi != pi:
                run.hit("probe:id-changed-same-content" + adj, "dumps() at ops #%d and #%d are identical but the collection ids differ" % (oj, oi), rp)


# ---------------------------------------------------------------------------------------------- settling hits

class Sink:
    """Collects what the monitor reports on the batch run; settled (re-run alone, minimised) before it reaches run.hit."""

    def __init__(self):
        self.hits = []

    def hit(self, fingerprint, what, replay):
        self.hits.append({"fingerprint": fingerprint, "what": what, "replay": replay})


def run_cases_fresh(src, cases, defaults):
    """Run a sequence of cases in ONE fresh interpreter; the monitor's verdicts on the LAST case."""
    cs = [dict(c, id=i) for i, c in enumerate(cases)]
    rc, out = core.run_impl("vt.harness.c13_impl", [], src=src, input="".join(json.dumps(c) + "\n" for c in cs))
    rs = [json.loads(x) for x in out.splitlines() if x.startswith("{")]
    sink = Sink()
    if rc != 0 or len(rs) != len(cs) or "harness_error" in rs[-1]:
        sink.observed = rs[-1] if rs else out[-300:]
        return sink
    sink.observed = rs[-1]
    for op, r in zip(cs[-1]["ops"], rs[-1]["out"]):
        monitor(sink, cs[-1], op, r, defaults)
    monitor_probes(sink, cs[-1], rs[-1]["out"])
    return sink


def ddmin(items, test, pool, budget):
    """Delta debugging: a 1-minimal sublist of `items` (order kept) on which test() still holds.  The candidates of one
    round run in parallel; the first one (fixed order) that holds is taken: deterministic."""
    n = 2
    items = list(items)
    while len(items) >= 1 and budget[0] > 0:
        size = max(1, len(items) // n)
        chunks = [items[i:i + size] for i in range(0, len(items), size)]
        cands = []
        if n > 2 or len(chunks) == 2:
            cands += chunks
        cands += [sum(chunks[:i] + chunks[i + 1:], []) for i in range(len(chunks))]
        seen, uniq = set(), []
        for c in cands:
            k = json.dumps(c, sort_keys=True)
            if len(c) < len(items) and k not in seen:
                seen.add(k)
                uniq.append(c)
        budget[0] -= len(uniq)
        res = list(pool.map(test, uniq))
        hit = next((c for c, ok in zip(uniq, res) if ok), None)
        if hit is not None:
            items = hit
            n = max(2, min(n - 1, len(items)))
            if not items:
                break
        elif size == 1:
            break
        else:
            n = min(len(items), n * 2)
    return items


def shrink_json(j, test, budget):
    """Greedy structural shrinking of a JSON value: drop dict entries / list elements while test(j) holds."""
    changed = True
    while changed and budget[0] > 0:
        changed = False
        for path in list(_paths(j)):
            if budget[0] <= 0:
                break
            cand = json.loads(json.dumps(j))
            o = cand
            try:
                for k in path[:-1]:
                    o = o[k]
                del o[path[-1]]
            except (KeyError, IndexError, TypeError):
                continue
            budget[0] -= 1
            if test(cand):
                j = cand
                changed = True
                break
    return j


def _paths(j, pre=()):
    """Paths of all removable parts, big ones (list elements) first."""
    if isinstance(j, list):
        for i in range(len(j) - 1, -1, -1):
            yield pre + (i,)
        for i, x in enumerate(j):
            yield from _paths(x, pre + (i,))
    elif isinstance(j, dict):
        for k in sorted(j):
            if k != "type":
                yield pre + (k,)
        for k in sorted(j):
            yield from _paths(j[k], pre + (k,))


def settle_hits(run, sink, src, defaults, cases, nshard):
    """Each distinct clause the monitor reported on the batch run is re-run ALONE in a fresh interpreter (what
    `./check C13 --replay` does) and shrunk while the same clause keeps firing: ops of the case (delta debugging), keyword
    arguments / mutation lists of the remaining ops, the structure of a hand-made request text.  A clause that does not fire
    alone depends on what the process did before: its replay is the sequence of cases of that process, shrunk the same way."""
    by_fp = {}
    for h in sink.hits:
        by_fp.setdefault(h["fingerprint"], []).append(h)
    if not by_fp:
        return
    import concurrent.futures
    pool = concurrent.futures.ThreadPoolExecutor(8)

    def fires(fp, cs):
        try:
            s = run_cases_fresh(src, cs, defaults)
        except Exception:
            return None
        return next((h for h in s.hits if h["fingerprint"] == fp), None)

    try:
        # report at most 5 clauses (run.finish prints 5), spread over the clause families
        fams = {}
        for fp in by_fp:
            fams.setdefault(fp.split(":")[0], []).append(fp)
        order = []
        while len(order) < 5 and any(fams.values()):
            for f in sorted(fams):
                if fams[f] and len(order) < 5:
                    order.append(fams[f].pop(0))
        for fp in order:
            budget = [100]
            got, pre, case = None, [], None
            for h in by_fp[fp][:3]:
                case = {"ops": h["replay"]["case"]["ops"]}
                budget[0] -= 1
                got = fires(fp, [case])
                if got:
                    break
            if not got:
                h = by_fp[fp][0]
                cid_ = h["replay"]["case"]["id"]
                case = {"ops": h["replay"]["case"]["ops"]}
                pre = [{"ops": c["ops"]} for c in cases if c["id"] % nshard == cid_ % nshard and c["id"] < cid_]
                budget[0] -= 1
                got = fires(fp, pre + [case])
                if got:
                    pre = ddmin(pre, lambda sub: bool(fires(fp, sub + [case])), pool, budget)
            if not got:
                run.hit(fp + ":not-reproduced-alone", by_fp[fp][0]["what"] + " (seen in the batch run; did not fire again when re-run in a fresh "
                        "process)", {"case": case})
                continue
            ops = ddmin(case["ops"], lambda sub: bool(fires(fp, pre + [{"ops": sub}])), pool, budget)
            # second level: keyword dicts, mutation lists, request texts of the remaining ops
            for oi in range(len(ops)):
                op = ops[oi]

                def with_op(new, oi=oi):
                    return pre + [{"ops": ops[:oi] + [new] + ops[oi + 1:]}]
                if op[0] in ("new", "additem", "append"):
                    slot = {"new": 1, "additem": 2, "append": 3}[op[0]]
                    keys = ddmin(sorted(op[slot]), lambda sub, op=op, slot=slot: bool(fires(fp, with_op(op[:slot] + [{k: op[slot][k] for k in sub}] + op[slot + 1:]))),
                                 pool, budget)
                    ops[oi] = op[:slot] + [{k: op[slot][k] for k in keys}] + op[slot + 1:]
                elif op[0] == "indep":
                    muts = ddmin(op[2], lambda sub, op=op: bool(fires(fp, with_op([op[0], op[1], sub, op[3]]))), pool, budget)
                    ops[oi] = [op[0], op[1], muts, op[3]]
                elif op[0] == "loadtext":
                    j = shrink_json(json.loads(op[1]), lambda cand: bool(fires(fp, with_op(["loadtext", json.dumps(cand)]))), budget)
                    if json.dumps(j) != json.dumps(json.loads(op[1])):
                        ops[oi] = ["loadtext", json.dumps(j)]
            final = fires(fp, pre + [{"ops": ops}]) or got
            rp = {"case": {"ops": ops}}
            if pre:
                rp["before"] = pre
            run.hit(fp, final["what"], rp)
    finally:
        pool.shutdown()


# ---------------------------------------------------------------------------------------------- check

def generate(src):
    return c13_classes.generate(src)


def build():
    return core.ocaml_build("c13", "C13/Extract.v", "driver.ml")


def model_lines(op):
    k = op[0]
    if k == "new":
        return ["NEW %s %s" % (cc.enc_str("collection"), cc.enc_kvs(op[1]))]
    if k == "append":
        return ["APPEND %s %s %s" % (cc.enc_str(op[1]), "-" if op[2] is None else cc.enc_str(op[2]), cc.enc_kvs(op[3]))]
    if k == "additem":
        return ["ADDITEM %s %s" % (cc.enc_str(op[1]), cc.enc_kvs(op[2]))]
    if k == "set":
        return ["SET %s %s" % (cc.enc_str(op[1]), cc.enc_plain(op[2]))]
    if k == "edit":
        path, act = op[1], op[2]
        head = "EDIT %d %s " % (len(path), " ".join(str(i) for i in path))
        a = act[0]
        if a == "set":
            return [head + "SET %s %s" % (cc.enc_str(act[1]), cc.enc_plain(act[2]))]
        if a == "append":
            return [head + "APPEND %s %s" % (cc.enc_str(act[1]), cc.enc_kvs(act[2]))]
        if a == "insert":
            return [head + "INSERT %d %s %s" % (act[1], cc.enc_str(act[2]), cc.enc_kvs(act[3]))]
        if a == "pop":
            return [head + "POP %d" % act[1]]
        if a == "reverse":
            return [head + "REVERSE"]
        if a == "listappend":
            return [head + "LAPPEND %s %s" % (cc.enc_str(act[1]), cc.enc_plain(act[2]))]
        if a == "inner":
            return [head + "INNER %s %d %s %s" % (cc.enc_str(act[1]), act[2], cc.enc_str(act[3]), cc.enc_plain(act[4]))]
        raise RuntimeError("edit %r" % (act,))
    if k == "state":
        return ["STATE"]
    if k == "dumps":
        return ["TOJSON"]
    if k == "reload":
        return ["RELOAD"]
    if k == "loadtext":
        return ["LOAD " + cc.enc_plain(cc.plain_of_json(json.loads(op[1]))), "STATE"]
    if k == "walk":
        return ["WALK"]
    if k == "roundtrip":
        return ["WF"]
    return []


def expected_id(version, base, canon_json):
    """nserve.make_collection_id with dumps := simplejson.dumps(sort_keys, indent=4), H := sha256, on the model's
    canonical JSON value."""
    pre = version + "".join(repr(base.get(k)) for k in ("base_url", "script_extension", "login_credentials"))
    if canon_json is not None:
        pre += hashlib.sha256(sjson.dumps(canon_json, sort_keys=True, indent=4).encode("utf8")).hexdigest()
    return hashlib.sha256(pre.encode("utf8")).hexdigest()[:16]


def check(run):
    run.rule = ("op sequences on a Collection: constructor keywords, append_article (whitespace, displaytitle, revision), Chapter/Custom/Article "
                "items, setattr of optional / extra / underscore fields with Unicode, None, ints, lists, plain dicts, WikiConf objects, reload; "
                "every attribute slot also receives the falsy-but-set values 0, '', False, [], {} (12-60%); plus hand-made request texts (type "
                "case variants, nulls, falsy values, unknown types, extra keys). Each case ends with state, dumps, walk, round trip, ids for 5 "
                "spellings of the same metabook, up to 9 one-field differences (title/revision changed, emptied, zeroed; order; chapter title; "
                "item removed), 3 parameter differences; 60% of the cases continue with `indep`: the same text is loaded twice more, 1-5 "
                "mutations (append_article, setattr, items/wikis/licenses append, in-place edit of an item, pop, reverse) are applied to one "
                "copy, then the other copy, a further load, its dumps and the collection id of the identical request are compared with what "
                "they were. 50% of the built and 35% of the hand-written metabooks go through a LIFE session: probe (calc_checksum, dumps, "
                "collection id of the live object), then 1-4 rounds of 1-2 changes -- in-place edits addressed by an index path through "
                ".items (depth 0-3, 15% arbitrary paths, modulo spellings): setattr, items.append/insert/pop/reverse, append to a list-valued "
                "attribute (wikis, licenses, custom), assignment inside a dict/object held by an attribute; the same assignment repeated; "
                "setattr / append_article on the Collection; reload -- each followed by a probe; at every probe the checksum must be that of "
                "loads(dumps()) and between any two probes checksum and id change exactly when dumps() changes. distinct = distinct op list; non-trivial = at least one article. Monitor hits are re-run alone in a fresh process "
                "and delta-debugged (ops, keyword arguments, mutation lists, request text) before they are reported")
    run.trusted = ["Coq 8.16.1 kernel (coqc); vm_compute in the class-table obligations and Examples",
                   "extraction (ExtrOcamlBasic only) + ocaml/c13/driver.ml + vt/harness/c13_codec.py",
                   "hand-written model of MetabookObject.__init__/_json, object_hook, append_article, walk, make_collection_id's pre-image "
                   "(coq/C13/Model.v) and of in-place edits through index paths (coq/C13/ModelEdit.v = vt/harness/c13_impl.py "
                   "nav/apply_edit); tie = differential run",
                   "vt/gen/c13_classes.py (class defaults and object_hook mapping regenerated from metabook.py / myjson.py)",
                   "oracles (Section hypotheses): json text codec = simplejson dumps(sort_keys)/loads (dumps injective on key-sorted values), "
                   "sha256 hex digest (only its length is used), repr of None/str is prefix-free",
                   "str.lower / str.isspace tables restated in the model and compared over all code points"]
    run.assumptions = ["metabook values are None/bool/int/str/list/dict/MetabookObject (no floats)",
                       "plain dicts inside a metabook carry no `type` naming a metabook class; no attribute is called `self` or `type`",
                       "collision resistance of sha256 and the 16-hex-digit truncation are NOT claimed: id theorems are about pre-images"]
    src = core.snapshot()
    run.obligation("snapshot of the working tree taken and extensions built", os.path.isdir(src), src)
    gen_out = {}

    def gen():
        gen_out["g"] = generate(src)
    run.check_proofs("C13", gen=gen)
    if "g" not in gen_out:
        return
    defaults = py_defaults(gen_out["g"])
    exe = build()
    model = Model(exe)
    try:
        _check(run, src, model, defaults)
    finally:
        model.close()


def load_corpus():
    corpus = os.path.join(core.VERIF, "corpus", "C13")
    res = []
    if os.path.isdir(corpus):
        for fn in sorted(os.listdir(corpus)):
            obj = json.load(open(os.path.join(corpus, fn)))
            if "case" in obj:
                res.append(obj["case"])
    return res


def _check(run, src, model, defaults):
    tier = run.tier
    n = 1400 if tier == "quick" else 40000
    nt = 600 if tier == "quick" else 15000
    cases = load_corpus()
    for i in range(n):
        cases.append(gen_case(run.rng, 0, null_defaults=(i % 10 == 0)))
    for i in range(nt):
        cases.append(gen_text_case(run.rng, 0, null_defaults=(i % 10 == 0)))
    for i, c in enumerate(cases):
        c["id"] = i
    nshard = 1 if tier == "quick" else min(16, core.NPROC)
    shards = [cases[i::nshard] for i in range(nshard)]
    import concurrent.futures
    with concurrent.futures.ThreadPoolExecutor(nshard) as ex:
        futs = [ex.submit(core.run_impl, "vt.harness.c13_impl", [], src, "".join(json.dumps(h) + "\n" for h in sh), 3000) for sh in shards]
        outs = [f.result() for f in futs]
    results = {}
    for rc, out in outs:
        if rc != 0:
            raise RuntimeError("c13_impl failed rc=%s: %s" % (rc, out[-800:]))
        for x in out.splitlines():
            if x.startswith("{"):
                o = json.loads(x)
                results[o["id"]] = o
    if len(results) != len(cases):
        raise RuntimeError("c13_impl: %d/%d cases" % (len(results), len(cases)))
    dis_ops, dis_ids = [], []
    sink = Sink()
    dist = {"ops": {}, "articles": {}, "id_variants": {}, "outcomes": {}, "indep": {}, "edits": {}, "probes": {}}
    nops = nids = 0
    for case in cases:
        res = results[case["id"]]
        if "harness_error" in res:
            raise RuntimeError("harness error in case %r: %s" % (case["ops"][:3], res["harness_error"]))
        lines, plan = [], []
        for oi, op in enumerate(case["ops"]):
            ml = model_lines(op)
            for j, ln in enumerate(ml):
                lines.append(ln)
                plan.append((oi, j == len(ml) - 1))
            if op[0] == "ids" and "ok" in res["out"][oi]:
                for name, text in res["out"][oi]["ok"]["texts"].items():
                    try:
                        lines.append("CANON " + cc.enc_plain(cc.plain_of_json(json.loads(text))))
                        plan.append((oi, name))
                    except TypeError:
                        pass
        mout = model.batch(lines)
        narts = 0
        bad = False
        canon_of = {}
        for (oi, last), m in zip(plan, mout):
            op, r = case["ops"][oi], res["out"][oi]
            if isinstance(last, str):
                canon_of[(oi, last)] = m
                continue
            if not last:
                continue
            k = op[0]
            nops += 1
            dist["ops"][k] = dist["ops"].get(k, 0) + 1
            want = None
            if k in ("new", "set"):
                want = (m.strip() == "ok")
            elif k in ("append", "additem", "edit"):
                want = (m.strip() == "ok")      # failures show in the next state comparison
            elif k == "reload":
                want = (m.strip() == "ok") == ("ok" in r)
            elif k in ("state", "loadtext"):
                if "exc" in r:
                    want = m.strip() in ("E", "ERR") or '"E"' in cc.canon(cc.dec_plain(m))
                else:
                    want = cc.canon(cc.dec_plain(m)) == cc.canon(r["ok"])
            elif k == "dumps":
                if "exc" in r:
                    want = '"E"' in cc.canon(cc.dec_plain(m))
                else:
                    want = cc.canon(cc.dec_plain(m)) == cc.canon(cc.plain_of_json(r["ok"]["json"]))
            elif k == "roundtrip":
                want = True
                key = "wf" if m.strip() == "1" else "not_wf"
                dist["outcomes"][key] = dist["outcomes"].get(key, 0) + 1
            elif k == "walk":
                if "ok" in r:
                    want = cc.canon(cc.dec_plain(m)) == cc.canon(["L", r["ok"]])
                    narts = sum(1 for x in r["ok"] if x[1] == "Article")
                else:
                    want = True
            if want is False and not bad:
                bad = True
                try:
                    mp = cc.dec_plain(m)
                    rp_ = r["ok"] if k in ("state", "loadtext") else cc.plain_of_json(r["ok"]["json"]) if k == "dumps" else ["L", r["ok"]]
                    where = first_diff(rp_, mp)
                except Exception:
                    where = "?"
                dis_ops.append("ops %s: op #%d %r differs at %s: impl %s model %s" % (json.dumps(case["ops"][:oi + 1])[:700], oi, op[0], where,
                                                                                  json.dumps(r)[:200], m[:100]))
        monitor_probes(sink, case, res["out"])
        prev_text = None
        for op, r in zip(case["ops"], res["out"]):
            if op[0] == "edit":
                key = edit_kind(op) + (":skipped" if r.get("ok") == "skipped" else ":raised" if "exc" in r else "")
                dist["edits"][key] = dist["edits"].get(key, 0) + 1
            elif op[0] == "probe" and "ok" in r:
                key = "first" if prev_text is None else "content-changed" if prev_text != r["ok"]["text"] else "content-unchanged"
                dist["probes"][key] = dist["probes"].get(key, 0) + 1
                prev_text = r["ok"]["text"]
        for oi, op in enumerate(case["ops"]):
            r = res["out"][oi]
            monitor(sink, case, op, r, defaults)
            if op[0] == "indep" and "ok" in r and "skipped" not in r["ok"]:
                key = "copy-mutated" if r["ok"]["mutated"] else "copy-unchanged"
                dist["indep"][key] = dist["indep"].get(key, 0) + 1
            if op[0] == "ids" and "ok" in r:
                for name, v in r["ok"]["ids"].items():
                    nids += 1
                    dist["id_variants"][name.split(":")[0]] = dist["id_variants"].get(name.split(":")[0], 0) + 1
                    base = dict(op[1])
                    if name.startswith("param:"):
                        key = name.split(":")[1]
                        base[key] = (base.get(key) or "") + "x"
                        cm = canon_of.get((oi, "same"))
                    elif name == "nometabook":
                        cm = None
                    else:
                        cm = canon_of.get((oi, name))
                    if name != "nometabook" and cm is None:
                        continue
                    if cm is not None and cm.startswith("ERR"):
                        raise RuntimeError("model driver: %s on %s" % (cm, name))
                    if cm is not None and cm.strip() == "E":
                        exp = {"exc": True}
                    else:
                        cj = None if cm is None else cc.json_of_plain(cc.dec_plain(cm))
                        exp = {"ok": expected_id(r["version"], base, cj)}
                    got = {"ok": v["ok"]} if "ok" in v else {"exc": True}
                    if got != exp and not bad:
                        bad = True
                        dis_ids.append("collection id %s of %s: impl %r, from the model's canonical JSON %r" % (name, json.dumps(case["ops"])[:500], v, exp))
        run.count(json.dumps(case["ops"], sort_keys=True), nontrivial=narts > 0)
        b = "0" if narts == 0 else "1-3" if narts <= 3 else "4+"
        dist["articles"][b] = dist["articles"].get(b, 0) + 1
        if len(run.samples) < 4 and narts >= 2 and len(case["ops"]) < 14:
            ids = [r for o, r in zip(case["ops"], res["out"]) if o[0] == "ids"]
            run.sample({"ops": case["ops"][:8], "ids": {k: v.get("ok") for k, v in list(ids[0]["ok"]["ids"].items())[:7]} if ids and "ok" in ids[0] else None})
    run.tie("metabook op sequences: extracted model vs mwlib.core.metabook/myjson (state, dumps as JSON value, walk)", nops, dis_ops)
    run.tie("make_collection_id: recomputed from the model's canonical JSON with simplejson+sha256 vs nserve.make_collection_id", nids, dis_ids)
    settle_hits(run, sink, src, defaults, cases, nshard)
    # Unicode tables restated in the model
    rc, out = core.run_impl("vt.harness.c13_impl", ["unicode"], src=src, timeout=600)
    u = json.loads([x for x in out.splitlines() if x.startswith("{")][-1])
    lows = [c for c, _ in u["lower_to_ascii"]] + list(range(0, 128))
    mo = model.batch(["LOWER 1 %d" % c for c in lows])
    okl = all(cc.Reader(m).str() == chr(c).lower() for c, m in zip(lows, mo))
    run.obligation("str.lower(): only U+0130 and U+212A lower to text containing ASCII; model lower_char == str.lower on them and on ASCII",
                   sorted(c for c, _ in u["lower_to_ascii"]) == [0x130, 0x212a] and okl, repr(u["lower_to_ascii"][:5]))
    sp = [int(x) for x in model.batch(["SPACES"])[0].split()]
    run.obligation("py_isspace (model, used by append_article's strip) == str.isspace on all code points", sp == u["spaces"],
                   "model-only %r impl-only %r" % (sorted(set(sp) - set(u["spaces"]))[:5], sorted(set(u["spaces"]) - set(sp))[:5]))
    run.coverage["exhaustive"] = False
    run.coverage["input_distribution"] = dist


def replay(obj):
    src = core.snapshot()
    g = generate(src)
    defaults = py_defaults(g)
    case = obj["replay"].get("case")
    if not case:
        print(json.dumps(obj["replay"], indent=1))
        return 1
    seq = [dict(c) for c in obj["replay"].get("before", [])] + [dict(case)]
    sink = run_cases_fresh(src, seq, defaults)
    res = sink.observed
    for op, r in zip(case["ops"], res.get("out", []) if isinstance(res, dict) else []):
        if op[0] in ("roundtrip", "ids", "shared", "indep"):
            print(json.dumps({"op": op[0], "result": r}, indent=1)[:3000])
        elif op[0] == "probe" and "ok" in r:
            print(json.dumps({"op": "probe", "checksum": r["ok"]["checksum"], "checksum of loads(dumps())": r["ok"]["fresh_checksum"],
                              "sha256(dumps())": hashlib.sha256(r["ok"]["text"].encode("utf8")).hexdigest(), "id": r["ok"]["id"]}))
        elif op[0] == "edit":
            print(json.dumps({"op": op, "result": r}))
    for h in sink.hits:
        print("REPRODUCED:", h["fingerprint"], "-", h["what"])
    if not sink.hits:
        print("not reproduced")
    return 1 if sink.hits else 0
