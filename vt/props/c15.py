"""C15 — extraction never writes outside the destination.
Proof: coq/C15 (normpath/join/dirname/extractall model, containment for all names and destinations).
Tie: extracted model vs nuwiki.extractall on generated zips.  Search: filesystem-diff oracle."""
import itertools
import json
import os
import subprocess

from vt import core

LEVEL = "proof"
COMPS = ["..", ".", "", "a", "b", "out", "out2", "ou"]
# components that only LOOK harmless: blank/tab-padded dots (a later "clean-up" of names must not turn them into '..')
PADDED = [".. ", " ..", "..\t", " . ", ". ", " ", "...", "..  "]
DSTS = ["out", "out/", "./out", "out//", "../w/out", "out/.", "$CWD/out", "$CWD/out/", "$CWD/../w/out", "/$CWD/out",
        "//$CWD/out", "out/../out"]


def gen_names(rng, tier):
    depth_ex = 3 if tier == "quick" else 4
    names = []
    for d in range(1, depth_ex + 1):
        for cs in itertools.product(COMPS, repeat=d):
            names.append(list(cs))
    # sampled deeper names
    for _ in range(1500 if tier == "quick" else 40000):
        d = rng.choice([4, 5]) if tier == "quick" else 5
        names.append([rng.choice(COMPS) for _ in range(d)])
    for _ in range(400 if tier == "quick" else 8000):
        d = rng.choice([1, 2, 3, 4])
        cs = [rng.choice(COMPS + PADDED) for _ in range(d)]
        cs[rng.randrange(d)] = rng.choice(PADDED)
        names.append(cs)
    res = []
    for cs in names:
        sep = "/"
        if rng.random() < 0.25:
            sep = "\\"
        elif rng.random() < 0.1:
            sep = rng.choice(["/", "\\"])
        n = sep.join(cs)
        r = rng.random()
        if r < 0.15:
            n = "$CWD/" + n          # absolute (inside the sandbox root)
        elif r < 0.22:
            n = "$CWD/out/" + n      # absolute path into the destination
        elif r < 0.26:
            n = "/" + "$CWD/out2/" + n   # two leading slashes
        if rng.random() < 0.2:
            n += "/"
        if rng.random() < 0.03:
            n = n.replace("a", "ä\U0001F600")
        res.append(n)
    return res


def gen_cases(rng, tier):
    cases = []
    names = gen_names(rng, tier)
    for i, n in enumerate(names):
        dst = DSTS[i % len(DSTS)] if rng.random() < 0.7 else rng.choice(DSTS)
        pre = rng.choice([[], ["ok/f"], ["ok/", "ok/g", "h"]])
        post = rng.choice([[], ["after"], ["../out2/late"]])
        cases.append({"id": i, "steps": [{"dst": dst, "names": pre + [n] + post}]})
    # histories: several archives extracted by one process into sibling destinations; a later archive
    # names files of an earlier destination (state kept between calls must not weaken the check)
    sib = {"out": ["out", "out/", "$CWD/out"], "out2": ["out2", "out2/", "$CWD/out2", "../w/out2"], "ou": ["ou", "./ou"]}
    nh = 300 if tier == "quick" else 6000
    for j in range(nh):
        order = rng.sample(sorted(sib), rng.choice([2, 2, 3]))
        steps = []
        for k, d in enumerate(order):
            nm = rng.choice([["images/a.png", "nfo.json"], ["nfo.json"], ["images/", "images/a.png", "b/c/d.txt"]])
            nm = list(nm)
            for prev in order[:k]:
                tgt = rng.choice(["images/planted.png", "nfo.json", "new.txt", "images/a.png", "x/y"])
                form = rng.choice(["../%s/%s", "a/../../%s/%s", "$CWD/%s/%s", "..\\%s\\%s", "./../%s/%s"])
                nm.insert(rng.randrange(len(nm) + 1), form % (prev, tgt))
            steps.append({"dst": rng.choice(sib[d]), "names": nm})
        cases.append({"id": len(cases), "steps": steps})
    # archives with symlink-mode entries (unix mode S_IFLNK in external_attr): link to an inside directory, a second
    # link whose member name goes THROUGH the first, then regular members below the links
    for j in range(120 if tier == "quick" else 2500):
        d = rng.choice(sorted(sib))
        l1 = rng.choice(["a/b/l1", "l1", "images/l1"])
        t1 = rng.choice(["..", ".", "../..", "../../..", "$CWD/out2", "../" + rng.choice(sorted(sib))])
        l2 = rng.choice([l1 + "/l2", l1 + "/x/l2", "l2"])
        t2 = rng.choice(["..", "../..", "../../..", "$CWD", "../../" + rng.choice(sorted(sib))])
        tail = rng.choice([l2 + "/evil.txt", l1 + "/evil.txt", l2 + "/d/", l2 + "/../evil2.txt", "ok.txt"])
        nm = ["a/b/keep.txt", l1 + "->" + t1, l2 + "->" + t2, tail]
        if rng.random() < 0.3:
            nm.insert(0, "a/")
        cases.append({"id": len(cases), "steps": [{"dst": rng.choice(sib[d]), "names": nm}]})
    # the SAME ZipFile object extracted into two or three different destinations (e.g. a server re-opening a
    # collection): every extraction must stay inside its own destination
    for j in range(60 if tier == "quick" else 1200):
        order = rng.sample(sorted(sib), rng.choice([2, 2, 3]))
        nm = list(rng.choice([["images/a.png", "nfo.json"], ["nfo.json", "b/c/d.txt"], ["images/", "images/a.png", "x"]]))
        if rng.random() < 0.5:
            nm.append(rng.choice(["../%s/extra.txt" % order[0], "a/../b.txt", "./c.txt"]))
        cases.append({"id": len(cases), "reuse_zip": True,
                      "steps": [{"dst": rng.choice(sib[d]), "names": nm} for d in order]})
    return cases


def model_line(cwd, dst, names):
    return "|".join(core.cps(x) for x in [cwd, dst] + names)


def parse_model(line):
    ops_s, o_s = line.rstrip("\n").split("#")
    ops = []
    for o in ops_s.split(";"):
        if o:
            ops.append([o[0], core.uncps(o[2:])])
    if o_s.startswith("REJ"):
        return ops, "REJ"
    return ops, o_s


def run_cases(run, cases, exe, src):
    sbox = os.path.join(core.scratch(), "c15box")
    os.makedirs(sbox, exist_ok=True)
    inp = "".join(json.dumps(c) + "\n" for c in cases)
    rc, out = core.run_impl("vt.harness.c15_impl", [sbox], src=src, input=inp, timeout=3000)
    results = []
    for ln in out.splitlines():
        if ln.startswith("{"):
            results.append(json.loads(ln))
    if rc != 0 or len(results) != len(cases):
        raise RuntimeError("impl harness failed rc=%s got %d/%d results: %s" % (rc, len(results), len(cases), out[-800:]))
    for r in results:
        if "harness_error" in r:
            raise RuntimeError("harness error: " + r["harness_error"])
    lines = "".join(model_line(r["cwd"], st["dst"], st["read_names"]) + "\n" for r in results for st in r["steps"])
    p = subprocess.run([exe], input=lines, capture_output=True, text=True, timeout=3000)
    mres = [parse_model(x) for x in p.stdout.splitlines()]
    disagreements = []
    k = 0
    stats = {"DONE": 0, "REJ": 0, "OSERROR": 0, "other": 0, "multi_step_cases": 0}
    for c, r in zip(cases, results):
        cwd = r["cwd"]
        key = tuple((st["dst"].replace(cwd, "$CWD"), tuple(n.replace(cwd, "$CWD") for n in st["names"])) for st in r["steps"])
        run.count(key, nontrivial=any(x in n for st in c["steps"] for n in st["names"] for x in ("..", "$CWD", "\\", "//")))
        stats["multi_step_cases"] += len(r["steps"]) > 1
        for sno, st in enumerate(r["steps"]):
            mops, mout = mres[k]
            k += 1
            oc = st["outcome"].split()[0]
            stats[oc if oc in stats else "other"] += 1
            # --- monitor: the property's own oracle on the real filesystem
            if st["outside"]:
                run.hit(fingerprint="escape:" + json.dumps(key), what="extractall (step %d) created/changed/removed paths outside its destination: %r"
                        % (sno, [x.replace(cwd, "$CWD") for x in st["outside"][:3]]), replay={"case": c, "result": r})
            if oc == "EXC":
                run.hit(fingerprint="exc:" + st["outcome"] + json.dumps(key), what="extractall raised " + st["outcome"], replay={"case": c, "result": r})
            # --- correspondence
            got = st["ops"]
            if oc == "OSERROR":
                # file/dir conflict inside the destination: real ops must be a prefix of the model's
                # (the model does not track which directories already exist)
                j = 0
                ok = True
                for g in got:
                    while j < len(mops) and mops[j] != g:
                        if mops[j][0] != "M":
                            ok = False
                            break
                        j += 1
                    if j >= len(mops):
                        ok = False
                    if not ok:
                        break
                    j += 1
                if not ok:
                    disagreements.append("ops (OSError case) %s step %d: impl %r model %r" % (json.dumps(key), sno, got, mops))
                continue
            if oc != mout:
                disagreements.append("outcome %s step %d: impl %s model %s" % (json.dumps(key), sno, st["outcome"], mout))
                continue
            # makedirs is only called when the directory does not exist yet: compare opens exactly,
            # and require every real makedirs to be one the model predicts, in order
            if [o for o in got if o[0] == "W"] != [o for o in mops if o[0] == "W"]:
                disagreements.append("writes %s step %d: impl %r model %r" % (json.dumps(key), sno, got, mops))
                continue
            mm = [o[1] for o in mops if o[0] == "M"]
            j = 0
            for o in got:
                if o[0] != "M":
                    continue
                while j < len(mm) and mm[j] != o[1]:
                    j += 1
                if j >= len(mm):
                    disagreements.append("makedirs %s step %d: impl %r model %r" % (json.dumps(key), sno, got, mops))
                    break
            # every file the model says is written must exist afterwards (unless a later member hit an OSError)
        if len(run.samples) < 6 and (len(r["steps"]) > 1 or any(st["outcome"] == "REJ" for st in r["steps"])):
            run.sample({"steps": [{"dst": a, "names": list(b)} for a, b in key], "outcomes": [st["outcome"] for st in r["steps"]]})
    return disagreements, stats


MK_COMPS = ["a", "b", "c", "d", "x.y", "..."]


def gen_mk_cases(rng, tier):
    """(existing directories, name) pairs for os.makedirs.  Family `inside`: D = out exists, the name is
    D/c1/../cn with clean components (the premise of C15_makedirs_creates_only_inside), an arbitrary
    prefix of the chain and arbitrary other directories exist.  Family `quirk`: trailing '/', '/.',
    doubled slashes, './' components, three leading slashes, existing targets, names not under out."""
    cases = []
    n = 400 if tier == "quick" else 6000
    for i in range(n):
        dirs = ["out"] if rng.random() < 0.9 else []
        for _ in range(rng.choice([0, 1, 1, 2, 3])):
            chain = [rng.choice(MK_COMPS) for _ in range(rng.randint(1, 4))]
            dirs.append("/".join((["out"] if rng.random() < 0.8 else []) + chain))
        if dirs and rng.random() < 0.7:
            basep = rng.choice(dirs).split("/")
            basep = basep[:rng.randint(1, len(basep))]
        else:
            basep = ["out"] if rng.random() < 0.7 else []
        comps = basep + [rng.choice(MK_COMPS) for _ in range(rng.choice([0, 1, 1, 2, 3, 4]) if basep else rng.randint(1, 4))]
        absolute = rng.random() < 0.5
        quirk = rng.random() < 0.4
        name = "/".join(comps)
        if quirk:
            k = rng.choice(["slash", "dot", "double", "dotcomp", "slashdot", "triple"])
            if k == "slash":
                name += "/"
            elif k == "dot":
                name += "/."
            elif k == "slashdot":
                name += "/./"
            elif k == "double" and len(comps) > 1:
                j = rng.randrange(1, len(comps))
                name = "/".join(comps[:j]) + "//" + "/".join(comps[j:])
            elif k == "dotcomp" and len(comps) > 1:
                j = rng.randrange(1, len(comps))
                name = "/".join(comps[:j]) + "/./" + "/".join(comps[j:])
            elif k == "triple":
                absolute = True
        name = ("$ROOT/" + name) if absolute else name
        if quirk and k == "triple":
            name = "//" + name
        inside = "out" in dirs and comps[0] == "out" and len(comps) > 1 and name in ("/".join(comps), "$ROOT/" + "/".join(comps))
        cases.append({"id": i, "dirs": dirs, "path": name, "inside": inside})
    return cases


def run_mk_cases(run, cases, exe, src):
    """tie makedirs_fs (extracted) vs the real os.makedirs; and the statement of
    C15_makedirs_creates_only_inside observed on the real calls."""
    sbox = os.path.join(core.scratch(), "c15mk")
    os.makedirs(sbox, exist_ok=True)
    inp = "".join(json.dumps(c) + "\n" for c in cases)
    rc, out = core.run_impl("vt.harness.c15_mkdirs", [sbox], src=src, input=inp, timeout=3000)
    results = [json.loads(ln) for ln in out.splitlines() if ln.startswith("{")]
    if rc != 0 or len(results) != len(cases):
        raise RuntimeError("makedirs harness failed rc=%s got %d/%d results: %s" % (rc, len(results), len(cases), out[-800:]))
    lines = []
    for r in results:
        if "harness_error" in r:
            raise RuntimeError("harness error: " + r["harness_error"])
        root = r["root"]
        anc = ["/"]
        for part in root.strip("/").split("/"):
            anc.append(anc[-1].rstrip("/") + "/" + part)
        dirs = ["."] + anc + [e for e in r["existing"]] + [root + "/" + e for e in r["existing"]]
        lines.append("MK|" + "|".join(core.cps(x) for x in [r["path"]] + dirs) + "\n")
    p = subprocess.run([exe], input="".join(lines), capture_output=True, text=True, timeout=3000)
    mlines = p.stdout.splitlines()
    if len(mlines) != len(results):
        raise RuntimeError("model driver returned %d/%d lines" % (len(mlines), len(results)))
    dis, escapes = [], []
    stats = {"DONE": 0, "EXISTS": 0, "OSERROR": 0, "inside_family": 0, "created_0": 0, "created_1": 0, "created_2plus": 0}
    for c, r, ml in zip(cases, results, mlines):
        root = r["root"]
        top = os.path.dirname(root)
        cr_s, mout = ml.split("#")
        mcreated = sorted(os.path.relpath(os.path.normpath(os.path.join(root, core.uncps(x))), top) for x in cr_s.split(";") if x)
        key = ("makedirs", tuple(sorted(c["dirs"])), c["path"])
        run.count(key, nontrivial=len(r["created"]) >= 2 or c["path"].replace("$ROOT/", "") != os.path.normpath(c["path"].replace("$ROOT/", "")))
        stats[r["outcome"]] += 1
        stats["created_0" if not r["created"] else "created_1" if len(r["created"]) == 1 else "created_2plus"] += 1
        if mout != r["outcome"] or mcreated != r["created"]:
            dis.append("makedirs dirs=%r path=%r: impl %s %r model %s %r" % (c["dirs"], c["path"], r["outcome"], r["created"], mout, mcreated))
        # the property on the real calls: nothing removed, nothing outside the sandbox root; for the
        # `inside` family every mkdir call and every new directory is strictly below D = <root>/out
        bad = [x for x in r["created"] if not x.startswith("r/")] + r["removed"]
        if c["inside"]:
            stats["inside_family"] += 1
            D = root + "/out"
            bad += [x for x in r["created"] if not x.startswith("r/out/")]
            bad += [x for x in r["mkdir_calls"] if not os.path.normpath(os.path.join(root, x)).startswith(D + "/")]
        if bad:
            escapes.append("dirs=%r path=%r: %r" % (c["dirs"], c["path"], bad[:4]))
        if c["inside"] and len(r["created"]) >= 2 and sum(1 for s in run.samples if "makedirs" in s) < 2:
            run.sample({"makedirs": c["path"], "existing": c["dirs"], "created": r["created"], "outcome": r["outcome"]}, limit=8)
    return dis, escapes, stats


def build():
    return core.ocaml_build("c15", "C15/Extract.v", "driver.ml")


def check(run):
    run.rule = ("archives = optional benign members + one generated member name + optional trailing members; names are all "
                "sequences of <=3 (quick) / <=4 (thorough) components from {.., ., '', a, b, out, out2, ou} plus sampled depth-5 "
                "ones, with / or \\ separators, relative/absolute/double-slash, file or directory members; 12 destination "
                "spellings; plus histories of 2-3 archives extracted by one process into sibling destinations where later archives "
                "name files of earlier destinations. distinct = distinct (dst, names); non-trivial = some name contains '..', an absolute prefix, a "
                "backslash or '//'.  os.makedirs cases: (existing directories, name) with 0-3 existing chains of depth 1-5 over 6 components, mostly "
                "under out/, name = a prefix of an existing chain extended by 0-4 components, relative or absolute, 40% with a quirk (trailing '/', "
                "'/.', '/./', '//', './' component, three leading slashes); non-trivial = >=2 directories created or a non-normalised name")
    run.trusted = ["Coq 8.16.1 kernel (coqc), vm_compute in the Example only", "extraction (ExtrOcamlBasic directives only) + ocaml/c15/driver.ml",
                   "hand-written model of posixpath.normpath/join/dirname/abspath and of extract_member/extractall (coq/C15/Model.v); tie = differential run",
                   "hand-written model of posixpath.split and os.makedirs (coq/C15/ModelMkdirs.v, CPython 3.12 Lib/os.py:200-230); tie = makedirs_fs vs real os.makedirs "
                   "on a directories-only file system; expand_ops (isdir guard + makedirs + open) is proved about but not separately tied",
                   "zipfile (reading member names), the kernel's path resolution; premise: destination exists and contains no symlinks"]
    run.assumptions = ["POSIX separators; the destination is a fresh directory (no pre-existing symlinks inside)",
                       "lexical containment (no '..', '.', '' components below the destination) implies real containment without symlinks"]
    src = core.snapshot()
    run.check_proofs("C15")
    exe = build()
    cases = gen_cases(run.rng, run.tier)
    # corpus first
    corpus = os.path.join(core.VERIF, "corpus", "C15")
    ccases = []
    if os.path.isdir(corpus):
        for fn in sorted(os.listdir(corpus)):
            ccases.append(json.load(open(os.path.join(corpus, fn))))
    for i, c in enumerate(ccases):
        c["id"] = -1 - i
        if "steps" not in c:
            c["steps"] = [{"dst": c.pop("dst"), "names": c.pop("names")}]
    dis, stats = run_cases(run, ccases + cases, exe, src)
    run.tie("extractall: model vs nuwiki.extractall (outcome, writes, makedirs)", len(ccases) + len(cases), dis)
    run.coverage["outcome_distribution"] = stats
    mk_cases = gen_mk_cases(run.rng, run.tier)
    mdis, mesc, mstats = run_mk_cases(run, mk_cases, exe, src)
    run.tie("os.makedirs: makedirs_fs (model on fs_world) vs the real os.makedirs (created directories, outcome)", len(mk_cases), mdis)
    run.obligation("real os.makedirs: every mkdir call / new directory strictly inside D (inside family), nothing outside the sandbox",
                   not mesc, "; ".join(mesc[:3]) if mesc else "%d cases, %d in the inside family" % (len(mk_cases), mstats["inside_family"]))
    run.coverage["makedirs_distribution"] = mstats
    run.coverage["exhaustive"] = False
    run.coverage["exhaustive_part"] = "all names of <=%d components over the 8-component alphabet" % (3 if run.tier == "quick" else 4)


def replay(obj):
    src = core.snapshot()
    case = obj["replay"].get("case")
    if not case:
        print(json.dumps(obj["replay"], indent=1))
        return 1
    sbox = os.path.join(core.scratch(), "c15box")
    os.makedirs(sbox, exist_ok=True)
    rc, out = core.run_impl("vt.harness.c15_impl", [sbox], src=src, input=json.dumps(case) + "\n")
    print(out)
    r = json.loads([l for l in out.splitlines() if l.startswith("{")][-1])
    bad = any(st.get("outside") or st["outcome"].startswith("EXC") for st in r["steps"])
    print("REPRODUCED" if bad else "not reproduced")
    return 1 if bad else 0
