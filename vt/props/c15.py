"""C15 — extraction never writes outside the destination.
Proof: coq/C15 (normpath/join/dirname/extractall model, containment for all names and destinations).
Tie: extracted model vs nuwiki.extractall on generated zips.  Search: filesystem-diff oracle."""
import itertools
import json
import os
import subprocess

from vt import core

LEVEL = "proof"
COMPS = ["..", ".", "", "a", "b", "out", "out2", "ou"]
DSTS = ["out", "out/", "./out", "out//", "../w/out", "out/.", "$CWD/out", "$CWD/out/", "$CWD/../w/out", "/$CWD/out",
        "//$CWD/out", "out/../out"]


def gen_names(rng, tier):
    depth_ex = 3 if tier == "quick" else 4
    names = []
    for d in range(1, depth_ex + 1):
        for cs in itertools.product(COMPS, repeat=d):
            names.append(list(cs))
    # sampled deeper names
    for _ in range(1500 if tier == "quick" else 40000):
        d = rng.choice([4, 5]) if tier == "quick" else 5
        names.append([rng.choice(COMPS) for _ in range(d)])
    res = []
    for cs in names:
        sep = "/"
        if rng.random() < 0.25:
            sep = "\\"
        elif rng.random() < 0.1:
            sep = rng.choice(["/", "\\"])
        n = sep.join(cs)
        r = rng.random()
        if r < 0.15:
            n = "$CWD/" + n          # absolute (inside the sandbox root)
        elif r < 0.22:
            n = "$CWD/out/" + n      # absolute path into the destination
        elif r < 0.26:
            n = "/" + "$CWD/out2/" + n   # two leading slashes
        if rng.random() < 0.2:
            n += "/"
        if rng.random() < 0.03:
            n = n.replace("a", "ä\U0001F600")
        res.append(n)
    return res


def gen_cases(rng, tier):
    cases = []
    names = gen_names(rng, tier)
    for i, n in enumerate(names):
        dst = DSTS[i % len(DSTS)] if rng.random() < 0.7 else rng.choice(DSTS)
        pre = rng.choice([[], ["ok/f"], ["ok/", "ok/g", "h"]])
        post = rng.choice([[], ["after"], ["../out2/late"]])
        cases.append({"id": i, "dst": dst, "names": pre + [n] + post})
    return cases


def model_line(cwd, dst, names):
    return "|".join(core.cps(x) for x in [cwd, dst] + names)


def parse_model(line):
    ops_s, o_s = line.rstrip("\n").split("#")
    ops = []
    for o in ops_s.split(";"):
        if o:
            ops.append([o[0], core.uncps(o[2:])])
    if o_s.startswith("REJ"):
        return ops, "REJ"
    return ops, o_s


def run_cases(run, cases, exe, src):
    sbox = os.path.join(core.scratch(), "c15box")
    os.makedirs(sbox, exist_ok=True)
    inp = "".join(json.dumps(c) + "\n" for c in cases)
    rc, out = core.run_impl("vt.harness.c15_impl", [sbox], src=src, input=inp, timeout=3000)
    results = []
    for ln in out.splitlines():
        if ln.startswith("{"):
            results.append(json.loads(ln))
    if rc != 0 or len(results) != len(cases):
        raise RuntimeError("impl harness failed rc=%s got %d/%d results: %s" % (rc, len(results), len(cases), out[-800:]))
    lines = "".join(model_line(r["cwd"], r["dst"], r["read_names"]) + "\n" for r in results if "harness_error" not in r)
    p = subprocess.run([exe], input=lines, capture_output=True, text=True, timeout=3000)
    mres = [parse_model(x) for x in p.stdout.splitlines()]
    disagreements = []
    k = 0
    stats = {"DONE": 0, "REJ": 0, "OSERROR": 0, "other": 0}
    for c, r in zip(cases, results):
        if "harness_error" in r:
            raise RuntimeError("harness error: " + r["harness_error"])
        mops, mout = mres[k]
        k += 1
        key = (r["dst"].replace(r["cwd"], "$CWD"), tuple(n.replace(r["cwd"], "$CWD") for n in r["names"]))
        run.count(key, nontrivial=any(x in n for n in c["names"] for x in ("..", "$CWD", "\\", "//")))
        oc = r["outcome"].split()[0]
        stats[oc if oc in stats else "other"] += 1
        # --- monitor: the property's own oracle on the real filesystem
        if r["outside"]:
            run.hit(fingerprint="escape:" + json.dumps(key), what="extractall created/removed paths outside the destination: %r" % r["outside"][:3],
                    replay={"case": c, "result": r})
        if oc == "EXC":
            run.hit(fingerprint="exc:" + r["outcome"] + json.dumps(key), what="extractall raised " + r["outcome"], replay={"case": c, "result": r})
        # --- correspondence
        if oc == "OSERROR":
            # file/dir conflict inside the destination: real ops must be a prefix of the model's
            # (the model does not track which directories already exist)
            want = [o for o in mops]
            got = r["ops"]
            j = 0
            ok = True
            for g in got:
                while j < len(want) and want[j] != g:
                    if want[j][0] != "M":
                        ok = False
                        break
                    j += 1
                if j >= len(want):
                    ok = False
                if not ok:
                    break
                j += 1
            if not ok:
                disagreements.append("ops (OSError case) %s: impl %r model %r" % (json.dumps(key), got, want))
            continue
        if oc != mout:
            disagreements.append("outcome %s: impl %s model %s" % (json.dumps(key), r["outcome"], mout))
            continue
        # makedirs is only called when the directory does not exist yet: compare opens exactly,
        # and require every real makedirs to be one the model predicts, in order
        if [o for o in r["ops"] if o[0] == "W"] != [o for o in mops if o[0] == "W"]:
            disagreements.append("writes %s: impl %r model %r" % (json.dumps(key), r["ops"], mops))
            continue
        mm = [o[1] for o in mops if o[0] == "M"]
        j = 0
        for o in r["ops"]:
            if o[0] != "M":
                continue
            while j < len(mm) and mm[j] != o[1]:
                j += 1
            if j >= len(mm):
                disagreements.append("makedirs %s: impl %r model %r" % (json.dumps(key), r["ops"], mops))
                break
        if len(run.samples) < 5 and (oc == "REJ" or len(r["ops"]) > 2):
            run.sample({"dst": key[0], "names": list(key[1]), "outcome": r["outcome"],
                        "impl_ops": [[a, b.replace(r["cwd"], "$CWD")] for a, b in r["ops"]]})
    return disagreements, stats


def build():
    return core.ocaml_build("c15", "C15/Extract.v", "driver.ml")


def check(run):
    run.rule = ("archives = optional benign members + one generated member name + optional trailing members; names are all "
                "sequences of <=3 (quick) / <=4 (thorough) components from {.., ., '', a, b, out, out2, ou} plus sampled depth-5 "
                "ones, with / or \\ separators, relative/absolute/double-slash, file or directory members; 12 destination "
                "spellings. distinct = distinct (dst, names); non-trivial = some name contains '..', an absolute prefix, a "
                "backslash or '//'")
    run.trusted = ["Coq 8.16.1 kernel (coqc), vm_compute in the Example only", "extraction (ExtrOcamlBasic directives only) + ocaml/c15/driver.ml",
                   "hand-written model of posixpath.normpath/join/dirname/abspath and of extract_member/extractall (coq/C15/Model.v); tie = differential run",
                   "zipfile (reading member names), the kernel's path resolution; premise: destination exists and contains no symlinks"]
    run.assumptions = ["POSIX separators; the destination is a fresh directory (no pre-existing symlinks inside)",
                       "lexical containment (no '..', '.', '' components below the destination) implies real containment without symlinks"]
    src = core.snapshot()
    run.check_proofs("C15")
    exe = build()
    cases = gen_cases(run.rng, run.tier)
    # corpus first
    corpus = os.path.join(core.VERIF, "corpus", "C15")
    ccases = []
    if os.path.isdir(corpus):
        for fn in sorted(os.listdir(corpus)):
            ccases.append(json.load(open(os.path.join(corpus, fn))))
    for i, c in enumerate(ccases):
        c["id"] = -1 - i
    dis, stats = run_cases(run, ccases + cases, exe, src)
    run.tie("extractall: model vs nuwiki.extractall (outcome, writes, makedirs)", len(ccases) + len(cases), dis)
    run.coverage["outcome_distribution"] = stats
    run.coverage["exhaustive"] = False
    run.coverage["exhaustive_part"] = "all names of <=%d components over the 8-component alphabet" % (3 if run.tier == "quick" else 4)


def replay(obj):
    src = core.snapshot()
    case = obj["replay"].get("case")
    if not case:
        print(json.dumps(obj["replay"], indent=1))
        return 1
    sbox = os.path.join(core.scratch(), "c15box")
    os.makedirs(sbox, exist_ok=True)
    rc, out = core.run_impl("vt.harness.c15_impl", [sbox], src=src, input=json.dumps(case) + "\n")
    print(out)
    r = json.loads([l for l in out.splitlines() if l.startswith("{")][-1])
    bad = bool(r.get("outside")) or r["outcome"].startswith("EXC")
    print("REPRODUCED" if bad else "not reproduced")
    return 1 if bad else 0
