"""C07 — cleaning is lossless for ordinary content.

Proof: coq/C07 (the cleaner's restructuring idioms - replace_child(n, n.children), adjacent move_to, copy-and-split -
keep `words` on the heap model of C05; generic dissolve/prune passes, fix_paragraphs, the breaking-return loop, fix_nesting
and any sequence of such passes keep well-formedness and words).
Monitor (decides the universal statement by exploration): the EXTRACTED cwords / table_dims run on snapshots of the real
tree before and after TreeCleaner.clean_all(), over well-formed documents of a recursive grammar of ordinary content
(unique words; below the size heuristics; free of the documented removal triggers): same word sequence, same section,
same list-item depth, same reference for every word; tables with >= 2 rows and >= 2 columns remain tables."""
from vt import core
from vt.props import c05

LEVEL = "proof"


def build():
    return c05.build()


def check(run):
    run.rule = ("documents of the recursive grammar vt/harness/c05_gen.wellformed: 0-2 leading blocks, 1-6 sections (levels 2-4); a section "
                "body is text + blocks, or (12%) visible content without any plain word (label-less [[links]], bare URLs, lists of them, "
                "a formula); blocks = paragraphs of styled/linked text with <ref>s, properly nested */# lists (depth <= 3), tables of 1-4 "
                "rows x 1-4 columns with optional caption (plain words or a run of styled / linked text with footnotes) / header row, tables of 2-4 x 2-3 cells of which 1-2 hold 1-4 blocks (paragraphs/"
                "lists) of 1-5 / 10-60 / 100-330 words (whole table < 2400 characters), preformatted blocks with captioned images, "
                "indented lines, blocks of 2..25 structurally equal (85%) or distinct captioned images in one preformatted line / indented "
                "lines inside one paragraph (all mis-nested under ONE ancestor: content must be neither lost, re-ordered nor multiplied); "
                "25% of the documents use named references incl. re-use, the name written in several spellings (blanks around / inside the "
                "quoted value, quoting style, case, Unicode look-alikes) at definition and use, every <ref> of such a document with its own "
                "group attribute (absent 70% / the document's first group / its second group / empty; a name is defined once); half of the footnotes hold words, styled "
                "words and article links of which 45% go to an article the same footnote links already (other label / same label / no "
                "label), 20% to one linked elsewhere in the document (body text, other footnotes); on top, exhaustively, 24 small documents: "
                "one article linked twice, label x label (different / equal / none) x place (one footnote, two footnotes, body + footnote, "
                "named footnote used twice) and 180: small table shape (1x1, 1x3, 3x1, 2x2, list-only rows, header row, lonely colspan, images) x "
                "caption of 1..11 inline nodes x caption above / below the rows x with / without a heading before; words are unique except for repeated links and that 12% of the documents "
                "repeat one inline element / list item / cell line verbatim (structurally equal siblings). distinct = distinct wikitext; "
                "non-trivial = at least one pass changed the tree")
    run.trusted = c05.TRUSTED + ["the oracle's labelling (vt/harness/c05_snap.c07_compare): a section / reference is identified by the "
                                 "first word it encloses; list nesting = number of enclosing Item nodes; the column of a table word "
                                 "(py_columns, Python reading of the snapshot)"]
    run.assumptions = ["visible words = Text captions, targets of childless article/namespace links, URL and Math captions, split at whitespace",
                       "reading order inside a table is compared column by column when the row-major order differs (split_big_table_cells "
                       "continues a cell that is taller than a page in the row below, in the same column)",
                       "the same EXTERNAL url twice inside one footnote is not in the grammar (remove_dup_links_in_refs documents the second "
                       "one as a duplicate); the same ARTICLE linked several times in one footnote is (every label is visible text)",
                       "words may occur more than once (repeated links): loss / duplication is decided on occurrence counts, 'remains a "
                       "table' on the number of occurrences inside tables, footnote texts as a multiset when two footnotes begin with the "
                       "same word",
                       "a section whose body is only an unlabelled bracketed external link ([http://x], printed as a number) is not in the "
                       "grammar: the cleaner documents it as empty",
                       "the universal statement about the composition of ALL passes is decided by exploration, not by proof (proved: the "
                       "idioms, the generic edit passes - visited node dissolved/pruned: remove_list_only_paragraphs, remove_textless_styles, "
                       "remove_invisible_links / any prune pass; visited node edits selected CHILDREN (C07/ModelPasses2.v child_pass): "
                       "remove_leading_para_in_list, restrict_children, remove_empty_training_table_rows; attribute-only passes "
                       "(clean_vlist, mark_infoboxes, mark_short_paragraph, fix_math_dir) are the identity on the heap -, fix_paragraphs, "
                       "the breaking-return loop, fix_nesting and any sequence of those; the classification of all 58 passes is in "
                       "coq/C07/ProofsPasses2.v)"]
    src = core.snapshot()
    def gen():          # coq/C07 imports coq/C06, whose generated files are git-ignored
        __import__("vt.gen.c06_api", fromlist=["x"]).generate(src)
        __import__("vt.gen.c06_nesting", fromlist=["x"]).generate(src)

    run.check_proofs("C07", dirs=["C05", "C06"], gen=gen)
    exe = build()
    c05.monitor(run, "c07", [2], src, exe)
    run.coverage["exhaustive"] = False


def replay(obj):
    return c05.replay(obj)
