"""C19 — render status reported to the wiki is faithful to the job's real state.
Proof: coq/C19 (status mapping over all snapshots, job-id injectivity, header-safe Content-Disposition,
life cycle of a job in C19's own abstraction AND over every history of the C16 queue model: QueueInv.v, ProofsCompose.v).  Tie: (a) exhaustive product of snapshot field shapes through the extracted model vs
the real Application.do_render_status, (b) random job histories on a real qs.jobs.workq behind QPlugin,
(c) exhaustive pass over all code points for the Unicode facts the theorems assume.
       Worker connections (one QPlugin handler per connection; pull/finish through a connection; disconnect = QPlugin.shutdown):
       coq/C19/ModelConn.v + ProofsConn.v - closing a connection never changes which job object an id stands for.
Search: the property's own oracle on the real responses given the live job objects (the LATEST incarnation registered under
the id, told apart by object identity - not whatever the queue's table serves); it runs even when the translator
or the proofs fail (monitor-only), and every hit is settled: re-run alone in a fresh process, delta-debugged."""
import concurrent.futures
import itertools
import json
import os
import re
import subprocess
import unicodedata

from vt import core
from vt.gen import c19_writers
from vt.harness import c19_codec as cc

LEVEL = "proof"

# ---------------------------------------------------------------------------------------------- shapes

DONE = [cc.ABSENT, False, True, 1, 0]
ERROR = [cc.ABSENT, None, "", "killed", "boom: ä", 0, [], {"e": 1}]
INFO = [cc.ABSENT, {}, {"status": "rendering", "progress": 50}, None]
NAMES = ["Motörhead", "", None, 5, "  ;;;", "Peter Hartz", "日本語", "a,b;c:d\"e'f", " x ", ["l"], 0]
RESULT = [cc.ABSENT, None, {}, "x", ["x"], 3, True, {"url": "http://h/u"}, {"size": 1}, {"url": "http://h/u", "size": 12}] + \
         [{"url": "http://h/u", "size": 12, "suggested_filename": n} for n in NAMES]
MAKEZIP = [None, {"info": {}}, {"info": {"status": "fetching", "progress": 10}}, {"info": {"status": "f"}, "done": True, "result": None, "error": None},
           {"info": {}, "done": True, "error": "fetch failed"}, {"info": {"status": "parsing"}, "done": False}, {"done": 0}]
COLL = "0123456789abcdef"


def mk_snap(done, error, info, result):
    d = {}
    for k, v in (("info", info), ("done", done), ("error", error), ("result", result)):
        if v is not cc.ABSENT:
            d[k] = v
    return d


def gen_snap_cases(writers, rng, tier):
    cases = []
    wl = writers + ["pdf"]                       # "pdf" is not a writer name
    i = 0
    for done, error, info, result in itertools.product(DONE, ERROR, INFO, RESULT):
        for w in wl:
            cases.append({"c": COLL, "w": w, "render": mk_snap(done, error, info, result), "makezip": MAKEZIP[i % len(MAKEZIP)]})
            i += 1
    for done, error, info, mz in itertools.product(DONE, ERROR, INFO, MAKEZIP):
        for w in wl[:2]:
            cases.append({"c": COLL, "w": w, "render": mk_snap(done, error, info, cc.ABSENT), "makezip": mz})
    for mz in MAKEZIP:
        for w in wl:
            cases.append({"c": COLL, "w": w, "render": None, "makezip": mz})
    # decoys: a finished job of another writer / another collection must not matter
    fin = {"info": {}, "done": True, "error": None, "result": {"url": "http://h/other", "size": 1}}
    for w in writers:
        for mz in MAKEZIP:
            for r in (None, {"info": {}}, {"info": {"status": "s"}}):
                decoys = {"%s:render-%s" % (COLL, o): fin for o in writers if o != w}
                decoys["%s:render-%s" % ("f" * 16, w)] = fin
                decoys["%s:render-%s%s" % (COLL, w, "x")] = fin
                decoys["%s:render-" % COLL] = fin
                cases.append({"c": COLL, "w": w, "render": r, "makezip": mz, "decoys": decoys})
    # random suggested filenames over printable Unicode
    n = 600 if tier == "quick" else 20000
    for _ in range(n):
        name = rand_name(rng)
        cases.append({"c": COLL, "w": rng.choice(writers),
                      "render": {"info": {}, "done": True, "error": rng.choice([None, ""]),
                                 "result": {"url": "http://h/u", "size": 7, "suggested_filename": name}},
                      "makezip": None})
    # every snapshot case is a different collection: the cases are independent inputs of one process, so nothing the
    # status command may remember about one collection can leak into the verdict on another (remembering ACROSS polls
    # of one collection is what the histories of part (b) are for)
    for i, c in enumerate(cases):
        cid = "%016x" % (0xC190000000000000 + i)
        if "decoys" in c:
            c["decoys"] = {k.replace(COLL, cid): v for k, v in c["decoys"].items()}
        c["c"] = cid
    return cases


POOL = [" ", " ", ";", ":", "\"", "'", ",", "-", ".", "/", "\\", "%", "a", "Z", "0", "~", "_", "\u00a0", "\u00e4", "\u00df", "\u0301",
        "\u2003", "\u3000", "\ufb01", "\u00bd", "\u03a9", "\u01c5", "\u1e9b\u0323", "\U0001F600", "\u65e5", "\uac00", "\u200e", "\u00ad",
        "=", "*", "\u2028", "\u1680", "\u00a8", "\u2474", "\u33c2"]


_SPECIAL = []


def special_cps():
    """All printable code points whose compatibility decomposition (NFKD) contains an ASCII character that is not a
    letter or digit -- the separator class of the header and everything else that could matter in it -- or a control
    character.  Computed from unicodedata at run time (373 code points with Unicode 15), never listed by hand."""
    if not _SPECIAL:
        for c in range(0x110000):
            if c in cc.CONTROL or 0xD800 <= c <= 0xDFFF:
                continue
            d = unicodedata.normalize("NFKD", chr(c))
            if any((ord(x) < 128 and not x.isalnum()) or ord(x) in cc.CONTROL for x in d):
                _SPECIAL.append(c)
    return _SPECIAL


_TRANSLIT = []
SEPARATOR_NAMES = ("SPACE", "SEMICOLON", "COLON", "QUOTATION", "QUOTE", "APOSTROPHE", "COMMA", "PRIME")


def translit_cps():
    """Printable code points that have NO separator in their NFKD but that a transliteration to ASCII (a fallback table,
    `unidecode`, an `errors=` handler of the encoder ..) would plausibly spell with a separator-class ASCII character:
    every punctuation mark (General_Category Pc Pd Ps Pe Pi Pf Po: all quotation marks, apostrophes, guillemets, dashes,
    brackets, fullwidth/small forms), every space/line separator (Z*), modifier symbols and letters (Sk, Lm: accents,
    primes, okina, modifier apostrophe/colon), and whatever the Unicode character NAME calls a space, (semi)colon,
    comma, quote(ation mark), apostrophe or prime.  Computed from unicodedata at run time, never listed by hand."""
    if not _TRANSLIT:
        for c in range(0x110000):
            if c in cc.CONTROL or 0xD800 <= c <= 0xDFFF or c < 128:
                continue
            cat = unicodedata.category(chr(c))
            if cat[0] in "PZ" or cat in ("Sk", "Lm") or any(x in unicodedata.name(chr(c), "") for x in SEPARATOR_NAMES):
                _TRANSLIT.append(c)
    return _TRANSLIT


WORDS = ["Gulliver", "s", "Travels", "The", "Great", "War", "Les", "Mis\u00e9rables", "tome", "1", "Stra\u00dfe", "\u00c6r\u00f8", "l",
         "\u65e5\u672c", "Mot\u00f6rhead", "d", "O", "Neill", "Qu", "ran"]


def rand_phrase(rng):
    """Words of a title joined / wrapped by marks drawn from translit_cps and special_cps: possessive and elision
    (X's, l'X), quoted words (open X close), dashes and punctuation between words."""
    marks = translit_cps() if rng.random() < 0.8 else special_cps()
    out = []
    for i in range(rng.choice([1, 2, 2, 3, 4])):
        wd = rng.choice(WORDS)
        m = chr(rng.choice(marks))
        r = rng.random()
        if r < 0.3:
            wd = wd + m + rng.choice(["s", "t", "d", ""])                 # Gulliver's
        elif r < 0.6:
            wd = m + wd + rng.choice([m, chr(rng.choice(marks)), ""])     # "Great"
        elif r < 0.75:
            wd = rng.choice(["l", "d", "O", "Qu"]) + m + wd               # l'X
        out.append(wd)
        if rng.random() < 0.3:
            out.append(chr(rng.choice(marks)))                            # X - Y
    return rng.choice([" ", " ", " ", ""]).join(out)


def rand_name(rng):
    if rng.random() < 0.35:
        return rand_phrase(rng)
    k = rng.choice([0, 1, 2, 3, 5, 8, 13])
    out = []
    for _ in range(k):
        r = rng.random()
        if r < 0.15:
            out.append(chr(rng.choice(translit_cps())))
        elif r < 0.3:
            out.append(chr(rng.choice(special_cps())))
        elif r < 0.6:
            out.append(rng.choice(POOL))
        elif r < 0.8:
            out.append(chr(rng.randrange(32, 127)))
        else:
            c = rng.randrange(160, 0x110000)
            if 0xD800 <= c <= 0xDFFF:
                c = 0x41
            out.append(chr(c))
    s = "".join(out)
    if rng.random() < 0.03:
        s += rng.choice(["\x7f", "\n", "\ud800", "\x00"])      # outside the property's quantifier: tie only
    return s


def names_in(v):
    """Suggested filenames the model will normalise: strip() or 'collection' of every str value."""
    res = []
    if isinstance(v, dict):
        r = v.get("result")
        if isinstance(r, dict):
            s = r.get("suggested_filename")
            if isinstance(s, str):
                res.append(s.strip() or "collection")
    return res


class Model:
    def __init__(self, exe):
        self.p = subprocess.Popen([exe], stdin=subprocess.PIPE, stdout=subprocess.PIPE, text=True, bufsize=1 << 20)

    def batch(self, lines):
        """Send all lines, read as many answers (the driver answers every line)."""
        import threading
        out = []

        def reader():
            for _ in range(len(lines) + 1):
                out.append(self.p.stdout.readline().rstrip("\n"))
        t = threading.Thread(target=reader)
        t.start()
        self.p.stdin.write("".join(x + "\n" for x in lines) + "FLUSH\n")
        self.p.stdin.flush()
        t.join()
        if out[-1].strip() != "flushed":
            raise RuntimeError("model driver out of sync: %r" % (out[-3:],))
        return out[:-1]

    def close(self):
        self.p.stdin.close()
        self.p.wait()


# ---------------------------------------------------------------------------------------------- oracle

def oracle(run, where, resp, c, w, rjob, mjob, writers_tbl, replay):
    """The property's oracle on one real response given the live render / makezip jobs
    (dicts with done/error/info/result as the job object has them, or None)."""
    if "exc" in resp:
        # a crash of the status command is reported only when the job state is one the queue's own
        # clients produce: result None or a dict whose suggested_filename is printable text
        res = rjob.get("result") if rjob else None
        wellformed = res is None or (isinstance(res, dict) and all(k in res for k in ("url", "size"))
                                     and (res.get("suggested_filename") is None or cc.printable_input(res.get("suggested_filename"))))
        if wellformed and w in writers_tbl:
            run.hit("crash:%s:%s" % (resp["exc"], where), "do_render_status raised %s on a well-formed job state" % resp["exc"], replay)
        return "crash"
    ret = resp["ret"]
    state = ret.get("state")
    done = bool(rjob and rjob["done"])
    err = rjob["error"] if rjob else None
    if state == "finished":
        if not (done and not err):
            run.hit("finished-but-not:%s" % where, "state=finished while the render job of writer %s is %s" %
                    (w, "absent" if not rjob else "not done" if not done else "failed (%r)" % (err,)), replay)
        res = rjob.get("result") if rjob else None
        if isinstance(res, dict) and "url" in res and "size" in res:
            if ret.get("url") != res["url"] or ret.get("content_length") != res["size"]:
                run.hit("finished-wrong-url:%s" % where, "finished response does not carry the job's url/size", replay)
        ext, ctype = writers_tbl[w]
        if ret.get("content_type") != ctype:
            run.hit("finished-ctype:%s" % where, "content type %r is not the writer's %r" % (ret.get("content_type"), ctype), replay)
        sf = res.get("suggested_filename") if isinstance(res, dict) else None
        if sf is None or cc.printable_input(sf):
            prob = cc.header_problem(ret.get("content_disposition"), ext)
            if prob:
                run.hit("header:%s:%s" % (prob.split(":")[0], where), "content_disposition %r: %s" % (ret.get("content_disposition"), prob), replay)
    elif state == "failed":
        if not (done and err):
            run.hit("failed-but-not:%s" % where, "state=failed while the render job is not finished with an error", replay)
        elif ret.get("error") != err:
            run.hit("failed-wrong-error:%s" % where, "failed response carries %r, job error is %r" % (ret.get("error"), err), replay)
    elif state == "progress":
        if done:
            run.hit("progress-but-done:%s" % where, "state=progress while the render job is finished (error=%r)" % (err,), replay)
        rinfo = rjob["info"] if rjob else None
        if rinfo:
            if ret.get("status") != rinfo:
                run.hit("progress-info:%s" % where, "progress does not show the render job's own info", replay)
        elif mjob and not mjob["done"]:
            if ret.get("status") != mjob["info"]:
                run.hit("progress-fetch-info:%s" % where, "progress does not show the fetch job's info", replay)
    else:
        run.hit("no-state:%s" % where, "response has no known state: %r" % (ret,), replay)
    return state


def reachable_shape(s):
    """Snapshots a workq can serve (C19_error_implies_done and the job class): info is a dict, done is absent
    or True, error/result are present only when done."""
    if s is None:
        return True
    if not isinstance(s.get("info", {}), dict) or "info" not in s:
        return False
    if s.get("done", True) is not True:
        return False
    if ("error" in s or "result" in s) and "done" not in s:
        return False
    if "done" in s and "error" not in s:
        return False
    return True


def live_of_snap(s):
    """Job attributes (class defaults applied) of a _json() snapshot."""
    if s is None:
        return None
    return {"done": s.get("done", False), "error": s.get("error"), "info": s.get("info", {}), "result": s.get("result")}


# ---------------------------------------------------------------------------------------------- histories

# connections to the queue server: 0 = the web server's (nserve), 1.. = render/fetch workers.  Every connection has its
# own QPlugin handler, which remembers what was pulled through it and reschedules the unfinished part when it closes.
WORKERS = [0, 1, 1, 2, 2, 3]


def gen_history(rng, hid, writers):
    # the first collection belongs to this history alone, the second is shared by all histories of the process
    colls = ["%016x" % (0xC0C0000000000000 + hid), "0123456789abcdef"]
    ids = ["%s:makezip" % c for c in colls] + ["%s:render-%s" % (c, w) for c in colls for w in writers]
    n = rng.choice([6, 10, 16, 24, 32])
    ops = []
    infos = [{}, {"status": "fetching"}, {"status": "rendering", "progress": rng.randrange(100)}, {"article": "Aä", "progress": 3},
             {"status": ""}]
    for _ in range(n):
        r = rng.random()
        c = colls[0] if rng.random() < 0.8 else colls[1]
        w = rng.choice(writers[:3] if rng.random() < 0.8 else writers)
        jid = rng.choice(["%s:makezip" % c, "%s:render-%s" % (c, w)]) if rng.random() < 0.9 else rng.choice(ids)
        if r < 0.2 or not ops:
            ops.append(["render", c, w])
        elif r < 0.36:
            ops.append(["pull", rng.choice(["makezip", "render", "render"]), rng.choice(WORKERS)])
        elif r < 0.50:
            ops.append(["setinfo", jid, rng.choice(infos)])
        elif r < 0.68:
            q = rng.random()
            if q < 0.55:
                res = rng.choice([{"url": "http://h/%s" % w, "size": rng.randrange(1, 10 ** 6), "suggested_filename": rand_name(rng)},
                                  {"url": "http://h/x", "size": 3}, None, {}])
                ops.append(["finish", jid, res, rng.choice([None, None, None, ""]), rng.choice(WORKERS)])
            elif q < 0.92:
                ops.append(["finish", jid, rng.choice([None, {"url": "http://h/partial", "size": 1}]),
                            rng.choice(["boom", "killed", "timeout", "RuntimeError: x", {"code": 3}, ["e"], 7]), rng.choice(WORKERS)])
            else:
                ops.append(["finish", jid, rng.choice(["text", {"url": "u"}, {"size": 3}, ["l"], 9]), None])
        elif r < 0.74:
            ops.append(["kill", jid])
        elif r < 0.80:
            ops.append(["tick", rng.choice([1, 5, 30, 100, 700, 1300])])
        elif r < 0.84:
            ops.append(["disconnect", rng.choice(WORKERS)])
        elif r < 0.91:
            ops.append(["dropdead", rng.choice([0, 1, 9, 11, 20, 3599, 3700])])
        elif r < 0.95:
            ops.append(["push", jid, "makezip" if jid.endswith("makezip") else "render", rng.choice([None, 5, 60]), rng.choice([None, 3, 30])])
        elif r < 0.97:
            ops.append(["dropmark", jid])
        elif r < 0.985:
            ops.append(["wait", jid])
        else:
            ops.append(["restart"])
    return {"id": hid, "collections": colls, "writers": writers, "ops": ops}


def gen_lifecycle_history(rng, hid, writers):
    """Several render rounds of ONE collection (mostly one writer), each walking the two jobs through their life:
    requested -> fetch pulled/finished (or failed) -> render pulled, progress info, finished with a download / failed /
    killed / timed out / still running -> then the jobs leave the queue (watchdog: deadline stamped, dropped after the
    time-to-live; queue server restarted; dropjobs+waitjobs) or stay -> requested again.  The status of every
    (collection, writer) is polled after every single op, so every phase is observed repeatedly by the same process."""
    # the first collection belongs to this history alone, the second is shared by all histories of the process
    colls = ["%016x" % (0xC0C0000000000000 + hid), "0123456789abcdef"]
    c = colls[0]
    w = rng.choice(writers[:3])
    infos = [{"status": "fetching"}, {"status": "rendering", "progress": rng.randrange(100)}, {"article": "A\u00e4", "progress": 3},
             {"status": "layouting"}]
    ops = []
    mz = "%s:makezip" % c
    used = []                      # worker connections that pulled something and have not been closed since
    for _ in range(rng.choice([2, 2, 3, 4])):
        if rng.random() < 0.2:
            w = rng.choice(writers)
        rj = "%s:render-%s" % (c, w)
        ops.append(["render", c, w])
        fw, rw = rng.choice([1, 2, 3]), rng.choice([1, 2, 3])      # the workers serving this round
        if rng.random() < 0.85:
            ops.append(["pull", "makezip", fw])
            used.append(fw)
            if rng.random() < 0.4:
                ops.append(["setinfo", mz, rng.choice(infos)])
            if rng.random() < 0.85:
                ops.append(["finish", mz, rng.choice([None, {}]), None, fw])
            elif rng.random() < 0.5:
                ops.append(["finish", mz, None, "fetch failed", fw])
        if rng.random() < 0.9:
            ops.append(["pull", "render", rw])
            used.append(rw)
            if rng.random() < 0.6:
                ops.append(["setinfo", rj, rng.choice(infos)])
            if rng.random() < 0.3:
                # a connection closes while this round's job is being rendered: this round's worker (the job is
                # rescheduled and picked up by the next one) or one that served an earlier round
                k = rng.choice(used)
                ops.append(["disconnect", k])
                used = [x for x in used if x != k]
                if k == rw:
                    rw = rng.choice([1, 2, 3])
                    ops.append(["pull", "render", rw])
                    used.append(rw)
            e = rng.random()
            if e < 0.55:
                res = {"url": "http://h/%s/%d" % (w, len(ops)), "size": rng.randrange(1, 10 ** 6)}
                if rng.random() < 0.7:
                    res["suggested_filename"] = rand_name(rng)
                ops.append(["finish", rj, res, rng.choice([None, None, ""]), rw])
            elif e < 0.75:
                ops.append(["finish", rj, rng.choice([None, {"url": "http://h/partial", "size": 1}]), rng.choice(["boom", "RuntimeError: x", {"code": 3}]), rw])
            elif e < 0.85:
                ops.append(["kill", rj])
            elif e < 0.93:
                ops.append(["tick", 1300])
        if used and rng.random() < 0.25:
            k = rng.choice(used)
            ops.append(["disconnect", k])
            used = [x for x in used if x != k]
        q = rng.random()
        if q < 0.55:
            ops.append(["dropdead", rng.choice([0, 1, 9])])
            ops.append(["dropdead", rng.choice([11, 3599, 3601, 3700, 7200])])
        elif q < 0.7:
            ops.append(["restart"])
        elif q < 0.8:
            ops += [["dropmark", rj], ["wait", rj]]
        elif q < 0.88:
            ops.append(["kill", rj])
    return {"id": hid, "collections": colls, "writers": writers, "ops": ops}


# ------------------------------------------------------------------------------ worker connections
def worker_family(hid0, writers):
    """Enumerated: two render rounds of one collection, round 1 served by worker connection A, round 2 by B (= A or another
    connection); x how round 1 ended (still running, finished ok / with an error, killed, timed out, A's connection closed,
    killed and then closed) x what happened to the jobs between the rounds (nothing, expired by the watchdog, dropped by
    dropjobs+waitjobs, queue restart) x which connections close WHILE round 2 is being rendered (A, B, both, none) x how
    round 2 ends (ok, error, not yet) x which connection closes afterwards.  The fetch job is finished by a third
    connection or (every other case) still held by A.  Status is polled after every op."""
    out = []
    n = 0
    w, w2 = writers[0], writers[2 % len(writers)]
    fin_ok = {"url": "http://h/u", "size": 12}
    A = 1
    for end1 in ("running", "finish-ok", "finish-err", "kill", "timeout", "disconnect", "kill-disconnect"):
        for bridge in ("none", "expire", "dropwait", "restart"):
            for B in (1, 2):
                for close2 in ((), (A,), (B,), (A, B)):
                    if B == A and close2 == (B,):
                        continue
                    for end2 in ("finish-ok", "finish-err", "running"):
                        for close3 in ((), (A,), (B,)):
                            if (B == A and close3 == (B,)) or (close3 and close3[0] in close2 and end2 == "running"):
                                continue
                            c = "%016x" % (0xC0C0000000000000 + hid0 + n)
                            rj, mz = "%s:render-%s" % (c, w), "%s:makezip" % c
                            ops = [["render", c, w]]
                            if n % 2:
                                ops += [["pull", "makezip", 3], ["finish", mz, None, None, 3]]
                            else:
                                ops += [["pull", "makezip", A]]
                            ops += [["pull", "render", A], ["setinfo", rj, {"status": "rendering", "progress": 10}]]
                            ops += {"running": [], "finish-ok": [["finish", rj, fin_ok, None, A]], "finish-err": [["finish", rj, None, "boom", A]],
                                    "kill": [["kill", rj]], "timeout": [["tick", 1300]], "disconnect": [["disconnect", A]],
                                    "kill-disconnect": [["kill", rj], ["disconnect", A]]}[end1]
                            ops += {"none": [], "expire": [["dropdead", 0], ["dropdead", 3700]], "dropwait": [["dropmark", rj], ["wait", rj]],
                                    "restart": [["restart"]]}[bridge]
                            ops += [["render", c, w], ["pull", "render", B], ["setinfo", rj, {"status": "rendering", "progress": 50}]]
                            ops += [["disconnect", k] for k in close2]
                            ops += {"finish-ok": [["finish", rj, dict(fin_ok, url="http://h/second"), None, B]],
                                    "finish-err": [["finish", rj, None, "boom2", B]], "running": []}[end2]
                            ops += [["disconnect", k] for k in close3]
                            out.append({"collections": [c], "writers": [w, w2], "ops": ops})
                            n += 1
    return out


# ------------------------------------------------------------------------------ interleaved requests
# A status request is not atomic: do_render_status issues up to n qinfo RPCs and every RPC is a scheduling point of
# the gevent server, so other clients of the queue act BETWEEN the reads of one request.  The op
# ["istatus", c, w, {"k": op}] is one request for (c, w) with `op` applied before its k-th qinfo.

def interleave_family(hid0, writers):
    """Enumerated: every phase of the two jobs of a collection (prefix) x every single queue event another client can
    cause (on the render job, the fetch job, the clock, the queue server) x the RPC of the request it precedes (k)."""
    out = []
    fin_ok = {"url": "http://h/u", "size": 12}
    n = 0
    for wi in (0, 1):
        w, w2 = writers[wi], writers[(wi + 2) % len(writers)]

        def fam(c):
            rj, mz, rj2 = "%s:render-%s" % (c, w), "%s:makezip" % c, "%s:render-%s" % (c, w2)
            fetch = [["render", c, w], ["pull", "makezip"]]
            fetched = fetch + [["finish", mz, None, None]]
            running = fetched + [["pull", "render"]]
            prefixes = [[], [["render", c, w]], fetch, fetch + [["setinfo", mz, {"status": "fetching", "progress": 10}]], fetched,
                        fetch + [["finish", mz, None, "fetch failed"]], running, running + [["setinfo", rj, {"status": "rendering"}]],
                        fetch + [["pull", "render"]], running + [["finish", rj, fin_ok, None]],
                        running + [["finish", rj, fin_ok, None], ["dropdead", 0]],
                        running + [["finish", rj, None, "boom"], ["dropdead", 0]], running + [["kill", rj]]]
            events = [["finish", rj, fin_ok, None], ["finish", rj, dict(fin_ok, suggested_filename="Mot\u00f6rhead"), ""],
                      ["finish", rj, None, "boom"], ["finish", rj, {"url": "http://h/partial", "size": 1}, {"code": 3}],
                      ["kill", rj], ["tick", 1300], ["setinfo", rj, {"status": "rendering", "progress": 50}], ["restart"],
                      ["dropdead", 3700], ["dropdead", 11], ["render", c, w], ["pull", "render"], ["pull", "makezip"],
                      ["finish", mz, None, None], ["finish", mz, None, "fetch failed"], ["kill", mz],
                      ["setinfo", mz, {"status": "parsing"}], ["finish", rj2, fin_ok, None], ["dropmark", rj], ["wait", rj],
                      ["disconnect", 0]]
            return prefixes, events
        np_, ne = [len(x) for x in fam("c")]
        for pi in range(np_):
            for ei in range(ne):
                if wi == 1 and (pi + ei) % 3:        # second writer pair: a third of the grid
                    continue
                for k in (1, 2, 3):
                    c = "%016x" % (0xC0C0000000000000 + hid0 + n)
                    prefixes, events = fam(c)
                    out.append({"collections": [c], "writers": [w, w2], "ops": prefixes[pi] + [["istatus", c, w, {str(k): events[ei]}]]})
                    n += 1
    return out


def interleave(rng, h, p=0.6):
    """The same history with (a fraction p of) its ops happening INSIDE a status request for the collection/writer
    they concern: before the k-th qinfo of that request; sometimes two consecutive ops inside one request (k1 < k2).
    The effect on the queue is that of the plain history."""
    colls, writers = h["collections"], h["writers"]
    last_w = {}
    ops = []
    src = [o for o in h["ops"] if o[0] != "istatus"]
    i = 0
    while i < len(src):
        op = src[i]
        i += 1
        if op[0] == "render":
            last_w[op[1]] = op[2]
        if rng.random() >= p:
            ops.append(op)
            continue
        jid = op[1] if op[0] in ("setinfo", "finish", "kill", "push", "dropmark", "wait") else None
        if op[0] == "render":
            c, w = op[1], op[2]
        elif jid is not None and ":" in jid:
            c, tail = jid.split(":", 1)
            w = tail[len("render-"):] if tail.startswith("render-") and tail[len("render-"):] in writers else None
        else:
            c, w = colls[0] if rng.random() < 0.85 else colls[-1], None
        if c not in colls:
            c = colls[0]
        if w is None:
            w = last_w.get(c) or rng.choice(writers[:3])
        elif rng.random() < 0.1:
            w = rng.choice(writers)            # a request for another writer of the collection while this job changes
        k = rng.choice([1, 2, 2, 3, 3, 4])
        inj = {str(k): op}
        if i < len(src) and rng.random() < 0.25 and src[i][0] != "render":
            k2 = k + rng.choice([1, 1, 2])
            inj[str(k2)] = src[i]
            i += 1
        ops.append(["istatus", c, w, inj])
    return {"collections": colls, "writers": writers, "ops": ops}


def inter_event_name(op):
    if op[0] == "finish":
        return "finish-" + ("err" if op[3] else "ok") + ("-mz" if op[1].endswith(":makezip") else "")
    if op[0] in ("kill", "setinfo", "dropmark", "wait", "push"):
        return op[0] + ("-mz" if op[1].endswith(":makezip") else "")
    return op[0]


def oracle_inter(sink, where, inter, c, w, writers_tbl, replay):
    """The oracle for a request during which the queue changed.  The property speaks of `the job's real state`; a
    request that overlaps a state change may report the state before or after it (both are real states of the job
    during the request), and the two jobs are read by separate RPCs.  So: the answer must be justified by SOME state
    the render job had and SOME state the fetch job had between the start and the end of the request (same clauses as
    the sequential oracle).  An answer that no moment of the request justifies -- e.g. `finished` for a job that was
    running at the start and failed/killed/timed out at the end -- is reported, judged against the state at the END."""
    resp, states = inter["resp"], inter["states"]
    rs, ms = [], []
    for r, m in states:
        if r not in rs:
            rs.append(r)
        if m not in ms:
            ms.append(m)
    for rj in reversed(rs):
        for mj in reversed(ms):
            t = Sink()
            st = oracle(t, where, resp, c, w, rj, mj, writers_tbl, replay)
            if not t.items:
                return st
    rj, mj = states[-1]
    t = Sink()
    st = oracle(t, where, resp, c, w, rj, mj, writers_tbl, replay)
    for it in t.items:
        sink.hit(it["fingerprint"], it["what"] + " at the end of the request; queue events before qinfo #%s of this request; no state the jobs "
                 "had between the start and the end of the request justifies the answer (render job went through: %s)" %
                 (",".join(str(k) for k in inter["fired"]) or "-", " -> ".join(brief(r) for r in rs)), it["replay"])
    return st


def brief(j):
    if j is None:
        return "absent"
    if not j["done"]:
        return "not done"
    return "failed(%r)" % (j["error"],) if j["error"] else "finished ok"


def enc_event(e):
    k = e[0]
    if k == "P":
        return "P %d %s" % (e[1], "-" if e[2] is None else str(e[2]))
    if k == "I":
        return "I " + " ".join(["%d" % len(e[1])] + [cc.enc_str(a) + " " + cc.enc_val(b) for a, b in e[1].items()])
    if k == "F":
        return "F %s %s" % (cc.enc_val(e[1]), cc.enc_val(e[2]))
    return k


def enc_op(a):
    if a[0] == "R":                 # queue restarted: the model's store is empty again
        return "RESET"
    if a[0] == "J":
        return "OP J %d %s %s" % (a[1], cc.enc_str(a[2]), enc_event(a[3]))
    return "OP %s %d" % (a[0], a[1])


# ---------------------------------------------------------------------------------------------- check

def generate(src):
    return c19_writers.generate(src)


def build():
    return core.ocaml_build("c19", "C19/Extract.v", "driver.ml", dirs=["C16", "C19"])


def check(run):
    run.rule = ("(a) snapshots: full product of done{absent,False,True,1,0} x error{absent,None,'',str,0,[],dict} x info{absent,{},dict,None} x "
                "result{absent,None,{},non-dict,partial dict,full dict with 11 suggested_filename shapes} x writer{5 known+1 unknown} with the "
                "makezip snapshot cycling over 7 shapes, plus done x error x info x makezip in full, absent render job, decoy jobs of other "
                "writers/collections, and random printable-Unicode filenames (20% of the characters drawn from the code points whose NFKD "
                "yields non-alphanumeric ASCII, computed from unicodedata, 15% from the TRANSLITERATION-PRONE code points: every punctuation "
                "mark (General_Category P*: all quotation marks, apostrophes, guillemets, dashes, brackets, fullwidth/small forms), Z*, Sk, Lm "
                "and every code point whose Unicode name mentions space/colon/semicolon/comma/quote/apostrophe/prime, ~1.5k code points "
                "computed from unicodedata at run time; 35% of the names are PHRASES: title words joined/wrapped by such marks -- possessive "
                "X's, elision l'X, quoted \"X\", X - Y); every case is its own collection id; (b) op sequences on a real "
                "workq: random ones (render, pull, setinfo, finish ok/err/malformed, kill, clock tick + handletimeouts, dropdead, push, dropjobs, "
                "waitjobs, queue restart) and life-cycle ones (2-4 render rounds of one collection: fetch, render, finish ok/err/kill/timeout, "
                "then expiry by the watchdog after the ttl / restart / drop, then re-render); status polled for 2 collections x all writers "
                "after EVERY op by one long-lived process; WORKER CONNECTIONS: the queue server keeps one handler per client connection, which "
                "remembers the jobs pulled through it and reschedules the unfinished ones when the connection closes; pull/finish ops carry the "
                "connection they go through (0 = the web server's, 1..3 = workers), [disconnect, k] closes connection k (QPlugin.shutdown of its "
                "handler; a fresh handler takes its place), a restart closes all of them; random histories draw connections and disconnects at "
                "random, life-cycle rounds are served by random workers with a connection closing mid-render in 30% of the rounds, and an "
                "enumerated worker family runs two render rounds of a collection (round 1 by A ending running/ok/error/killed/timed out/"
                "disconnected/killed+disconnected x bridge none/expired/dropped/restart x round 2 by B in {A, other} x connections closing "
                "while round 2 renders x round 2 ending ok/error/running x connection closing afterwards). The job a status is judged against "
                "is the LATEST INCARNATION registered under the id (job objects told apart by identity by the harness; absent once that "
                "incarnation was seen removed), not whatever the queue's id->job table currently serves; (b') INTERLEAVED REQUESTS: a status request is up to two qinfo RPCs and every RPC is a "
                "scheduling point of the gevent server, so the op [istatus, c, w, {k: op}] is ONE real do_render_status call whose proxy applies the "
                "queue op `op` before the request's k-th qinfo (k = 1..4; ops whose k the request does not reach are applied right after it). "
                "Generated as (i) an enumerated family: 13 phases of the two jobs (absent .. fetched .. running with/without info .. finished, "
                "failed, killed, deadline stamped) x 21 single events of another client (finish ok/falsy error/error/dict error, kill, timeout "
                "tick, setinfo, restart, watchdog drop, re-render, pull, the same on the fetch job, finish of another writer's job, dropjobs/"
                "waitjobs) x k in {1,2,3}, for two writers (the second on a third of the grid); (ii) every sampled life-cycle history (thorough: 2000 of them) and 40 "
                "(thorough: 2000) random histories once more with 60% of their ops moved INSIDE a status request for the collection/writer "
                "they concern (k drawn from 1..4, a quarter of them with the next op inside the same request at a later k). DECISION on what an "
                "interleaved answer must satisfy (the property speaks of the job's real state, and is silent on concurrency): the answer must be "
                "justified -- by exactly the clauses of the sequential oracle -- by SOME state the render job had and SOME state the fetch job had "
                "between the start and the end of the request (the two jobs are read by separate RPCs, so no atomic snapshot of both is demanded; "
                "a stale `progress` from the first read while the job finishes before the second is faithful to the state at the first read and "
                "accepted). An answer no moment of the request justifies -- e.g. `finished` for a job that was running at the start and is "
                "failed/killed/timed out at the end -- is a violation, reported against the state at the END of the request. Such hits are "
                "minimised: earlier interleaved requests flattened to plain ops, ops delta-debugged, injected events reduced to a 1-minimal set, "
                "each moved to the smallest k that still fails; (c) all 0x110000 code points for the Unicode facts, get_content_disposition on "
                "every 97th (thorough: every) code point and on every code point whose NFKD contains ASCII or that is transliteration-prone, in 5 contexts. distinct = distinct "
                "(snapshots, writer) resp. (history, step, collection, writer) resp. (code point, context); non-trivial = render job present, "
                "or makezip job present, i.e. not the empty queue; an interleaved request is distinct by (history, step, states during the request, answer) "
                "and non-trivial when an event was injected before its 2nd or a later RPC. Oracle hits are re-run alone in a fresh process and delta-debugged "
                "(ops, then filename characters) before they are reported")
    run.trusted = ["Coq 8.16.1 kernel (coqc); vm_compute only in the finite writer-table obligation and the Examples",
                   "extraction (ExtrOcamlBasic directives only) + ocaml/c19/driver.ml + vt/harness/c19_codec.py (token protocol)",
                   "hand-written model of do_render_status/_process_and_return_finished_state/get_content_disposition and of the job life cycle "
                   "(coq/C19/Model.v); tie = differential run on the real code",
                   "vt/gen/c19_writers.py (name2writer table, separator class, progress text regenerated from nserve.py)",
                   "unicodedata.normalize('NFKD') as an oracle (hypothesis nfkd_no_new_controls, checked over all code points at run time); "
                   "str.isspace table and utf-8/percent-encoding restated in the model and compared on the real code",
                   "the in-process proxy replacing rpcclient.ServerProxy (JSON round trip of arguments/results); for interleaved requests: that "
                   "another client's RPC served between two qinfo RPCs of a request is what the injected op does (the real server is a gevent "
                   "StreamServer: one greenlet per connection, switches only at socket operations, every rpc_* method runs without yielding -- "
                   "blocking qpull/qwait excepted, which the harness never lets block)",
                   "coq/C19/ModelReq.v: status_req / exec, the status command with its reads explicit (hand-written; tied to the real request by "
                   "answer AND sequence of job ids asked on every interleaved request and -- the id sequence -- on every snapshot case)",
                   "coq/C19/ModelConn.v: hand-written model of the per-connection handlers (running_jobs, shutdown -> pushjob overwriting "
                   "id2job) at the level of job incarnations; tied to qserve.py by the shape obligation on QPlugin.shutdown and, on the real "
                   "code, by the harness: it tells job objects apart by identity and reports when the queue's table serves another object "
                   "than the one registered last under an id (histories with disconnects: worker family, random, life-cycle)",
                   "C19_reachable / C19_status_after_*: coq/C16/Model.v, the queue model of C16/C17/C18 (tied to the real qs code by THEIR "
                   "differential runs, not by this check), and the decoding of its value codes into JSON values (Section variables; only "
                   "`exactly error code 0 is falsy` is assumed)"]
    run.assumptions = ["job snapshots reach do_render_status as JSON values (None/bool/int/str/list/dict; floats not modelled)",
                       "suggested filenames contain no control characters and no lone surrogates (the property's quantifier)",
                       "bottle/WSGI dispatch, collid2qserve routing and the TCP RPC layer are not covered",
                       "the Coq theorems about `status`/`do_render_status` take the snapshots of ONE queue state; C19_request_* / C19_interleaved_* "
                       "state what holds when the reads of a request see different states (answer = function of the snapshots read; finished/"
                       "failed derive from the single read of the render job). That the snapshots read by one request are mutually consistent is "
                       "NOT proved (nserve takes no atomic snapshot): it is the harness' part -- events injected between the RPCs of real requests, "
                       "one event per gap, answers judged against the states during the request"]
    src = core.snapshot()
    run.obligation("snapshot of the working tree taken and extensions built", os.path.isdir(src), src)
    gen_out = {}

    def gen():
        gen_out["writers"] = generate(src)
    proofs_ok = run.check_proofs("C19", gen=gen, dirs=["C16"])
    try:
        sites = c19_writers.qinfo_sites(open(os.path.join(src, "mwlib", "core", "nserve.py"), encoding="utf8").read())
    except Exception as e:
        sites = "not readable: %s" % e
    # not part of the translator on purpose: when this fails the model still runs (ties + monitor), the verdict is fail-closed
    run.obligation("do_render_status has exactly the two queue reads the models have (render job, then the fetch job)",
                   sites == ["{collection_id}:render-{writer}", "{collection_id}:makezip"], "qinfo call sites in source order: %r" % (sites,))
    try:
        shape = c19_writers.shutdown_shape(open(os.path.join(src, "qs", "qserve.py"), encoding="utf8").read())
    except Exception as e:
        shape = "not readable: %s" % e
    # like the one above: fail-closed for the verdict, the histories with worker connections still run
    run.obligation("QPlugin.shutdown has the shape coq/C19/ModelConn.v models (dec_repo: loop over its own running_jobs, skip a job by "
                   "ITS OWN done flag, pushjob the others)", shape == c19_writers.SHUTDOWN_EXPECTED, "qserve.py: %s" % (shape,))
    model = None
    if "writers" in gen_out:
        wt = gen_out["writers"]
        writers = [w[0] for w in wt]
        writers_tbl = {w[0]: (w[1], w[2]) for w in wt}
        try:
            model = Model(build())
        except Exception as e:     # the model does not build: the verdict is already fail-closed; keep searching on the real code
            if proofs_ok:
                raise
            run.notes["model"] = "extracted model not available (%s): monitor-only run" % (str(e)[:200],)
    else:
        # The translator refused the changed source.  The verdict stays fail-closed (broken obligation above), but the
        # search for a concrete failing input does not need the model: run the property's oracle on the real code with
        # the writer table the running code itself reports.
        rc, out = core.run_impl("vt.harness.c19_impl", ["writers"], src=src, timeout=300)
        js = [x for x in out.splitlines() if x.startswith("{")]
        if rc != 0 or not js:
            raise RuntimeError("c19_impl writers failed rc=%s: %s" % (rc, out[-600:]))
        rt = json.loads(js[-1])
        writers = sorted(rt)
        writers_tbl = {k: (v[0], v[1]) for k, v in rt.items()}
        run.notes["model"] = "translator failed: monitor-only run (no model comparison)"
    try:
        _check(run, src, model, writers, writers_tbl)
    finally:
        if model is not None:
            model.close()


class NoteSink:
    """A sink that appends a remark to whatever the oracle reports."""

    def __init__(self, sink, note):
        self.sink, self.note = sink, note

    def hit(self, fingerprint, what, replay):
        self.sink.hit(fingerprint, what + self.note, replay)


def stale_note(stp, c, w):
    """The job judged is the latest incarnation registered under the id; say so when the queue serves another one."""
    st = (stp.get("stale") or {})
    out = ""
    for jid in ("%s:render-%s" % (c, w), "%s:makezip" % c):
        if jid in st:
            out += ("; the queue's id->job table serves an EARLIER incarnation of %s (%s) instead of the job registered last under that id (%s)"
                    % (jid, brief(st[jid]), brief(stp["live"].get(jid))))
    return out


class Sink:
    """Collects what the oracle reports on the batch run; settled (re-run alone, minimised) before it reaches run.hit."""

    def __init__(self):
        self.items = []

    def hit(self, fingerprint, what, replay):
        self.items.append({"fingerprint": fingerprint, "what": what, "replay": replay})


def kind_of(fingerprint):
    """The oracle's clause without the place it fired at."""
    return re.split(r":(?:snap:|hist:|replay|U\+)", fingerprint)[0]


def _check(run, src, model, writers, writers_tbl):
    tier = run.tier
    sink = Sink()
    dist = {"snap_states": {}, "hist_states": {}, "hist_ops": {}, "hist_lengths": {}, "hist_kinds": {}}
    # ---------------- corpus + (a) snapshot product
    corpus = os.path.join(core.VERIF, "corpus", "C19")
    ccases, chists = [], []
    if os.path.isdir(corpus):
        for fn in sorted(os.listdir(corpus)):
            obj = json.load(open(os.path.join(corpus, fn)))
            if "snap_case" in obj:
                ccases.append(obj["snap_case"])
            if "history" in obj:
                chists.append(obj["history"])
    cases = ccases + gen_snap_cases(writers, run.rng, tier)
    rc, out = core.run_impl("vt.harness.c19_impl", ["snaps"], src=src, input="".join(json.dumps(c) + "\n" for c in cases), timeout=3000)
    real = [json.loads(x) for x in out.splitlines() if x.startswith("{")]
    if rc != 0 or len(real) != len(cases):
        raise RuntimeError("c19_impl snaps failed rc=%s %d/%d: %s" % (rc, len(real), len(cases), out[-600:]))
    if model is not None:
        lines = []
        for c in cases:
            tbl = cc.nfkd_table(names_in(c["render"]))
            lines.append("STATUS %s %s %s %s" % (cc.enc_str(c["w"]), cc.enc_snapopt(c["render"]), cc.enc_snapopt(c["makezip"]), cc.enc_tbl(tbl)))
        mout = model.batch(lines)
    else:
        mout = [None] * len(cases)
    dis = []
    for ci, (c, r, m) in enumerate(zip(cases, real, mout)):
        key = (json.dumps(c["render"], sort_keys=True), json.dumps(c["makezip"], sort_keys=True), c["w"], bool(c.get("decoys")))
        run.count(key, nontrivial=c["render"] is not None or c["makezip"] is not None)
        if m is not None:
            rcanon = cc.canon_real_response(r, c["c"], c["w"])
            try:
                mcanon = cc.dec_response(m)
            except Exception as e:
                mcanon = "model output unreadable: %r (%s)" % (m[:100], e)
            if rcanon != mcanon:
                dis.append("snapshots %s: impl %r model %r" % (json.dumps(c, sort_keys=True)[:400], rcanon, mcanon))
        want_asked = ["%s:render-%s" % (c["c"], c["w"])]
        if r["asked"][:1] != want_asked[:1] and c["w"] in writers_tbl:
            dis.append("job id asked %r, expected %r" % (r["asked"], want_asked))
        if any(a not in ("%s:render-%s" % (c["c"], c["w"]), "%s:makezip" % c["c"]) for a in r["asked"]):
            dis.append("do_render_status asked for a foreign job id: %r" % (r["asked"],))
        if c["w"] in writers_tbl and r["asked"] not in (want_asked, want_asked + ["%s:makezip" % c["c"]]):
            # the model (status / status_req) reads the render job once and then at most the fetch job once
            dis.append("do_render_status issued the qinfo sequence %r; the model reads %r then at most the makezip job" % (r["asked"], want_asked))
        if reachable_shape(c["render"]) and reachable_shape(c["makezip"]):
            # the property quantifies over histories: the oracle applies to snapshots a queue can serve
            shape = dict(c)
            shape.pop("c")
            st = oracle(sink, "snap:" + cc.canon(shape)[:300], r, c["c"], c["w"], live_of_snap(c["render"]), live_of_snap(c["makezip"]), writers_tbl,
                        {"snap_case": c, "_seq": ("snap", ci)})
        else:
            st = "unreachable-shape:" + (r["ret"].get("state", "?") if "ret" in r else "crash")
        dist["snap_states"][st] = dist["snap_states"].get(st, 0) + 1
        res_ = c["render"].get("result") if isinstance(c["render"], dict) else None
        if len(run.samples) < 3 and st == "finished" and isinstance(res_, dict) and "suggested_filename" in res_:
            run.sample({"case": c, "real": r.get("ret")})
    if model is not None:
        run.tie("do_render_status on explicit job snapshots: extracted model vs nserve.Application.do_render_status", len(cases), dis)

    # ---------------- (b) histories on a real workq
    nh = 110 if tier == "quick" else 4000
    nl = 90 if tier == "quick" else 4000
    hists = []
    for h in chists:
        hists.append(dict(h, kind="corpus"))
    for _ in range(nh):
        hists.append(dict(gen_history(run.rng, len(hists), writers), kind="random"))
    for _ in range(nl):
        hists.append(dict(gen_lifecycle_history(run.rng, len(hists), writers), kind="lifecycle"))
    # interleaved requests: the enumerated family, and interleaved variants of sampled life-cycle / random histories
    base_l = [h for h in hists if h["kind"] == "lifecycle"]
    base_r = [h for h in hists if h["kind"] == "random"]
    for h in worker_family(len(hists), writers):
        hists.append(dict(h, kind="worker-family"))
    for h in interleave_family(len(hists), writers):
        hists.append(dict(h, kind="interleave-family"))
    ni_l, ni_r = (len(base_l), 40) if tier == "quick" else (2000, 2000)
    for h in base_l[:ni_l]:
        hists.append(dict(interleave(run.rng, h), kind="interleaved-lifecycle"))
    for h in base_r[:ni_r]:
        hists.append(dict(interleave(run.rng, h), kind="interleaved-random"))
    for i, h in enumerate(hists):
        h["id"] = i
    nshard = 1 if tier == "quick" else min(16, core.NPROC)
    shards = [hists[i::nshard] for i in range(nshard)]
    with concurrent.futures.ThreadPoolExecutor(nshard) as ex:
        futs = [ex.submit(core.run_impl, "vt.harness.c19_impl", ["hist"], src, "".join(json.dumps(h) + "\n" for h in sh), 3000) for sh in shards]
        outs = [f.result() for f in futs]
    results = {}
    for rc, out in outs:
        if rc != 0:
            raise RuntimeError("c19_impl hist failed rc=%s: %s" % (rc, out[-800:]))
        for x in out.splitlines():
            if x.startswith("{"):
                o = json.loads(x)
                results[o["id"]] = o
    if len(results) != len(hists):
        raise RuntimeError("c19_impl hist: %d/%d histories" % (len(results), len(hists)))
    dis_life, dis_stat, dis_inter = [], [], []
    ninter = 0
    dist.update({"inter_events": {}, "inter_reads": {}, "inter_states": {}})
    nsteps = 0
    nstatus = 0
    for h in hists:
        res = results[h["id"]]
        dist["hist_lengths"][len(h["ops"])] = dist["hist_lengths"].get(len(h["ops"]), 0) + 1
        dist["hist_kinds"][h["kind"]] = dist["hist_kinds"].get(h["kind"], 0) + 1
        lines = ["RESET"]
        plan = []          # (kind, step index, key)
        for si, stp in enumerate(res["steps"]):
            dist["hist_ops"][stp["op"][0]] = dist["hist_ops"].get(stp["op"][0], 0) + 1
            for a in stp["applied"]:
                lines.append(enc_op(a))
                plan.append(("op", si, None))
            if "inter" in stp:
                rd = stp["inter"]["reads"]
                ic, iw = stp["op"][1], stp["op"][2]
                want = ["%s:render-%s" % (ic, iw), "%s:makezip" % ic]
                if [x[0] for x in rd] == want[:len(rd)]:
                    r1 = rd[0][1] if len(rd) > 0 else None
                    m2 = rd[1][1] if len(rd) > 1 else None
                    lines.append("RSTATUS %s %s %s %s %s" % (cc.enc_str(ic), cc.enc_str(iw), cc.enc_snapopt(r1), cc.enc_snapopt(m2),
                                                            cc.enc_tbl(cc.nfkd_table(names_in(r1)))))
                else:
                    lines.append("FLUSHLESS")            # answered with ERR: the reads do not have the model's shape
                plan.append(("inter", si, None))
            names = []
            for s in stp["snaps"].values():
                names += names_in(s)
            tbl = cc.enc_tbl(cc.nfkd_table(names))
            for jid in stp["snaps"]:
                lines.append("QINFO " + cc.enc_str(jid))
                plan.append(("qinfo", si, jid))
            for key in stp["status"]:
                c, w = key.split("|")
                lines.append("STSTATUS %s %s %s" % (cc.enc_str(c), cc.enc_str(w), tbl))
                plan.append(("status", si, key))
        mout = model.batch(lines)[1:] if model is not None else [None] * len(plan)
        bad = False
        for (kind, si, key), m in zip(plan, mout):
            stp = res["steps"][si]
            if kind == "op":
                if m is not None and m.strip() != "ok":
                    dis_life.append("history %d step %d: model driver said %r" % (h["id"], si, m))
                continue
            if kind == "inter":
                it = stp["inter"]
                ic, iw = stp["op"][1], stp["op"][2]
                ninter += 1
                for k_, o_ in stp["op"][3].items():
                    nm = "k%s:%s%s" % (k_, inter_event_name(o_), "" if int(k_) in it["fired"] else ":late")
                    dist["inter_events"][nm] = dist["inter_events"].get(nm, 0) + 1
                dist["inter_reads"][len(it["reads"])] = dist["inter_reads"].get(len(it["reads"]), 0) + 1
                run.count((h["id"], si, "inter", cc.canon(it["states"]), cc.canon(it["resp"])), nontrivial=any(k_ >= 2 for k_ in it["fired"]))
                if m is not None:
                    rcanon = (cc.canon_real_response(it["resp"], ic, iw), [x[0] for x in it["reads"]])
                    try:
                        head, _, tail = m.partition(" ASKED ")
                        rdr = cc.Reader(tail)
                        mcanon = (cc.dec_response(head), [rdr.str() for _ in range(int(rdr.next()))])
                    except Exception as e:
                        mcanon = "model output unreadable: %r (%s)" % (m[:100], e)
                    if rcanon != mcanon and not bad:
                        bad = True
                        dis_inter.append("history %s step %d: request read %s and answered %r; model (status_req on these reads): %r" %
                                         (json.dumps(h["ops"][:si + 1]), si, json.dumps(it["reads"])[:300], rcanon[0], mcanon))
                hh = {"collections": h["collections"], "writers": h["writers"], "ops": h["ops"][:si + 1]}
                st = oracle_inter(sink, "inter:hist:%s" % cc.canon(it["states"])[:300], it, ic, iw, writers_tbl,
                                  {"histories": [hh], "query": [ic, iw], "inter": True, "_seq": ("hist", h["id"])})
                dist["inter_states"][st] = dist["inter_states"].get(st, 0) + 1
                continue
            if kind == "qinfo":
                if m is None:
                    continue
                msnap, _phase = cc.dec_snapopt(m)
                rsnap = cc.snap4(stp["snaps"][key])
                if cc.canon(msnap) != cc.canon(rsnap) and not bad:
                    bad = True
                    dis_life.append("job life cycle, history %s step %d (%r) job %s: workq snapshot %s model %s" %
                                    (json.dumps(h["ops"][:si + 1]), si, stp["op"], key, cc.canon(rsnap), cc.canon(msnap)))
                continue
            c, w = key.split("|")
            r = stp["status"][key]
            nstatus += 1
            rj, mj = stp["live"]["%s:render-%s" % (c, w)], stp["live"]["%s:makezip" % c]
            run.count((h["id"], si, key, cc.canon(rj), cc.canon(mj)), nontrivial=rj is not None or mj is not None)
            if m is not None:
                rcanon = cc.canon_real_response(r, c, w)
                try:
                    mcanon = cc.dec_response(m)
                except Exception as e:
                    mcanon = "model output unreadable: %r (%s)" % (m[:100], e)
                if rcanon != mcanon and not bad:
                    bad = True
                    dis_stat.append("history %s step %d %s: impl %r model %r" % (json.dumps(h["ops"][:si + 1]), si, key, rcanon, mcanon))
            hh = {"collections": h["collections"], "writers": h["writers"], "ops": h["ops"][:si + 1]}
            note = stale_note(stp, c, w)
            st = oracle(NoteSink(sink, note) if note else sink, "hist:%s:%s" % (cc.canon(rj)[:200], cc.canon(mj)[:100]), r, c, w, rj, mj, writers_tbl,
                        {"histories": [hh], "query": [c, w], "_seq": ("hist", h["id"])})
            dist["hist_states"][st] = dist["hist_states"].get(st, 0) + 1
        nsteps += len(res["steps"])
        if len(run.samples) < 6 and len(h["ops"]) >= 10:
            last = res["steps"][-1]
            run.sample({"ops": h["ops"][:12], "final_status": {k: (v.get("ret") or v) for k, v in list(last["status"].items())[:2]}})
    if model is not None:
        run.tie("job life cycle: Coq `run` vs qs.jobs.workq behind QPlugin (qinfo of every tracked job after every op)", nsteps, dis_life)
        run.tie("do_render_status bound to the real workq along histories: model on the model store vs real", nstatus, dis_stat)
        run.tie("one status request with queue events between its qinfo RPCs: the resumption model status_req run on the snapshots the "
                "request read (answer AND sequence of job ids asked) vs real", ninter, dis_inter)

    # ---------------- (c) Unicode facts, exhaustively
    step = 97 if tier == "quick" else 1
    rc, out = core.run_impl("vt.harness.c19_impl", ["unicode", str(step)], src=src, timeout=3000)
    js = [x for x in out.splitlines() if x.startswith("{")]
    if rc != 0 or not js:
        raise RuntimeError("c19_impl unicode failed rc=%s: %s" % (rc, out[-600:]))
    u = json.loads(js[-1])
    run.obligation("NFKD introduces no control character (hypothesis nfkd_no_new_controls), all 0x110000 code points + sampled strings",
                   not u["bad_nfkd"] and not u["bad_str"], "unidata %s; violating code points: %r %r" % (u["unidata_version"], u["bad_nfkd"][:5], u["bad_str"][:5]))
    run.obligation("the filename generator's set of code points whose NFKD yields non-alphanumeric ASCII == the set the running interpreter computes",
                   u["special"] == special_cps(), "%d vs %d code points" % (len(u["special"]), len(special_cps())))
    run.obligation("the filename generator's set of transliteration-prone code points (punctuation, separators, modifier symbols/letters, "
                   "separator words in the character name) == the set the running interpreter computes; every one of them went through "
                   "get_content_disposition in 5 contexts", u.get("translit") == translit_cps() and
                   {c for c, _x, _y in u["cds"]} >= set(translit_cps()), "%d vs %d code points" % (len(u.get("translit") or []), len(translit_cps())))
    if model is not None:
        # the model's whitespace table == str.isspace on every code point: ask the model to strip [c]
        ws_model = [int(x) for x in model.batch(["SPACES"])[0].split()]
        run.obligation("py_isspace (model) == str.isspace on all 0x110000 code points", ws_model == u["spaces"],
                       "model-only %r impl-only %r" % (sorted(set(ws_model) - set(u["spaces"]))[:5], sorted(set(u["spaces"]) - set(ws_model))[:5]))
    rt = {k: tuple(v[:2]) for k, v in u["runtime_writers"].items()}
    run.obligation("runtime nserve.name2writer == generated writer table (no entry-point writer changes it)", rt == writers_tbl and
                   all(v[2] == k for k, v in u["runtime_writers"].items()), "runtime %r generated %r" % (rt, writers_tbl))
    lines, keys = [], []
    for cpt, ctx, cd in u["cds"]:
        name = ctx.replace("@", chr(cpt))
        lines.append("CD %s %s %s" % (cc.enc_str(name), cc.enc_str("pdf"), cc.enc_tbl(cc.nfkd_table([name.strip() or "collection"]))))
        keys.append((cpt, ctx, cd))
    mout = model.batch(lines) if model is not None else [None] * len(keys)
    dis = []
    for (cpt, ctx, cd), m in zip(keys, mout):
        run.count(("cd", cpt, ctx), nontrivial=cpt >= 128)
        if m is not None:
            t = m.split()
            mcd = ("EXC " + t[1]) if t[0] == "E" else cc.Reader(m[2:]).str()
            if mcd != cd:
                dis.append("content_disposition of %r with @=U+%04X: impl %r model %r" % (ctx, cpt, cd, mcd))
        prob = "raised" if cd.startswith("EXC") else cc.header_problem(cd, "pdf")
        if prob:
            sink.hit("header:%s:U+%04X" % (prob.split(":")[0], cpt), "get_content_disposition(%r with @=U+%04X) = %r: %s" % (ctx, cpt, cd, prob),
                     {"cd_name": ctx.replace("@", chr(cpt))})
    if model is not None:
        run.tie("get_content_disposition per code point (every %d-th of the non-control scalar values + every code point whose NFKD has "
                "ASCII, in 5 contexts): model vs impl" % step, len(keys), dis)
    dist["cd_cases"] = len(keys)
    settle_hits(run, sink, src, writers_tbl, cases, hists, nshard)
    run.coverage["exhaustive"] = False
    run.coverage["exhaustive_part"] = ("snapshot shape product (done x error x info x result x writer) is enumerated completely; NFKD/isspace facts over "
                                       "all 0x110000 code points; every code point whose NFKD contains an ASCII character goes through "
                                       "get_content_disposition in 5 contexts, and so does every transliteration-prone code point (P*, Z*, Sk, Lm, separator "
                                       "words in the name); histories and longer filenames are sampled")
    run.coverage["input_distribution"] = dist
    run.coverage["unidata_version"] = u["unidata_version"]


# ---------------------------------------------------------------------------------------------- settling hits

def run_replay(src, writers_tbl, rp):
    """Re-run one replay object on the real code in a FRESH interpreter and apply the oracle: the Sink."""
    sink = Sink()
    if "snap_case" in rp or "snap_seq" in rp:
        seq = rp["snap_seq"] if "snap_seq" in rp else [rp["snap_case"]]
        rc, out = core.run_impl("vt.harness.c19_impl", ["snaps"], src=src, input="".join(json.dumps(c) + "\n" for c in seq))
        rs = [json.loads(x) for x in out.splitlines() if x.startswith("{")]
        if rc != 0 or len(rs) != len(seq):
            raise RuntimeError("c19_impl snaps failed rc=%s: %s" % (rc, out[-400:]))
        c, r = seq[-1], rs[-1]
        sink.observed = {"case": c, "response": r}
        oracle(sink, "replay", r, c["c"], c["w"], live_of_snap(c["render"]), live_of_snap(c["makezip"]), writers_tbl, rp)
    elif "history" in rp or "histories" in rp:
        hs = rp["histories"] if "histories" in rp else [rp["history"]]
        hs = [dict(h, id=i) for i, h in enumerate(hs)]
        rc, out = core.run_impl("vt.harness.c19_impl", ["hist"], src=src, input="".join(json.dumps(h) + "\n" for h in hs))
        rs = [json.loads(x) for x in out.splitlines() if x.startswith("{")]
        if rc != 0 or len(rs) != len(hs):
            raise RuntimeError("c19_impl hist failed rc=%s: %s" % (rc, out[-400:]))
        if not rs[-1]["steps"]:
            return sink
        stp = rs[-1]["steps"][-1]
        c, w = rp["query"]
        key = "%s|%s" % (c, w)
        if rp.get("inter"):
            # the request judged is the last op itself: a status request with queue events between its qinfo RPCs
            if "inter" not in stp or stp["op"][1:3] != [c, w]:
                return sink
            it = stp["inter"]
            sink.observed = {"histories": [h["ops"] for h in hs], "request": stp["op"], "qinfo_reads": [[a, cc.snap4(b)] for a, b in it["reads"]],
                             "injected_before_qinfo": it["fired"], "not_reached": it["late"],
                             "states_during_request(render job, makezip job)": it["states"], "status": it["resp"]}
            oracle_inter(sink, "inter:replay", it, c, w, writers_tbl, rp)
            return sink
        if key not in stp["status"]:
            return sink
        r = stp["status"][key]
        sink.observed = {"histories": [h["ops"] for h in hs], "live": {k: stp["live"].get(k) for k in ("%s:render-%s" % (c, w), "%s:makezip" % c)},
                         "status": r}
        if stp.get("stale"):
            sink.observed["stale incarnations served by the queue's id->job table"] = stp["stale"]
        note = stale_note(stp, c, w)
        oracle(NoteSink(sink, note) if note else sink, "replay", r, c, w, stp["live"]["%s:render-%s" % (c, w)], stp["live"]["%s:makezip" % c], writers_tbl, rp)
    elif "cd_name" in rp:
        c = {"c": COLL, "w": "rl", "makezip": None, "render": {"info": {}, "done": True, "error": None, "result": {
            "url": "u", "size": 1, "suggested_filename": rp["cd_name"]}}}
        rc, out = core.run_impl("vt.harness.c19_impl", ["snaps"], src=src, input=json.dumps(c) + "\n")
        r = json.loads([x for x in out.splitlines() if x.startswith("{")][-1])
        sink.observed = {"case": c, "response": r}
        oracle(sink, "replay", r, COLL, "rl", live_of_snap(c["render"]), None, writers_tbl, rp)
    return sink


def ddmin(items, test, pool, budget):
    """Delta debugging: a 1-minimal sublist of `items` (order kept) on which test() still holds.  The candidates of one
    round are evaluated in parallel, the first (in a fixed order) that holds is taken: deterministic."""
    n = 2
    items = list(items)
    while len(items) >= 1 and budget[0] > 0:
        size = max(1, len(items) // n)
        chunks = [items[i:i + size] for i in range(0, len(items), size)]
        cands = []
        if n > 2 or len(chunks) == 2:
            cands += chunks                                               # reduce to one chunk
        cands += [sum(chunks[:i] + chunks[i + 1:], []) for i in range(len(chunks))]      # or to a complement
        cands = [c for c in cands if len(c) < len(items)]
        seen, uniq = set(), []
        for c in cands:
            k = json.dumps(c, sort_keys=True)
            if k not in seen:
                seen.add(k)
                uniq.append(c)
        budget[0] -= len(uniq)
        res = list(pool.map(test, uniq))
        hit = next((c for c, ok in zip(uniq, res) if ok), None)
        if hit is not None:
            items = hit
            n = max(2, min(n - 1, len(items)))
            if not items:
                break
        elif size == 1:
            break
        else:
            n = min(len(items), n * 2)
    return items


def settle_hits(run, sink, src, writers_tbl, cases, hists, nshard):
    """Every clause the oracle reported on the batch run is re-run ALONE in a fresh interpreter (exactly what
    `./check C19 --replay` does) and shrunk by delta debugging -- ops of the history, then the characters of the
    filenames -- while the same clause keeps firing.  If it does not fire alone, the observation depends on what the
    process did before: the replay then is the sequence of inputs of that process up to it, shrunk the same way."""
    by_kind = {}
    for h in sink.items:
        by_kind.setdefault(kind_of(h["fingerprint"]), []).append(h)
    if not by_kind:
        return
    pool = concurrent.futures.ThreadPoolExecutor(8)

    def fires(kind, rp):
        try:
            s = run_replay(src, writers_tbl, rp)
        except Exception:
            return None
        for it in s.items:
            if kind_of(it["fingerprint"]) == kind:
                return it
        return None

    try:
        for kind in sorted(by_kind)[:5]:
            budget = [260]
            if kind.endswith(":inter"):      # interleaved requests: start from the shortest failing history (stable sort: deterministic)
                by_kind[kind] = sorted(by_kind[kind], key=lambda x: sum(len(hh["ops"]) for hh in x["replay"]["histories"]))
            first = by_kind[kind][0]
            rp = dict(first["replay"])
            seq = rp.pop("_seq", None)
            got = None
            # candidates of this clause in the order found; prefer one that reproduces alone
            for h in by_kind[kind][:4]:
                cand = dict(h["replay"])
                cand.pop("_seq", None)
                budget[0] -= 1
                got = fires(kind, cand)
                if got:
                    rp, seq = cand, None
                    break
            if not got and seq is not None:
                # state left behind by earlier inputs of the same process: replay the process's input sequence
                if seq[0] == "snap":
                    full = {"snap_seq": cases[:seq[1] + 1]}
                else:
                    mine = [h for h in hists if h["id"] % nshard == seq[1] % nshard and h["id"] < seq[1]]
                    full = {"histories": [{"collections": h["collections"], "writers": h["writers"], "ops": h["ops"]} for h in mine] + rp["histories"],
                            "query": rp["query"]}
                    if rp.get("inter"):
                        full["inter"] = True
                budget[0] -= 1
                got = fires(kind, full)
                if got:
                    rp = full
                    key = "snap_seq" if "snap_seq" in rp else "histories"
                    last = rp[key][-1]
                    pre = ddmin(rp[key][:-1], lambda sub: bool(fires(kind, dict(rp, **{key: sub + [last]}))), pool, budget)
                    rp = dict(rp, **{key: pre + [last]})
            if not got:
                rp = dict(first["replay"])
                rp.pop("_seq", None)
                run.hit(kind + ":not-reproduced-alone", first["what"] + " (seen in the batch run; did not fire again when re-run in a fresh process)", rp)
                continue
            if rp.get("inter"):
                rp = shrink_inter(rp, lambda cand: bool(fires(kind, cand)), pool, budget, before_ops=True)
            # shrink the ops of every history (last first), keeping the final poll
            if "histories" in rp:
                for hi in range(len(rp["histories"]) - 1, -1, -1):
                    h = rp["histories"][hi]

                    def with_ops(ops, hi=hi, h=h):
                        hs = list(rp["histories"])
                        hs[hi] = dict(h, ops=ops)
                        return dict(rp, histories=hs)
                    ops = ddmin(h["ops"], lambda sub: bool(sub or hi < len(rp["histories"]) - 1) and bool(fires(kind, with_ops(sub))), pool, budget)
                    rp = with_ops(ops)
                rp["histories"] = [h for i, h in enumerate(rp["histories"]) if h["ops"] or i == len(rp["histories"]) - 1]
            if rp.get("inter"):
                rp = shrink_inter(rp, lambda cand: bool(fires(kind, cand)), pool, budget, before_ops=False)
            # shrink suggested filenames
            for path, name in name_slots(rp):
                chars = ddmin(list(name), lambda sub: bool(fires(kind, set_slot(rp, path, "".join(sub)))), pool, budget)
                rp = set_slot(rp, path, "".join(chars))
            final = fires(kind, rp) or got
            run.hit(kind + ":" + cc.canon(shape_of(rp))[:300], final["what"], rp)
    finally:
        pool.shutdown()


def shrink_inter(rp, test, pool, budget, before_ops):
    """Replays whose last op is an interleaved request.  before_ops: every EARLIER interleaved request is replaced by
    the plain ops it contained (same effect on the queue), if the hit survives that.  Afterwards: the injected events of
    the final request are reduced to a 1-minimal set, each moved to the smallest k that still fails."""
    hs = rp["histories"]
    last = hs[-1]
    if not last["ops"] or last["ops"][-1][0] != "istatus":
        return rp

    def with_last_ops(ops):
        return dict(rp, histories=hs[:-1] + [dict(last, ops=ops)])
    if before_ops:
        flat = []
        for o in last["ops"][:-1]:
            if o[0] == "istatus":
                flat += [o[3][k] for k in sorted(o[3], key=int)]
            else:
                flat.append(o)
        pre = [dict(h, ops=sum(([o[3][k] for k in sorted(o[3], key=int)] if o[0] == "istatus" else [o] for o in h["ops"]), [])) for h in hs[:-1]]
        cand = dict(rp, histories=pre + [dict(last, ops=flat + [last["ops"][-1]])])
        if cand != rp:
            budget[0] -= 1
            if test(cand):
                return cand
        return rp
    req = last["ops"][-1]
    items = sorted(req[3].items(), key=lambda kv: int(kv[0]))

    def with_inj(its):
        return with_last_ops(last["ops"][:-1] + [[req[0], req[1], req[2], dict(its)]])
    items = ddmin(items, lambda sub: test(with_inj(sub)), pool, budget)
    for i in range(len(items)):
        k, o = items[i]
        lo = int(items[i - 1][0]) + 1 if i else 1
        for k2 in range(lo, int(k)):
            cand = items[:i] + [(str(k2), o)] + items[i + 1:]
            budget[0] -= 1
            if test(with_inj(cand)):
                items = cand
                break
    return with_inj(items)


def shape_of(rp):
    """The replay without the (arbitrary) collection id of a snapshot case: keeps the fingerprint stable between runs."""
    if "snap_case" in rp:
        c = dict(rp["snap_case"])
        c.pop("c", None)
        c.pop("decoys", None)
        return c
    if rp.get("inter") and "histories" in rp:
        t = json.dumps(rp, sort_keys=True)
        for i, c in enumerate(sorted({c for h in rp["histories"] for c in h["collections"] if c != COLL})):
            t = t.replace(c, "<collection%d>" % i)
        return json.loads(t)
    return rp


def name_slots(rp):
    """Where suggested filenames sit in a replay object: list of (path, str)."""
    res = []
    if "cd_name" in rp:
        res.append((("cd_name",), rp["cd_name"]))
    if "snap_case" in rp:
        r = rp["snap_case"].get("render")
        if isinstance(r, dict) and isinstance(r.get("result"), dict) and isinstance(r["result"].get("suggested_filename"), str):
            res.append((("snap_case", "render", "result", "suggested_filename"), r["result"]["suggested_filename"]))
    for hi, h in enumerate(rp.get("histories", [])):
        for oi, op in enumerate(h["ops"]):
            if op[0] == "finish" and isinstance(op[2], dict) and isinstance(op[2].get("suggested_filename"), str):
                res.append((("histories", hi, "ops", oi, 2, "suggested_filename"), op[2]["suggested_filename"]))
    return res


def set_slot(rp, path, value):
    rp = json.loads(json.dumps(rp))
    o = rp
    for k in path[:-1]:
        o = o[k]
    o[path[-1]] = value
    return rp


def replay(obj):
    src = core.snapshot()
    try:
        wt = generate(src)
        writers_tbl = {w[0]: (w[1], w[2]) for w in wt}
    except Exception:          # changed source the translator refuses: ask the running code
        rc, out = core.run_impl("vt.harness.c19_impl", ["writers"], src=src, timeout=300)
        writers_tbl = {k: (v[0], v[1]) for k, v in json.loads([x for x in out.splitlines() if x.startswith("{")][-1]).items()}
    rp = obj["replay"]
    if not any(k in rp for k in ("snap_case", "snap_seq", "history", "histories", "cd_name")):
        print(json.dumps(rp, indent=1))
        return 1
    sink = run_replay(src, writers_tbl, rp)
    print(json.dumps(getattr(sink, "observed", None), indent=1)[:6000])
    for h in sink.items:
        print("REPRODUCED:", h["what"])
    if not sink.items:
        print("not reproduced")
    return 1 if sink.items else 0
