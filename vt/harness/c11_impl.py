"""C11 — runs the REAL make_nuwiki / Fetcher / MwApi of the snapshot against the synthetic MediaWiki of
c11_wiki.py, plugged in below MwApi.do_request (subclass overriding only `_send_http_request`, the method
that talks to httpx; `_build_url`, `_request`, `_post`, `_fetch`, `_do_request`, query-continue handling and
result merging run for real) and below network.transport.stream_download_to_temp (an in-memory client).
Reads the archive back with nuwiki.Adapt.

stdin : JSON lines  {"id", "wiki": W, "metabook": [...], "opts": {...}}
stdout: JSON lines  {"id", "terminated", "exc", "greenlet_errors", "articles", "images", "all", "requests", ...}
"""
import collections
import json
import logging
import os
import random
import shutil
import sys
import tempfile
import traceback
import warnings

warnings.simplefilter("ignore")
logging.disable(logging.CRITICAL)

import gevent  # noqa: E402

import mwlib.parser.expander  # noqa: E402,F401  (import order, see FRAMEWORK.md)
from mwlib.apps import make_nuwiki as mn  # noqa: E402
from mwlib.core import metabook as mb  # noqa: E402
from mwlib.core import nuwiki  # noqa: E402
from mwlib.network import fetch, sapi  # noqa: E402
from mwlib.utils import conf, unorganized  # noqa: E402

from vt.harness import c11_wiki  # noqa: E402

try:
    import qs.log
    qs.log.root_logger.disabled = True
except Exception:
    pass

SITEINFO = json.load(open(os.path.join(os.path.dirname(sapi.__file__), "known_sites", "siteinfo-en.json")))
BASE = "http://synth.test"
RealMwApi = sapi.MwApi
CURRENT = {}


KINDS = ["siteinfo", "parse", "expandtemplates", "imageinfo", "contributors", "categories", "revisions", "images", "query", "download"]


def kind_of_request(params):
    action = params.get("action")
    if action != "query":
        return action if action in KINDS else "query"
    if params.get("meta") == "siteinfo":
        return "siteinfo"
    prop = params.get("prop") or ""
    for k in ("imageinfo", "contributors", "categories", "revisions", "images"):
        if prop.startswith(k):
            return k
    return "query"


def wait(lat):
    """lat: None = answer without giving up control; float = seconds of real time (gevent.sleep);
    ("y", k) = k cooperative yields (gevent.sleep(0)): VIRTUAL latency, a request that yields k times is
    answered k rounds of the hub loop later - the interleaving is a function of the case's seed only, so a
    failing schedule replays exactly."""
    if lat is None:
        return None
    if isinstance(lat, tuple):
        for _ in range(lat[1]):
            gevent.sleep(0)
        return "y%d" % lat[1]
    gevent.sleep(lat)
    return lat


class SynthApi(RealMwApi):
    """The real client; only the HTTP exchange is replaced."""

    def _send_http_request(self, method, url, data, request_headers):
        ctx = CURRENT
        wiki = ctx["wiki"]
        params = c11_wiki.params_of(method, url, data)
        n = len(ctx["requests"])
        ent = {"n": n, "m": method, "p": params}
        ctx["requests"].append(ent)
        ctx["inflight"] += 1
        ctx["max_inflight"] = max(ctx["max_inflight"], ctx["inflight"])
        try:
            ent["lat"] = wait(ctx["latency"](kind_of_request(params)))
            if not url.startswith(wiki.apiurl):
                raise RuntimeError("request to unknown host: %s" % url)
            res = wiki.handle(params)
        finally:
            ctx["inflight"] -= 1
        ent["done"] = ctx["tick"]
        ctx["tick"] += 1
        if ctx.get("keep_responses"):
            ent["r"] = res
        return c11_wiki.dumps(res)


class _Resp:
    def __init__(self, url, body):
        self.url, self.body = url, body

    def __enter__(self):
        return self

    def __exit__(self, *a):
        return False

    def raise_for_status(self):
        if self.body is None:
            import httpx
            req = httpx.Request("GET", self.url)
            raise httpx.HTTPStatusError("404", request=req, response=httpx.Response(404, request=req))

    def iter_bytes(self, chunk_size=16384):
        for i in range(0, len(self.body), 7):
            yield self.body[i:i + 7]


class MemClient:
    """stand-in for the httpx client used by transport.stream_download_to_temp"""

    def stream(self, method, url):
        ctx = CURRENT
        ctx["downloads"].append(url)
        wait(ctx["latency"]("download"))
        return _Resp(url, ctx["wiki"].download(url))


def set_conf(section, option, value):
    if not conf.config.has_section(section):
        conf.config.add_section(section)
    conf.config[section][option] = str(value)


def build_metabook(items):
    c = mb.Collection()
    c.wikis = [mb.WikiConf(baseurl=BASE + "/w/", ident=None)]
    c.items = []

    def conv(it):
        if "chapter" in it:
            ch = mb.Chapter(title=it["chapter"])
            ch.items = [conv(x) for x in it["items"]]
            return ch
        return mb.Article(title=it["title"], revision=it.get("revision"))
    c.items = [conv(x) for x in items]
    return c


def flat_articles(items):
    for it in items:
        if "chapter" in it:
            yield from flat_articles(it["items"])
        else:
            yield it


def run_case(case, base_tmp):
    opts = case["opts"]
    rng = random.Random(opts.get("seed", 0))
    wiki = c11_wiki.SynthWiki(case["wiki"], SITEINFO, BASE)
    mode = opts.get("latency", "random")

    # "bykind": every kind of request has its own typical delay in this case (a slow siteinfo, fast imageinfo, ...)
    base = {k: rng.choice([0, 0, 1, 2, 4, 9, 20, 45]) for k in KINDS}

    def latency(kind=None):
        if isinstance(mode, dict):
            # explicit delay per kind of request (schedule sweep): no randomness at all
            return ("y", int(mode.get(kind, 0)))
        if mode == "bykind":
            return ("y", base.get(kind, 0) + rng.choice([0, 0, 0, 1, 2]))
        if mode == "none":
            return None
        if mode == "zero":
            return 0
        if mode == "yields":
            r = rng.random()
            if r < 0.25:
                return ("y", 0)
            if r < 0.7:
                return ("y", rng.randint(1, 4))
            if r < 0.93:
                return ("y", rng.randint(5, 25))
            return ("y", rng.randint(26, 90))
        if isinstance(mode, list):
            # explicit schedule: the i-th request/download yields mode[i] times (0 beyond the end)
            i = CURRENT["nlat"] = CURRENT.get("nlat", -1) + 1
            return ("y", mode[i] if i < len(mode) else 0)
        r = rng.random()
        if r < 0.3:
            return 0
        if r < 0.9:
            return rng.random() * 0.002
        return 0.002 + rng.random() * 0.006

    lat_log = []

    def logged_latency(kind=None):
        lat = latency(kind)
        lat_log.append(lat[1] if isinstance(lat, tuple) else lat)
        return lat

    CURRENT.clear()
    CURRENT.update(wiki=wiki, requests=[], downloads=[], latency=logged_latency, tick=0, inflight=0, max_inflight=0,
                   keep_responses=opts.get("keep_responses", False))
    set_conf("fetch", "api_request_limit", opts.get("req_limit", 15))
    set_conf("fetch", "api_result_limit", opts.get("res_limit", 500))
    set_conf("fetch", "rvlimit", opts.get("rvlimit", 500))
    set_conf("fetch", "max_requests_per_second", 0)     # rate limiting is outside the model
    set_conf("http2", "enabled", "false")
    set_conf("http2", "auto_detect", "false")
    # class-level state of Fetcher would leak from one case to the next
    fetch.Fetcher.titles_pending_contributor_lookup = collections.defaultdict(list)
    fetch.Fetcher.title_mapping = {}
    sapi.MwApi = SynthApi
    fetch.MwApi = SynthApi
    fetch._get_download_client = lambda url: MemClient()

    errors = []
    hub = gevent.get_hub()

    def handle_error(context, etype, value, tb):
        if issubclass(etype, (gevent.GreenletExit, SystemExit, KeyboardInterrupt)):
            return
        frames = traceback.extract_tb(tb)
        where = [f for f in frames if "/mwlib/" in f.filename]
        last = where[-1] if where else (frames[-1] if frames else None)
        errors.append({"type": etype.__name__, "msg": str(value)[:300],
                       "where": "%s:%s" % (os.path.basename(last.filename), last.name) if last else "?",
                       "stack": ["%s:%s" % (os.path.basename(f.filename), f.name) for f in where][-6:]})
    hub.handle_error = handle_error

    fsdir = os.path.join(base_tmp, "nuwiki")
    shutil.rmtree(fsdir, ignore_errors=True)
    res = {"id": case["id"], "terminated": False, "exc": None}
    collection = build_metabook(case["metabook"])
    wiki_options = {"script_extension": ".php", "imagesize": 800, "noimages": bool(opts.get("noimages"))}
    old_stdout = sys.stdout
    sys.stdout = open(os.devnull, "w")
    try:
        with gevent.Timeout(opts.get("timeout", 60)):
            mn.make_nuwiki(fsdir, collection, wiki_options, None, None)
        res["terminated"] = True
    except gevent.Timeout:
        res["exc"] = {"type": "Timeout", "msg": "fetch did not finish"}
    except Exception as e:
        tb = traceback.extract_tb(e.__traceback__)
        res["exc"] = {"type": type(e).__name__, "msg": str(e)[:300],
                      "where": ["%s:%s" % (os.path.basename(f.filename), f.name) for f in tb if "/mwlib/" in f.filename][-4:]}
    finally:
        sys.stdout.close()
        sys.stdout = old_stdout
        try:
            del hub.handle_error
        except AttributeError:
            pass
    res["greenlet_errors"] = errors
    res["requests"] = CURRENT["requests"]
    res["downloads"] = CURRENT["downloads"]
    res["max_inflight"] = CURRENT["max_inflight"]
    res["lat_log"] = lat_log
    # ------------------------------------------------------------ read the archive back
    try:
        res.update(read_back(fsdir, case, wiki))
    except Exception as e:
        res["readback_error"] = "%s: %s\n%s" % (type(e).__name__, e, traceback.format_exc()[-1500:])
    shutil.rmtree(fsdir, ignore_errors=True)
    return res


def read_back(fsdir, case, wiki):
    out = {}
    if not os.path.exists(os.path.join(fsdir, "revisions-1.txt")):
        return {"readback_error": "no archive directory"}
    a = nuwiki.Adapt(fsdir)
    arts = []
    for it in flat_articles(case["metabook"]):
        title, rev = it["title"], it.get("revision")
        # the lookup of Adapt.get_parsed_article (nuwiki.py:420-431), without the parser
        if rev:
            page = a.nuwiki.get_page(None, rev)
        else:
            page = a.normalize_and_get_page(title, 0)
        ent = {"title": title, "revision": rev, "found": page is not None}
        if page is not None:
            ent.update(page_title=page.title, text=page.rawtext, expanded=page.expanded, revid=getattr(page, "revid", None),
                       ns=page.ns)
        try:
            ent["authors"] = a.get_authors(title, revision=rev)
        except Exception as e:
            ent["authors_error"] = "%s: %s" % (type(e).__name__, e)
        arts.append(ent)
    out["articles"] = arts
    imgs = {}
    names = set(case.get("image_titles", []))
    for p in case["wiki"]["pages"]:
        if p["ns"] == 6:
            names.add(p["title"])
        for r in p["revs"]:
            names.update("File:" + i for i in r.get("imgs", []))
    for t in sorted(names):
        ent = {}
        try:
            path = a.get_disk_path(t)
        except Exception as e:
            path = None
            ent["path_error"] = "%s: %s" % (type(e).__name__, e)
        if path:
            data = open(path, "rb").read()
            ent["file"] = data.decode("latin1")[:40]
            ent["file_ok"] = data == c11_wiki.image_bytes(t, "800")
        else:
            ent["file"] = None
        ent["info"] = a.nuwiki.imageinfo[t]
        dp = a.get_image_description_page(t)
        ent["desc"] = None if dp is None else {"title": dp.title, "text": dp.rawtext, "ns": dp.ns,
                                               "revid": getattr(dp, "revid", None)}
        try:
            ent["authors"] = a.get_authors(t)
        except Exception as e:
            ent["authors_error"] = "%s: %s" % (type(e).__name__, e)
        imgs[t] = ent
    out["images"] = imgs
    # everything that is in the archive
    revs = []
    for k, p in a.nuwiki.revisions.items():
        revs.append([k if isinstance(k, int) else "t:" + k, p.title, getattr(p, "revid", None), p.rawtext, p.expanded])
    revs.sort(key=repr)
    esc = {unorganized.fs_escape(t): t for t in names}
    out["all"] = {
        "revisions": revs,
        "imageinfo": sorted(k for k, _v in a.nuwiki.imageinfo.items()),
        "authors": {k: json.loads(v) if isinstance(v, str) else v for k, v in a.nuwiki.authors.items()} if a.nuwiki.authors else None,
        "files": sorted([f, esc.get(f)] for f in os.listdir(os.path.join(fsdir, "images")) if f != "safe"),
        "redirects": a.nuwiki.redirects,
        "html": sorted(str(k) for k, _v in a.nuwiki.html.items()),
    }
    return out


def main():
    base_tmp = sys.argv[1]
    os.makedirs(base_tmp, exist_ok=True)
    brief = len(sys.argv) > 2 and sys.argv[2] == "brief"
    for line in sys.stdin:
        line = line.strip()
        if not line:
            continue
        case = json.loads(line)
        try:
            r = run_case(case, base_tmp)
        except Exception as e:
            r = {"id": case.get("id"), "harness_error": "%s: %s\n%s" % (type(e).__name__, e, traceback.format_exc()[-2000:])}
        r["imageinfo_titles"] = [t for q in r.get("requests", []) if "imageinfo" in (q["p"].get("prop") or "")
                                 for t in q["p"].get("titles", "").split("|")]
        # continuation rounds: in total, and the most that one query needed (a query = the parameters without the
        # continuation values)
        per_query = collections.Counter()
        for q in r.get("requests", []):
            if any(k.endswith("continue") for k in q["p"]):
                per_query[json.dumps(sorted((k, v) for k, v in q["p"].items() if not k.endswith("continue")))] += 1
        r["cont_rounds"] = [sum(per_query.values()), max(per_query.values(), default=0)]
        if brief:
            # request log reduced to what is needed for statistics (full log only in replays)
            r["requests"] = [[q["m"], q["p"].get("action"), q["p"].get("prop"), "continue" if any(k.endswith("continue") for k in q["p"]) else "",
                              len((q["p"].get("titles") or q["p"].get("revids") or "").split("|")), q.get("done")]
                             for q in r.get("requests", [])]
        sys.stdout.write(json.dumps(r) + "\n")
        sys.stdout.flush()


if __name__ == "__main__":
    main()
