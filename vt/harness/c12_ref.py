"""C12 reference: grammar recogniser + canonical form, written from the PROPERTY TEXT and from the site's own siteinfo
JSON (never from the code under test, never from an NsHandler object).

    title ::= edge* (":" edge*)*  [ <namespace name> ws* ":" ]  edge* <remainder> edge*

  * edge = white space (the 29 code points of `\\s`), U+200E, U+200F, '_';  ws = white space or '_'
  * <namespace name> = a local name / canonical name / alias of THIS site, every letter in either case (one-to-one case
    changes only), every space written as a run of ' ' / '_'
  * <remainder> = any text, every space written as a run of ' ' / '_'
  * a leading colon forces the main namespace; without a namespace name the title lives in the default namespace
  * canonical form = (id the site defines for the name, remainder with single spaces and the first letter capitalised when
    the site says so, local name + ':' + that remainder)

`canon` returns None whenever the title is outside this grammar or the property does not determine the answer (white space
other than ' ' or marks left in the interior, a name that matches only through a length-changing case mapping, a first
letter whose capitalisation changes whether the prefix is a namespace name, an undefined default namespace).  A value
returned is demanded of the implementation exactly.
"""
import glob
import json
import os

WS = [0x9, 0xA, 0xB, 0xC, 0xD, 0x1C, 0x1D, 0x1E, 0x1F, 0x20, 0x85, 0xA0, 0x1680, 0x2000, 0x2001, 0x2002, 0x2003, 0x2004, 0x2005,
      0x2006, 0x2007, 0x2008, 0x2009, 0x200A, 0x2028, 0x2029, 0x202F, 0x205F, 0x3000]
MARKS = [0x200E, 0x200F]
_WSSET = {chr(c) for c in WS}
_EDGESET = _WSSET | {chr(c) for c in MARKS}
_ODD = _EDGESET - {" "}


def strip_edges(s):
    i, j = 0, len(s)
    while i < j and s[i] in _EDGESET:
        i += 1
    while j > i and s[j - 1] in _EDGESET:
        j -= 1
    return s[i:j]


def fold_spaces(s):
    out = []
    for c in s:
        if c == " " and out and out[-1] == " ":
            continue
        out.append(c)
    return "".join(out)


def capitalize(s):
    return s[0:1].upper() + s[1:]


def load_sites(known_sites_dir):
    """{lang: site} straight from the JSON files.  site = {"star": {id: local name}, "names": [(id, name, kind)],
    "capitalize": bool, "sitename", "lang"}; names in the precedence the property gives (local, canonical, alias)."""
    sites = {}
    for f in sorted(glob.glob(os.path.join(known_sites_dir, "siteinfo-*.json"))):
        lang = os.path.basename(f)[len("siteinfo-"):-len(".json")]
        with open(f, encoding="utf-8") as fh:
            d = json.load(fh)
        star = {v["id"]: v["*"] for v in d["namespaces"].values()}
        names = []
        for v in d["namespaces"].values():
            names.append((v["id"], v["*"], "local"))
            if v.get("canonical"):
                names.append((v["id"], v["canonical"], "canonical"))
        for a in d.get("namespacealiases", []):
            if a["id"] in star:
                names.append((a["id"], a["*"], "alias"))
        general = d.get("general", {})
        sites[lang] = {
            "star": star, "names": names,
            "namespaces": [(v["id"], v["*"], v.get("canonical")) for v in d["namespaces"].values()],
            "aliases": [(a["id"], a["*"]) for a in d.get("namespacealiases", [])],
            "capitalize": (general.get("case") == "first-letter") if "general" in d else True,
            "sitename": general.get("sitename"), "lang": general.get("lang"),
        }
    return sites


def _case_variant_of(cand, name):
    """cand is `name` with every letter in one of its one-to-one case forms"""
    if len(cand) != len(name):
        return False
    for c, n in zip(cand, name):
        if c == n:
            continue
        u, lo = n.upper(), n.lower()
        if not ((len(u) == 1 and c == u) or (len(lo) == 1 and c == lo)):
            return False
    return True


def lookup(site, cand):
    """-> ("yes", id) | ("no", None) | ("unsure", None): is `cand` (single spaces, stripped) a name of the site?"""
    loose = [i for i, n, _k in site["names"] if n.lower() == cand.lower()]
    strict = [i for i, n, _k in site["names"] if _case_variant_of(cand, n)]
    if not loose and not strict:
        return "no", None
    if strict and loose and strict[0] == loose[0]:
        # first in precedence order; several names may spell alike (alias repeating a local name)
        return "yes", strict[0]
    return "unsure", None


def canon(site, title, dns):
    s = strip_edges(title.replace("_", " "))
    while s.startswith(":"):
        s = strip_edges(s[1:])
        dns = 0
    s = fold_spaces(s)
    cap = site["capitalize"]
    nsid, rem = None, None
    if ":" in s:
        pre, rest = s.split(":", 1)
        cand = pre
        while cand and cand[-1] in _WSSET:
            cand = cand[:-1]
        k1, i1 = lookup(site, cand)
        k2, i2 = lookup(site, capitalize(cand)) if cap else (k1, i1)
        if k1 == "unsure" or k2 == "unsure" or (k1, i1) != (k2, i2):
            return None
        if k1 == "yes":
            if any(c in _ODD for c in cand):
                return None
            nsid, rem = i1, strip_edges(rest)
    if nsid is None:
        nsid, rem = dns, s
    if nsid not in site["star"]:
        return None
    if any(c in _ODD for c in rem):
        return None
    if cap:
        rem = capitalize(rem)
    local = site["star"][nsid]
    return [nsid, rem, (local + ":" if local else "") + rem]


# ---- transformations that, by the property text, never change the canonical name --------------------------------------
def equivalent_spellings(title):
    """other spellings of the same title: underscores for spaces, runs folded, surroundings stripped"""
    res = []
    a = title.replace("_", " ")
    if a != title:
        res.append(("underscores->spaces", a))
    b = fold_spaces(a)
    if b != a:
        res.append(("runs of spaces/underscores folded", b))
    c = strip_edges(b)
    if c != b:
        res.append(("surrounding white space/marks stripped", c))
    return res
