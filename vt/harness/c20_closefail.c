/* C20: LD_PRELOAD shim with two independent fault models.

   (1) C20_CLOSE_FAIL="<n>:<errno>:<dir>" makes the n-th close() of a regular file below a directory FAIL THE WAY
   LINUX DOES: the descriptor is released (the real close runs) and -1/errno is returned to the caller.
   strace's `inject=close:error=...` skips the syscall instead, which leaves the descriptor open - a state that
   cannot arise from a real EIO/ENOSPC at close.  n<0: every close from |n| on.

   (2) C20_XDEV="<dirA>:<dirB>" (both realpath'ed, no ':' inside) emulates TWO FILE SYSTEMS when the machine offers
   no second writable one: rename()/renameat()/renameat2() whose source lies below one of the two directories and
   whose target lies below the other fail with EXDEV, exactly as the kernel answers a cross-device rename (no
   effect on either name).  Used only when vt/props/c20.py finds no directory with another st_dev for $TMPDIR. */
#define _GNU_SOURCE
#include <dlfcn.h>
#include <errno.h>
#include <fcntl.h>
#include <limits.h>
#include <stdio.h>
#include <stdlib.h>
#include <string.h>
#include <unistd.h>
#include <sys/stat.h>

static int (*real_close)(int);
static int (*real_rename)(const char *, const char *);
static int (*real_renameat)(int, const char *, int, const char *);
static int (*real_renameat2)(int, const char *, int, const char *, unsigned int);
static int count = 0;

int close(int fd) {
  if (!real_close) real_close = (int (*)(int))dlsym(RTLD_NEXT, "close");
  const char *spec = getenv("C20_CLOSE_FAIL");
  if (spec) {
    int n, err; char dir[4096];
    if (sscanf(spec, "%d:%d:%4095[^\n]", &n, &err, dir) == 3) {
      char link[64], path[4200]; struct stat st;
      snprintf(link, sizeof link, "/proc/self/fd/%d", fd);
      ssize_t l = readlink(link, path, sizeof path - 1);
      if (l > 0) {
        path[l] = 0;
        size_t dl = strlen(dir);
        if (!strncmp(path, dir, dl) && path[dl] == '/' && fstat(fd, &st) == 0 && S_ISREG(st.st_mode)) {
          count++;
          if (count == n || (n < 0 && count >= -n)) {
            real_close(fd);
            if (write(2, "C20SHIM close failed\n", 21) < 0) {}
            errno = err;
            return -1;
          }
        }
      }
    }
  }
  return real_close(fd);
}

/* which of the two emulated file systems holds the directory entry `p` (0: neither) */
static int side(int dirfd, const char *p, const char *a, size_t al, const char *b, size_t bl) {
  char tmp[PATH_MAX], res[PATH_MAX];
  const char *parent;
  if (!p || strlen(p) >= sizeof tmp) return 0;
  if (p[0] != '/' && dirfd != AT_FDCWD) return 0;       /* relative to a descriptor: not used by the producers */
  strcpy(tmp, p);
  char *s = strrchr(tmp, '/');
  if (!s) parent = ".";
  else if (s == tmp) parent = "/";
  else { *s = 0; parent = tmp; }
  if (!realpath(parent, res)) return 0;
  size_t rl = strlen(res);
  if (rl >= al && !strncmp(res, a, al) && (res[al] == 0 || res[al] == '/')) return 1;
  if (rl >= bl && !strncmp(res, b, bl) && (res[bl] == 0 || res[bl] == '/')) return 2;
  return 0;
}

static int cross_device(int fda, const char *pa, int fdb, const char *pb) {
  const char *spec = getenv("C20_XDEV");
  if (!spec) return 0;
  const char *colon = strchr(spec, ':');
  if (!colon || colon == spec || !colon[1]) return 0;
  char a[PATH_MAX];
  size_t al = (size_t)(colon - spec);
  if (al >= sizeof a) return 0;
  memcpy(a, spec, al); a[al] = 0;
  const char *b = colon + 1;
  size_t bl = strlen(b);
  int sa = side(fda, pa, a, al, b, bl), sb = side(fdb, pb, a, al, b, bl);
  if (sa && sb && sa != sb) {
    if (write(2, "C20SHIM rename EXDEV\n", 21) < 0) {}
    return 1;
  }
  return 0;
}

int rename(const char *pa, const char *pb) {
  if (!real_rename) real_rename = (int (*)(const char *, const char *))dlsym(RTLD_NEXT, "rename");
  if (cross_device(AT_FDCWD, pa, AT_FDCWD, pb)) { errno = EXDEV; return -1; }
  return real_rename(pa, pb);
}

int renameat(int fda, const char *pa, int fdb, const char *pb) {
  if (!real_renameat) real_renameat = (int (*)(int, const char *, int, const char *))dlsym(RTLD_NEXT, "renameat");
  if (cross_device(fda, pa, fdb, pb)) { errno = EXDEV; return -1; }
  return real_renameat(fda, pa, fdb, pb);
}

int renameat2(int fda, const char *pa, int fdb, const char *pb, unsigned int flags) {
  if (!real_renameat2)
    real_renameat2 = (int (*)(int, const char *, int, const char *, unsigned int))dlsym(RTLD_NEXT, "renameat2");
  if (cross_device(fda, pa, fdb, pb)) { errno = EXDEV; return -1; }
  return real_renameat2(fda, pa, fdb, pb, flags);
}
