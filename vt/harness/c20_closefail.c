/* C20: LD_PRELOAD shim that makes the n-th close() of a regular file below a directory FAIL THE WAY LINUX DOES:
   the descriptor is released (the real close runs) and -1/errno is returned to the caller.
   strace's `inject=close:error=...` skips the syscall instead, which leaves the descriptor open - a state that
   cannot arise from a real EIO/ENOSPC at close.  C20_CLOSE_FAIL="<n>:<errno>:<dir>"; n<0: every close from |n| on. */
#define _GNU_SOURCE
#include <dlfcn.h>
#include <errno.h>
#include <stdio.h>
#include <stdlib.h>
#include <string.h>
#include <unistd.h>
#include <sys/stat.h>

static int (*real_close)(int);
static int count = 0;

int close(int fd) {
  if (!real_close) real_close = (int (*)(int))dlsym(RTLD_NEXT, "close");
  const char *spec = getenv("C20_CLOSE_FAIL");
  if (spec) {
    int n, err; char dir[4096];
    if (sscanf(spec, "%d:%d:%4095[^\n]", &n, &err, dir) == 3) {
      char link[64], path[4200]; struct stat st;
      snprintf(link, sizeof link, "/proc/self/fd/%d", fd);
      ssize_t l = readlink(link, path, sizeof path - 1);
      if (l > 0) {
        path[l] = 0;
        size_t dl = strlen(dir);
        if (!strncmp(path, dir, dl) && path[dl] == '/' && fstat(fd, &st) == 0 && S_ISREG(st.st_mode)) {
          count++;
          if (count == n || (n < 0 && count >= -n)) {
            real_close(fd);
            if (write(2, "C20SHIM close failed\n", 21) < 0) {}
            errno = err;
            return -1;
          }
        }
      }
    }
  }
  return real_close(fd);
}
