"""C03 search (checker side; never imports mwlib).

Enumerates calls of every registered magic word / parser function / magic node (built-in, dummy, site alias) with
0..3 arguments over 9 argument shapes, runs them on the REAL Expander in worker processes
(vt/harness/c03_search.py) and applies the property's own oracle:
    the call returns a str, raises nothing, does not kill the interpreter,
    CPU <= CPU_BASE + CPU_PER_CHAR * n  and  len(output) <= OUT_BASE + OUT_PER_CHAR * n,
    n = size of the page text plus all template texts of the call;
    cyclic universes (recursion family): template-call dispatches <= REC_SLACK * (recursion limit + 2) * calls in the input."""
import collections
import concurrent.futures
import json
import os
import re

from vt import core
from vt.gen import c03_magics

# ---- the oracle's limits (calibrated on the unchanged tree, see the report in distribution["calibration"])
CPU_BASE = 0.5          # seconds of process CPU time
CPU_PER_CHAR = 2e-5     # seconds per input character (measured worst honest ratio: ~2.5e-6 s/char)
OUT_BASE = 2048         # characters (4 x the pad cap; largest honest excess seen over OUT_PER_CHAR*n: 116)
OUT_PER_CHAR = 16       # urlencode/anchorencode of a non-BMP character: 12 output characters per input character

SHAPES = collections.OrderedDict([
    ("empty", [""]),
    ("word", ["word"]),
    ("small", ["7"]),
    ("huge", ["99999999999999999999", "3000000", "9" * 5000]),
    ("neg", ["-3", "-3000000"]),
    ("dec", ["2.5"]),
    ("exp", ["1e3", "1e400", "9e999999"]),
    ("path", ["a/b/../c", "../../x", "Talk:A/b"]),
    ("nested", ["{{lc:AbC}}", "{{#expr:2*3}}", "{{{1|d}}}"]),
])
# The full numeric grammar (every way a "number" can be written in wikitext and be accepted by int()/float()/the #expr
# tokenizer), used at EVERY argument position of EVERY registered name (Gen.numeric_family): plain/huge/negative
# integers, signs and padding, decimals, exponent forms whose VALUE lies far beyond any cap (2e7, 5E5: a few characters
# of wikitext naming a huge magnitude), overflowing exponents, non-finite spellings, non-ASCII (Unicode Nd) digits.
AR = "\u0660\u0661\u0662\u0663\u0664\u0665\u0666\u0667\u0668\u0669"      # ARABIC-INDIC digits 0-9
FW = "\uff10\uff11\uff12\uff13\uff14\uff15\uff16\uff17\uff18\uff19"      # FULLWIDTH digits 0-9
NUMERIC = collections.OrderedDict([
    ("n-int", ["0", "7", "500", "501", "65537"]),
    ("n-huge", ["3000000", "20000000", "123456789012", "99999999999999999999", "9" * 5000]),
    ("n-neg", ["-1", "-3000000", "-99999999999999999999"]),
    ("n-signpad", ["+7", "007", " 12 ", "1_000_000", "0x7A120", "1,000,000"]),
    ("n-dec", ["2.5", "6.0", "600.0", "3000000.0", "20000000.5", ".5", "5.", "-2.5", "0.0", "-0.0"]),
    ("n-exp", ["1e1", "2E2", "4e3", "5e5", "5E5", "2e7", "3E7", "2.5e6", "1e-3", "-2e7", "2e+7", "1e400", "-1e400", "9e999999",
               "1e", "e7"]),
    ("n-nonfinite", ["inf", "-inf", "Infinity", "nan", "NaN"]),
    ("n-unicode", [AR[3], AR[3] + AR[0] * 6, AR[2] + AR[0] * 7, FW[3] + FW[0] * 6, AR[2] + "e" + AR[7], FW[5] + "E" + FW[5],
                   AR[2] + "." + AR[5], "\u00b2", "\u2167"]),
])
NUMERIC_VALUES = [(s, v) for s in NUMERIC for v in NUMERIC[s]]

SHAPE_NAMES = list(SHAPES)
ALL_VALUES = [(s, v) for s in SHAPES for v in SHAPES[s]]

EXPR_VALUES = ["0", "7", "-3", "2.5", "99999999999999999999", "3000000", "-3000000", "1e3", "1e400", "9e999999", "0.0", "",
               "2e7", "5E-5", "20000000.5", "\u0663"]
EXPR_BINOPS = ["+", "-", "*", "/", "div", "mod", "^", "e", "round", "<", ">", "<=", ">=", "!=", "<>", "=", "and", "or"]
EXPR_UNOPS = ["-", "+", "not", "abs", "sin", "cos", "asin", "acos", "tan", "atan", "exp", "ln", "ceil", "floor", "trunc"]
TIME_FORMATS = ["Y", "xrY", "xrU", "xrz", "xrj", "U", "c", "r", "D d M y", "\"q\"", "\\", "%", "xr", "W t L N w z", "a A g h G H i s",
                "F M n m l", "xrxrY", "%Q%%", "{{{1}}}"]
TIME_DATES = ["", "2000-01-01", "0001-01-01", "9999-12-31", "5000-01-01", "0000-00-00", "1800-01-01", "2400", "9999", "0000", "now",
              "+99999999 years", "-99999999 years", "@99999999999999", "99999999999999999999", "1e400", "-3", "31 December 9999 + 1 day",
              "garbage", "2000-13-45", "12:61", "\x00"]

# OPERATOR CHAINS (Gen.expr_chain_family): the same binary operator applied 3..8 times left-associatively (written plainly,
# with explicit parentheses, and through a prefix function), the right operand at the extremes of every range in which a
# SINGLE application is cheap.  A bound on one operand does not bound the result when the left operand is the previous result.
BIGI = "99999999999999999999"
CHAIN_OPERANDS = collections.OrderedDict([
    ("^", ["2", "3", "10", "63", "64", "65", "100", "308", "309", "1023", "1024", "0.5", "-1", "-64", "1e2", BIGI]),
    ("e", ["1", "2", "22", "64", "100", "308", "309", "-308", "-400", "1000", "99999999"]),
    ("*", ["2", "10", BIGI, "9" * 300, "9" * 4000, "1.5", "1e308", "-3"]),
    ("/", ["2", "0.5", "1e-300", BIGI, "3"]),
    ("div", ["2", "0.5", "1e-300", BIGI, "3"]),
    ("mod", ["2", "7", BIGI, "1e308", "0.5"]),
    ("+", ["1", BIGI, "9" * 4000, "1e308", "0.5"]),
    ("-", ["1", BIGI, "9" * 4000, "1e308", "0.5"]),
    ("round", ["0", "2", "15", "300", "-2", "-300", "-3000000"]),
    ("<", ["0", "1", BIGI]), (">", ["0", "1", BIGI]), ("<=", ["0", "1", BIGI]), (">=", ["0", "1", BIGI]),
    ("!=", ["0", "1", BIGI]), ("<>", ["0", "1", BIGI]), ("=", ["0", "1", BIGI]),
    ("and", ["0", "1", BIGI]), ("or", ["0", "1", BIGI]),
])
CHAIN_BASES = ["2", "9", "10", "1.5", "-2", BIGI, "9" * 300]
CHAIN_LENGTHS = [3, 4, 5, 6, 8]
CHAIN_CPU_LIMIT = 3.0
UNARY_CHAIN_OPERANDS = ["0", "1", "2", "9", "64", "308", "709", "710", "1.5", "-3", BIGI, "1e308", "9" * 300]

# PREPROCESSOR TAGS (Gen.pp_tag_family): pp.preprocess runs three regular expressions over every page and template text
# before it is tokenised.  Malformed / unterminated / attribute-laden inclusion tags followed by LONG runs of words or blanks:
# the text must come out in time proportional to its length (a regex that backtracks over the ways of splitting the run doubles
# its time with every word; such a call cannot be interrupted from Python - the worker's parent kills it by CPU time).
PP_TAGS = ["noinclude", "includeonly", "onlyinclude"]
PP_SIZES = {"quick": [10, 16, 28, 40, 100, 500, 2000], "thorough": [10, 13, 16, 20, 24, 28, 32, 40, 60, 100, 150, 300, 500, 1000, 2000]}
PP_CPU_LIMIT = 2.0
# OPEN DEFECT fixes/C03-onlyinclude-unclosed-quadratic.diff: k unclosed <onlyinclude> openers in a template cost k scans to the
# end of the text (findall), 6 s CPU for 8000 of them (104 KB); invisible up to k = 2000.  VERIF_C03_PP_BIG=1 adds k = 8000.
PP_BIG = os.environ.get("VERIF_C03_PP_BIG", "1") == "1"
PP_RANK1 = 16          # runs longer than this are only tried once the shorter ones of the same shape have passed
PP_RANK2 = 28

# DEEP SELF-NESTING (Gen.nest_family): {{f:a|{{f:a|{{f:a|...}}}}}} - the same function inside one of its own arguments, 5..30
# levels, for every registered name and every argument position, directly, through a chain of distinct templates and through a
# template that passes its argument on.  Every call in the text is written once, so it must be dispatched about once: the
# budget is NEST_SLACK x (number of calls written in page + templates) + 4 dispatches counted at Expander.resolver.  A function
# that reads a lazily expanded argument twice doubles the work at every level (2**depth).
NEST_DEPTHS = {"quick": [5, 12, 30], "thorough": [5, 8, 12, 16, 20, 25, 30]}
NEST_SLACK = 3
NEST_CPU_LIMIT = 3.0
NEST_PROBE = "{{lc:Z}}"
# OPEN DEFECT fixes/C03-ifexist-empty-title-named-lookup.diff: {{#ifexist:|a|3}} returns args.get(args[2]) - the NAMED argument
# "3", i.e. the third argument again - so {{#ifexist:||{{#ifexist:||..3..}}}} costs 2**depth.  Until the fix is in /repo the
# leaf "own position number" is not generated for #ifexist (VERIF_C03_IFEXIST_EMPTY=1 generates it).
IFEXIST_EMPTY = os.environ.get("VERIF_C03_IFEXIST_EMPTY", "1") == "1"

# HTML-ISH FRAGMENTS (Gen.markup_family): `<TAG ATTR="` + a LONG run (blanks, newlines, mixed white space, words separated by one /
# two blanks or newlines; 10..2000 items) + a tail (a last word and the closing quote and bracket, the quote closed at once, no
# closing quote, end of text, a last word `error`), i.e. long runs INSIDE attribute values, as an argument of EVERY registered name
# at EVERY argument position.  Functions that inspect their arguments with regular expressions (#iferror looks for
# <div|span|p|strong ... class="error">) must do so in time proportional to the argument.  GROUP TESTING: one screening page per
# (fragment shape, argument position, size, third of the names) holds one call per name; only when a screening page misbehaves
# (no string / CPU or size out of proportion / exception) is every call of that page run alone, and the single call is reported.
MK_TAGS = ["span", "div", "p", "strong", "b"]
# tags the template SCANNER treats specially (scanner.SPLIT_PATTERN protects <ref ../>, <pre ..>..</pre>, <gallery ..>, <source ..>,
# <imagemap ..>, <nowiki>, <math>): what the scanner does with them does not depend on the function called, so these are tried with
# one third of the names and at argument position 0 only
MK_SCANNER_TAGS = ["ref", "pre", "gallery", "source", "imagemap", "nowiki"]
MK_ATTRS = [("class", ' class="'), ("style", ' style="'), ("title-sq", " title='"), ("bare", " ")]
MK_RUNS = [("blanks", " ", 1), ("newlines", "\n", 1), ("mixed-ws", " \t\n", 3), ("words", "w ", 1), ("words2", "w  ", 1)]
MK_RUNS_THOROUGH = [("lines", "w\n", 1), ("tabs", "\t", 1), ("error-words", "errors ", 1), ("attr-words", 'a="v" ', 1)]
MK_TAILS = [("word-closed", 'notice%s>text</%s>'), ("closed", '%s>text</%s>'), ("no-quote", "notice>text</%s>"), ("eof", "notice"),
            ("error-closed", 'error%s>text</%s>')]
# sizes: (size, every how many-th shape): the exponential class shows at 20..30 items, long runs are for polynomial growth
MK_SIZES = {"quick": [(14, 1), (26, 1), (300, 2), (2000, 11)],
            "thorough": [(10, 1), (14, 1), (18, 1), (22, 1), (26, 1), (30, 1), (40, 1), (100, 1), (500, 3), (2000, 7)]}
MK_CHUNKS = 3
MK_CPU_LIMIT = 2.0
MK_RANK1 = 16
MK_RANK2 = 30
MK_REFINE_CAP = 6         # screening pages refined per (argument form, chunk): the smallest failing ones

_CALL_OPEN = re.compile(r"(?<!\{)\{\{(?!\{)")       # the opening braces of a call (not of a {{{parameter}}})

DB_DEFAULT = {"t": "{{{1}}}"}
PAGENAME = "Talk:This/page"


def rle(parts):
    return "".join(s * n for s, n in parts)


MK_STATE = {"chunks": []}      # the name chunks of the markup family's screening pages (set by Gen.markup_family)


def screen_parts(c):
    """run-length encoded text of a screening page of the markup family (built on demand: a page holds one call per name)"""
    parts = []
    for name, _canon, _kind in MK_STATE["chunks"][c["mk"]["chunk"]]:
        parts += mk_call_parts(name, c["mk"])
    return parts


def rle_of(c):
    if "text_rle" in c:
        return c["text_rle"]
    if c.get("family") == "mk-screen" and "mk" in c:
        return screen_parts(c)
    return None


def materialize(c):
    """replay/call object -> (text, db) with run-length encoded parts expanded"""
    text = c["text"] if "text" in c else rle(rle_of(c))
    db = {}
    for k, v in (c.get("db") or {}).items():
        db[k] = v if isinstance(v, str) else rle(v)
    return text, db


def input_size(text, db):
    return len(text) + sum(len(v) for v in db.values())


# ----------------------------------------------------------------------------- name universe

def site_aliases(src):
    """[(lang, canonical magicword name, alias)] of the 12 siteinfo files"""
    d = os.path.join(src, "mwlib", "network", "known_sites")
    res = []
    langs = []
    for fn in sorted(os.listdir(d)):
        m = re.match(r"siteinfo-(.+)\.json$", fn)
        if not m:
            continue
        lang = m.group(1)
        langs.append(lang)
        si = json.load(open(os.path.join(d, fn), encoding="utf8"))
        for mw in si.get("magicwords", []):
            for a in mw["aliases"]:
                res.append((lang, mw["name"], a))
    return langs, res


def fallback_info(dyn, why):
    """the name universe from the IMPORTED module (worker introspection) when the translator's static analysis of magics.py
    raises: the translator stays fail-closed (broken obligation), but the search must go on looking for a concrete input"""
    chains = dyn.get("chains", {})
    magics = [{"name": n, "layers": [], "sig": (0, 0, True), "strconst": chains.get(n) == "str"}
              for n in dyn.get("public", []) if n == n.upper() and chains.get(n) not in (None, "none") and not str(chains.get(n)).startswith("other:")]
    return {"magics": magics, "dummies": sorted(dyn.get("dummies", [])), "registry": [{"name": k} for k in dyn.get("registry", [])],
            "unreachable": [], "own_public": [], "decorators": {}, "pp": {"patterns": [], "problems": []}, "fallback": why}


def universe(src, dyn=None):
    try:
        info = c03_magics.analyse(src)
    except Exception as e:  # noqa: BLE001 - fail-closed for the verdict (see run()), but keep searching
        if not dyn:
            raise
        info = fallback_info(dyn, "%s: %s" % (type(e).__name__, e))
    builtins = []      # (call name, canonical fingerprint name, kind)
    dummies = set(info["dummies"])
    for m in info["magics"]:
        builtins.append((m["name"], m["name"], "dummy" if m["name"] in dummies else "magic"))
    reg = [r["name"] for r in info["registry"]]
    for n in reg:
        builtins.append((n, n.upper(), "node"))
    for extra in ("#if", "#switch"):        # parser-level nodes (parser.py name2rx); in the registry today
        if extra not in reg:
            builtins.append((extra, extra.upper(), "node"))
    magic_upper = {m["name"] for m in info["magics"]}
    node_names = set(reg) | {"#if", "#switch"}
    langs, aliases = site_aliases(src)
    en_alias = {}
    for lang, name, a in aliases:
        if lang == "en":
            en_alias.setdefault(name, set()).add(a)
    impl, unimpl = [], []
    for lang, name, a in aliases:
        base = a[:-1] if a.endswith(":") else a
        if "}" in base or "{" in base or "|" in base:
            continue
        u = name.upper()
        forms = []
        if name in node_names or u in magic_upper:
            forms.append((base, u))
        if "#" + name in node_names or "#" + u in magic_upper:
            forms.append(("#" + base, "#" + u))
        native = a in en_alias.get(name, ())
        if forms:
            for call, canon in forms:
                impl.append({"lang": lang, "call": call, "canon": canon, "native_en": native,
                             "kind": "dummy" if canon in dummies else "alias"})
        else:
            unimpl.append({"lang": lang, "call": base, "canon": "unimplemented:" + name, "native_en": native, "kind": "unimpl"})
            unimpl.append({"lang": lang, "call": "#" + base, "canon": "unimplemented:" + name, "native_en": native, "kind": "unimpl"})
    return info, builtins, impl, unimpl, langs


# ----------------------------------------------------------------------------- call generation

def mk_call_parts(name, spec):
    """run-length encoded text of ONE call of `name` carrying the fragment of `spec` (Gen.markup_family)"""
    head, tail = {"a0": ("{{%s:", "}}"), "a1": ("{{%s:x|", "}}"), "a2": ("{{%s:x|y|", "}}"), "a1-numbered": ("{{%s:x|1=", "}}"),
                  "pipe0": ("{{%s|", "}}"), "nested0": ("{{%s:{{#if:1|", "}}}}")}[spec["form"]]
    return [[(head % name) + spec["pre"], 1], [spec["unit"], spec["reps"]], [spec["post"] + tail + "\n", 1]]


def mk_single_calls(g_calls, screen, chunks):
    """the calls of one screening page, each alone (same fragment, same argument form): -> list of call objects"""
    spec = screen["mk"]
    out = []
    nid = max(c["id"] for c in g_calls) + 1
    for name, canon, kind in chunks[spec["chunk"]]:
        c = {"id": nid, "lang": screen["lang"], "db": DB_DEFAULT, "pagename": screen["pagename"], "canon": canon, "fkind": kind,
             "arity": {"a0": 1, "a1": 2, "a2": 3, "a1-numbered": 2, "pipe0": 1, "nested0": 1}[spec["form"]],
             "shapes": ["mk-" + spec["run"]], "form": "mk-" + spec["form"], "text_rle": mk_call_parts(name, spec),
             "cpu_limit": MK_CPU_LIMIT, "family": "mk", "screen": screen["id"]}
        nid += 1
        out.append(c)
    return out


def call_text(name, args, pipe=False):
    if args is None:
        return "{{%s}}" % name
    if pipe:
        return "{{%s|%s}}" % (name, "|".join(args))
    return "{{%s:%s}}" % (name, "|".join(args))


def mixed_case(rng, name):
    return "".join(ch.upper() if rng.random() < 0.5 else ch.lower() for ch in name)


class Gen:
    def __init__(self, rng, tier):
        self.rng = rng
        self.tier = tier
        self.calls = []
        self.seen = set()
        self.alias_called = set()

    def add(self, text, canon, kind, arity, shapes, lang="en", db=None, pagename=PAGENAME, form="colon", directed=None, text_rle=None,
            limit=None, budget=None, cpu_limit=None, family=None, group=None, rank=0):
        key = (lang, text if text_rle is None else json.dumps(text_rle), json.dumps(db, sort_keys=True) if db else "", pagename, limit)
        if key in self.seen:
            return
        self.seen.add(key)
        c = {"id": len(self.calls), "lang": lang, "db": db if db is not None else DB_DEFAULT, "pagename": pagename,
             "canon": canon, "fkind": kind, "arity": arity, "shapes": list(shapes), "form": form}
        if limit is not None:
            c["limit"] = limit
        if budget is not None:
            c["budget"] = budget
        if cpu_limit is not None:
            c["cpu_limit"] = cpu_limit
        if text_rle is not None:
            c["text_rle"] = text_rle
        else:
            c["text"] = text
        if directed:
            c["directed"] = directed
        if family:
            c["family"] = family
        if group is not None:
            c["group"] = group
            c["rank"] = rank
        self.calls.append(c)

    def pick(self, shape):
        vs = SHAPES[shape]
        return vs[0] if len(vs) == 1 else self.rng.choice(vs)

    def builtin(self, name, canon, kind):
        rng, thorough = self.rng, self.tier != "quick"
        self.add(call_text(name, None), canon, kind, 0, (), form="bare")
        self.add(call_text(name, []), canon, kind, 0, (), form="colon0")
        self.add(call_text(name.lower(), None), canon, kind, 0, (), form="bare-lower")
        for s, v in ALL_VALUES:                                  # 1 argument: every value of every shape
            self.add(call_text(name, [v]), canon, kind, 1, (s,))
        for s1 in SHAPE_NAMES:                                   # 2 arguments: all 9x9 shape pairs
            for s2 in SHAPE_NAMES:
                if thorough:
                    for v1 in SHAPES[s1]:
                        for v2 in SHAPES[s2]:
                            self.add(call_text(name, [v1, v2]), canon, kind, 2, (s1, s2))
                else:
                    self.add(call_text(name, [self.pick(s1), self.pick(s2)]), canon, kind, 2, (s1, s2))
        triples = [(a, b, c) for a in SHAPE_NAMES for b in SHAPE_NAMES for c in SHAPE_NAMES]
        if not thorough:
            triples = rng.sample(triples, 64)
        for s1, s2, s3 in triples:                               # 3 arguments
            self.add(call_text(name, [self.pick(s1), self.pick(s2), self.pick(s3)]), canon, kind, 3, (s1, s2, s3))
            if thorough:
                for _ in range(3):      # more value variants of the same shape triple
                    self.add(call_text(name, [self.pick(s1), self.pick(s2), self.pick(s3)]), canon, kind, 3, (s1, s2, s3))
        # pipe form and case variants (sampled)
        for _ in range(4 if not thorough else 40):
            k = rng.choice([1, 2, 3])
            ss = tuple(rng.choice(SHAPE_NAMES) for _ in range(k))
            self.add(call_text(name, [self.pick(s) for s in ss], pipe=True), canon, kind, k, ss, form="pipe")
        for _ in range(3 if not thorough else 30):
            k = rng.choice([0, 1, 2, 3])
            ss = tuple(rng.choice(SHAPE_NAMES) for _ in range(k))
            nm = rng.choice([name.lower(), name.upper(), mixed_case(rng, name)])
            self.add(call_text(nm, [self.pick(s) for s in ss]), canon, kind, k, ss, form="case")
        # named / '=' arguments and surrounding whitespace (sampled)
        for _ in range(2 if not thorough else 20):
            ss = tuple(rng.choice(SHAPE_NAMES) for _ in range(2))
            self.add(call_text(name, [" " + self.pick(ss[0]) + " ", "k=" + self.pick(ss[1])]), canon, kind, 2, ss, form="named")

    def numeric_family(self, name, canon, kind):
        """every value of the numeric grammar at every argument position of `name`: colon form with 1..3 arguments (the
        other positions hold a word, and for 3 arguments also a small number), pipe form with 2..3 arguments"""
        for s, v in NUMERIC_VALUES:
            if "|" in v or "}" in v or "{" in v:
                continue
            for k in (1, 2, 3):
                for pos in range(k):
                    for filler in (("x",) if k < 3 else ("x", "7")):
                        args = [filler] * k
                        args[pos] = v
                        self.add(call_text(name, args), canon, kind, k, tuple(s if i == pos else "word" for i in range(k)),
                                 form="numeric@%d/%d" % (pos, k))
            for k in (2, 3):
                for pos in range(k):
                    args = ["x"] * k
                    args[pos] = v
                    self.add(call_text(name, args, pipe=True), canon, kind, k, tuple(s if i == pos else "word" for i in range(k)),
                             form="numeric-pipe@%d/%d" % (pos, k))

    def recursion_family(self, name, canon, kind):
        """cyclic universes whose recursive call occurs >= 2 times inside an argument of `name`: template A's body is
        one call of `name` with the text  x{{A}}{{A}}  (or, mutually,  x{{B}}{{B}} with B = y{{A}}) at one argument position
        (positional, as a named value `1=..`/`#default=..`/`k=..`, or as a name `..=1`), the other positions filled with
        "1", "0" or "" so that each lazily evaluated branch is taken by some case.  The page is `s {{A}} e`.  TemplateRecursion
        must unwind to the outermost call, i.e. the number of template-call dispatches is linear in the recursion limit:
        budget = rec_budget(limit, number of calls in page + templates)."""
        rng, thorough = self.rng, self.tier != "quick"
        page = "s {{A}} e"
        recs = [("self2", "x{{A}}{{A}}", {})]
        if thorough:
            recs += [("self3", "x{{A}}{{A}}{{A}}", {}), ("mutual2", "x{{B}}{{B}}", {"B": "y{{A}}"}),
                     ("self2-arg", "x{{A|{{{1}}}}}{{A|1}}", {})]
        else:
            recs.append(rng.choice([("self3", "x{{A}}{{A}}{{A}}", {}), ("mutual2", "x{{B}}{{B}}", {"B": "y{{A}}"}),
                                    ("self2-arg", "x{{A|{{{1}}}}}{{A|1}}", {})]))
        bodies = []
        for rtag, rec, extra in recs:
            for pipe in (False, True):
                for k in (1, 2, 3, 4):
                    for pos in range(k):
                        fillers = ("1", "0", "") if (thorough or rtag == "self2") else ("1",)
                        for filler in fillers:
                            args = [filler] * k
                            args[pos] = rec
                            bodies.append((rtag, extra, call_text(name, args, pipe=pipe), "rec%s@%d/%d" % ("-pipe" if pipe else "", pos, k)))
                        if pos >= (0 if pipe else 1) and (thorough or rtag == "self2"):
                            for wrap in ("1=%s", "#default=%s", "k=%s", "%s=1"):
                                args = ["1"] * k
                                args[pos] = wrap % rec
                                bodies.append((rtag, extra, call_text(name, args, pipe=pipe),
                                               "rec-named%s@%d/%d" % ("-pipe" if pipe else "", pos, k)))
        for rtag, extra, body, form in bodies:
            db = {"A": body}
            db.update(extra)
            limits = [100] + ([50, 75, 150] if thorough else [rng.choice([40, 50, 60, 75, 125, 150])] if rng.random() < 0.25 else [])
            ncalls = page.count("{{") + sum(v.count("{{") for v in db.values())
            for lim in limits:
                self.add(page, canon, kind, -2, (rtag,), db=db, form=form,
                         limit=lim, budget=rec_budget(lim, ncalls), cpu_limit=REC_CPU_LIMIT)

    def pp_tag_family(self):
        """inclusion tags of the preprocessor, well-formed and malformed: `<tag`, `</tag`, `<TAG` for tag in noinclude /
        includeonly / onlyinclude, followed by a run of k items (words separated by one blank / two blanks / newlines,
        attribute-like words a="v", only blanks, only newlines, mixed white space, the tag itself again `><tag><tag..`) and then: the end of the text, a line break
        and more markup (`<br/>{{lc:REST}}`), a lone slash, `>` (a well-formed tag with k attributes), ` />` (self-closing),
        `>doc</tag> tail` (a closed block); as the page text itself and as a template included by the page.  k = 10..2000.
        Oracle: a string comes back within the CPU limit proportional to the text (PP_CPU_LIMIT cap)."""
        thorough = self.tier != "quick"
        sizes = PP_SIZES["thorough" if thorough else "quick"] + ([8000] if PP_BIG else [])

        def runs(k, opener=None):
            words = ["w%d" % i for i in range(k)]
            return [("words", " " + " ".join(words)), ("words2", "  " + "  ".join(words)), ("lines", "\n" + "\n".join(words)),
                    ("attrs", "".join(' a%d="v"' % i for i in range(k))), ("blanks", " " * k), ("newlines", "\n" * k),
                    ("mixed-ws", "".join(" \t\n"[i % 3] for i in range(k))), ("tagrun", (">" + opener) * k)]

        for ti, tag in enumerate(PP_TAGS):
            for fi, (form, opener) in enumerate((("open", "<" + tag), ("close", "</" + tag), ("upper", "<" + tag.upper()))):
                if form == "upper" and tag != "noinclude" and not thorough:
                    continue
                terms = [("eof", ""), ("lt", "\n<br/>{{lc:REST}}"), ("slash", " / x"), ("gt", "> tail"), ("selfclose", " /> tail"),
                         ("block", ">doc</%s> tail" % tag)]
                for k in sizes:
                    for ri, (rname, run) in enumerate(runs(k, opener)):
                        if (k > 2000 and rname != "tagrun") or (rname == "tagrun" and k > 1000 and not PP_BIG):
                            continue          # (unclosed <onlyinclude> x 2000 already uses a third of the CPU limit: open defect)
                        for xi, (tname, term) in enumerate(terms):
                            for pi, place in enumerate(("page", "template")):
                                if not thorough and (ti + fi + ri + xi + pi) % 2:     # quick: the placements alternate over the shapes
                                    continue
                                body = "intro " + opener + run + term
                                if place == "page":
                                    text, db = body, DB_DEFAULT
                                else:
                                    text, db = "before {{doc}} after", {"doc": body}
                                grp = "pp/%s/%s/%s/%s/%s" % (tag, form, rname, tname, place)
                                self.add(text, "PREPROCESS", "pp", -3, ("pp-" + rname,), db=db, form="pp-%s-%s" % (form, tname),
                                         cpu_limit=PP_CPU_LIMIT, family="pp", group=grp,
                                         rank=0 if k <= PP_RANK1 else 1 if k <= PP_RANK2 else 2)

    def nest_family(self, name, canon, kind):
        """`name` nested inside its own argument number p (p = 0..3; the other positions hold the fillers 1.. / empty / 0.. /
        a b c d), depth levels deep, innermost a probe call {{lc:Z}} (or the number p+1 of the position itself):
          direct   {{f:a|{{f:a|..{{lc:Z}}..}}}}      (and the pipe form {{f|a|{{f|a|..}}}}, where argument 0 is lazy too)
          chain    page {{N1}}, N1 = {{f:a|{{N2}}}}, N2 = {{f:a|{{N3}}}}, .. (distinct templates, no cycle)
          passarg  page {{T|{{T|..{{lc:Z}}..}}}}, T = {{f:a|{{{1}}}}}
        thorough: also as named values k=.. / 1=.. / #default=.. and with a trailing extra argument."""
        thorough = self.tier != "quick"
        depths = NEST_DEPTHS["thorough" if thorough else "quick"]
        schemes = [("ones", ["1", "1", "1", "1"]), ("distinct", ["a", "b", "c", "d"]), ("empty", ["", "", "", ""]), ("zeros", ["0", "0", "0", "0"])]
        for p in range(4):
            for sname, fill in (schemes if p else schemes[:1]):
                wraps = ["%s"] + (["k=%s", "1=%s", "#default=%s"] if (thorough and p >= 1 and sname in ("ones", "distinct")) else [])
                for wrap in wraps:
                    # pipe form {{f|a|{{f|a|..}}}}: a magic called without a colon gets ALL its arguments lazily (in the colon
                    # form the text after the colon is expanded together with the name, nodes.pyx Template._flatten)
                    for tail, pipe in ((False, False), (False, True)) + (((True, False), (True, True)) if thorough else ()):
                        if pipe and not thorough and sname not in ("ones", "distinct"):
                            continue

                        def call(inner, fill=fill, p=p, wrap=wrap, tail=tail, pipe=pipe):
                            return call_text(name, fill[:p] + [wrap % inner] + (["z"] if tail else []), pipe=pipe)
                        leaves = [("probe", NEST_PROBE)]
                        if canon != "#IFEXIST" or IFEXIST_EMPTY:
                            leaves.append(("own-index", str(p + 1)))
                        for lname, leaf in leaves:
                            for depth in depths:
                                forms = ["direct"]
                                if (thorough and depth in (12, 30)) or (sname in ("ones", "distinct") and depth == 12 and lname == "probe"):
                                    forms += ["chain", "passarg"]
                                for form in forms:
                                    if form == "direct":
                                        text = leaf
                                        for _ in range(depth):
                                            text = call(text)
                                        db = DB_DEFAULT
                                    elif form == "chain":
                                        text = "{{N1}}"
                                        db = {"N%d" % i: call("{{N%d}}" % (i + 1)) for i in range(1, depth + 1)}
                                        db["N%d" % (depth + 1)] = leaf
                                    else:
                                        text = leaf
                                        for _ in range(depth):
                                            text = "{{T|%s}}" % text
                                        db = {"T": call("{{{1}}}")}
                                    ncalls = sum(len(_CALL_OPEN.findall(t)) for t in [text] + list(db.values()))
                                    self.add(text, canon, kind, -4, ("nest-" + sname, "leaf-" + lname), db=db,
                                             form="nest-%s%s@%d%s" % (form, "-pipe" if pipe else "", p, "" if wrap == "%s" else "-named"),
                                             budget=NEST_SLACK * max(1, ncalls) + 4, cpu_limit=NEST_CPU_LIMIT, family="nest")

    def markup_family(self, builtins):
        """see MK_TAGS: fragment `<TAG ATTR="RUN TAIL` at argument position 0 / 1 / 2 (thorough: also as `1=..`, in the pipe form
        and produced by a nested {{#if:1|..}}) of every name; screening pages of len(names)/MK_CHUNKS calls each"""
        thorough = self.tier != "quick"
        sizes = MK_SIZES["thorough" if thorough else "quick"]
        runs = MK_RUNS + (MK_RUNS_THOROUGH if thorough else [])
        forms = ["a0", "a1", "a2"] + (["a1-numbered", "pipe0", "nested0"] if thorough else [])
        chunks = [builtins[i::MK_CHUNKS] for i in range(MK_CHUNKS)]
        self.mk_chunks = chunks
        MK_STATE["chunks"] = chunks
        gi = -1
        for ti, tag in enumerate(MK_TAGS + MK_SCANNER_TAGS):
            restricted = tag in MK_SCANNER_TAGS
            for ai, (aname, attr) in enumerate(MK_ATTRS):
                quote = '"' if attr.endswith('"') else "'" if attr.endswith("'") else ""
                for ri, (rname, unit, per) in enumerate(runs):
                    for xi, (tname, tail) in enumerate(MK_TAILS):
                        n_pct = tail.count("%s")
                        tl = tail % ((quote, tag) if n_pct == 2 else (tag,) if n_pct == 1 else ())
                        for fi, form in enumerate(forms[:1] if restricted else forms):
                            for ci in range(1 if restricted else len(chunks)):
                                idx = ti + ai + ri + xi + fi + ci
                                if not thorough and not restricted and idx % 2:
                                    continue
                                gi += 1
                                for k in [k for k, every in sizes if gi % every == 0]:
                                    spec = {"pre": "<" + tag + attr, "unit": unit, "reps": max(1, k // per), "post": tl, "form": form,
                                            "chunk": ci, "shape": "%s/%s/%s/%s" % (tag, aname, rname, tname), "run": rname, "k": k}
                                    # (the page text is built from `mk` on demand, screen_parts: 100 000 pages in the thorough tier)
                                    self.calls.append({"id": len(self.calls), "lang": "en", "db": DB_DEFAULT, "pagename": PAGENAME,
                                                       "canon": "MARKUP-SCREEN", "fkind": "screen", "arity": -5, "shapes": ["mk-" + rname],
                                                       "form": "mk-screen-" + form, "cpu_limit": MK_CPU_LIMIT, "family": "mk-screen",
                                                       "group": "mk/%s/%s/%d" % (spec["shape"], form, ci),
                                                       "rank": 0 if k <= MK_RANK1 else 1 if k <= MK_RANK2 else 2, "mk": spec})

    def alias(self, a, budget):
        rng = self.rng
        name, canon, kind, lang = a["call"], a["canon"], a["kind"], a["lang"]
        self.alias_called.add((lang, name))
        self.add(call_text(name, None), canon, kind, 0, (), lang=lang, form="alias-bare")
        if budget <= 1:
            s, v = rng.choice(ALL_VALUES)
            self.add(call_text(name, [v]), canon, kind, 1, (s,), lang=lang, form="alias")
            return
        self.add(call_text(name, []), canon, kind, 0, (), lang=lang, form="alias-colon0")
        if budget >= 100:
            vals = ALL_VALUES
        else:
            vals = rng.sample(ALL_VALUES, min(len(ALL_VALUES), max(1, budget - 4)))
        for s, v in vals:
            self.add(call_text(name, [v]), canon, kind, 1, (s,), lang=lang, form="alias")
        n2 = 1 if budget < 100 else 30
        for _ in range(n2):
            ss = tuple(rng.choice(SHAPE_NAMES) for _ in range(2))
            self.add(call_text(name, [self.pick(s) for s in ss]), canon, kind, 2, ss, lang=lang, form="alias")
        for _ in range(n2):
            ss = tuple(rng.choice(SHAPE_NAMES) for _ in range(3))
            self.add(call_text(name, [self.pick(s) for s in ss]), canon, kind, 3, ss, lang=lang, form="alias")

    def expr_family(self):
        """#expr / #ifexpr: every operator over pairs of the numeric shapes (the operators are where a number
        written in the wikitext could buy CPU time)."""
        rng, thorough = self.rng, self.tier != "quick"
        for fn in ("#expr", "#ifexpr"):
            canon = fn.upper()
            pairs = [(a, b) for a in EXPR_VALUES for b in EXPR_VALUES]
            for op in EXPR_BINOPS:
                ps = pairs if (thorough or fn == "#expr") else rng.sample(pairs, 20)
                for a, b in ps:
                    e = "%s %s %s" % (a, op, b)
                    args = [e] if fn == "#expr" else [e, "y", "n"]
                    self.add(call_text(fn, args), canon, "magic", len(args), ("expr",), form="expr-binop")
            for op in EXPR_UNOPS:
                for a in EXPR_VALUES:
                    e = "%s %s" % (op, a)
                    args = [e] if fn == "#expr" else [e, "y", "n"]
                    self.add(call_text(fn, args), canon, "magic", len(args), ("expr",), form="expr-unop")
            n = 300 if not thorough else 6000
            toks = EXPR_VALUES + EXPR_BINOPS + EXPR_UNOPS + ["(", ")", "(", ")", "pi", "e", ".", "x", "1.2.3"]
            for _ in range(n):
                e = " ".join(rng.choice(toks) for _ in range(rng.randint(1, 7)))
                args = [e] if fn == "#expr" else [e, "y", "n"]
                self.add(call_text(fn, args), canon, "magic", len(args), ("expr",), form="expr-random")

    def expr_chain_family(self):
        """#expr / #ifexpr operator CHAINS: for every binary operator, every base of CHAIN_BASES and every right operand of the
        operator's CHAIN_OPERANDS, the operator applied k = 3, 4, 5, 6, 8 times: `b op x op x ...` (left-associative), the same
        with explicit parentheses `((b op x) op x) ...`, through a prefix function `trunc(b op x) op x ...` and with the chain
        as the right operand of the next link `b op (b op x) ...`; chains of prefix functions `f f f x`; random mixed chains of
        k (operator, extreme operand) links.  Cost must stay proportional to the length of the text."""
        rng, thorough = self.rng, self.tier != "quick"

        def emit(e, form, fns=("#expr",)):
            for fn in fns:
                args = [e] if fn == "#expr" else [e, "y", "n"]
                self.add(call_text(fn, args), fn.upper(), "magic", len(args), ("expr-chain",), form=form, cpu_limit=CHAIN_CPU_LIMIT)

        both = ("#expr", "#ifexpr")
        for op, xs in CHAIN_OPERANDS.items():
            for b in CHAIN_BASES:
                for x in xs:
                    for k in CHAIN_LENGTHS:
                        sp = " " if op.isalpha() and op != "e" else ""
                        link = "%s%s%s%s" % (sp, op, sp, x)
                        emit(b + link * k, "chain", both if (thorough or k == 4) else ("#expr",))
                        if not thorough and k not in (4, 6):
                            continue
                        e = b
                        for _ in range(k):
                            e = "(%s%s)" % (e, link)
                        emit(e, "chain-paren")
                        emit("trunc(%s%s)%s" % (b, link, link * (k - 1)), "chain-fn")
                        e = x
                        for _ in range(k):
                            e = "%s%s%s%s(%s)" % (b, sp, op, sp, e)
                        emit(e, "chain-right")
        for op in EXPR_UNOPS:
            for x in UNARY_CHAIN_OPERANDS:
                for k in CHAIN_LENGTHS:
                    emit(" ".join([op] * k) + " " + x, "chain-unary")
                    if thorough or k == 4:
                        emit("(".join([op] * k) + "(" + x + ")" * k, "chain-unary")
        ops = list(CHAIN_OPERANDS)
        for _ in range(400 if not thorough else 8000):
            k = rng.choice(CHAIN_LENGTHS)
            e = rng.choice(CHAIN_BASES)
            for _i in range(k):
                op = rng.choice(ops) if rng.random() < 0.6 else rng.choice(["^", "e", "*"])
                x = rng.choice(CHAIN_OPERANDS[op])
                if rng.random() < 0.2:
                    x = "%s %s" % (rng.choice(EXPR_UNOPS), x)
                e = "%s %s %s" % (e, op, x) if rng.random() < 0.8 else "(%s) %s %s" % (e, op, x)
            emit(e, "chain-mixed", (rng.choice(both),))

    def time_family(self):
        thorough = self.tier != "quick"
        for f in TIME_FORMATS:
            for d in TIME_DATES:
                if "|" in d or "}" in d:
                    continue
                self.add(call_text("#time", [f, d]), "#TIME", "node", 2, ("timefmt", "date"), form="time")
        if thorough:
            for d in TIME_DATES:
                for n in range(0, 10000, 250):
                    self.add(call_text("#time", ["xrY xrU", "%04d-01-01" % n]), "#TIME", "node", 2, ("timefmt", "date"), form="time")

    def directed(self):
        big = [["x", 300000]]
        D = [
            ("dummy-resolver", "{{CONTENTLANGUAGE}}", None),
            ("dummy-resolver", "{{currenthour}}", None),
            ("dummy-resolver", "{{DISPLAYTITLE}}", None),
            ("dummy-resolver", "{{language:}}", None),
            ("switch-numeric-tie", "{{#switch: 1 | 1.0 = {{{x}}}b | 1 = c}}", None),
            ("switch-numeric-tie", "{{#switch: 1 | 1.0 = b | 1 = a}}", None),
            ("switch-bare-default", "{{#switch:a|b}}", None),
            ("switch-bare-default", "{{#switch: x | a = 1 | dflt}}", None),
            ("switch-bare-default", "{{#switch:|}}", None),
            ("fixed:a8599e6", "{{REVISIONID}}", None),
            ("fixed:a8599e6", "{{NUMBEROFARTICLES}}", None),
            ("fixed:a8599e6", "{{NUMBEROFPAGES}}", None),
            ("fixed:a8599e6", "{{NUMBEROFFILES}}", None),
            ("fixed:a8599e6", "{{NUMBEROFUSERS}}", None),
            ("fixed:a8599e6", "{{CURRENTVERSION}}", None),
            ("fixed:a8599e6", "{{DEFAULTSORT}}", None),
            ("fixed:eb6fa1b", "{{padleft:x|3000000}}", None),
            ("fixed:eb6fa1b", "{{padright:x|3000000|ab}}", None),
            ("fixed:b0e5238", "{{#expr:1e3000000}}", None),
            ("fixed:b0e5238", "{{#expr:2e-3000000}}", None),
            ("fixed:b0e5238", "{{#ifexpr:1E3000000|a|b}}", None),
            ("round-negative-digits", "{{#expr:7 round -6000000}}", None),
            ("round-negative-digits", "{{#expr:99999999999999999999 round -6000000}}", None),
            ("roman-out-of-range", "{{#time:xrY|5000-01-01}}", None),
            ("roman-out-of-range", "{{#time:xrU|2000-01-01}}", None),
            ("ifexist", "{{#ifexist:a|b|c}}", None),
            ("ifexist", "{{#ifexist:Media:x.png|b|c}}", None),
            ("ifexist", "{{#ifexist:Special:x|b|c}}", None),
            ("nesting", None, [["{{lc:", 250], ["x", 1], ["}}", 250]]),
            ("nesting", None, [["{{#if:", 400], ["x", 1], ["}}", 400]]),
            ("nesting", None, [["{{{", 2000], ["x", 1], ["}}}", 2000]]),
            ("nesting", None, [["{{", 100000]]),
            ("memory-limit", None, [["{{lc:", 1]] + big + [["}}", 1]]),
            ("memory-limit", None, [["{{{", 1]] + big + [["}}}", 1]]),
            ("memory-limit", "{{padleft:{{big}}|3}}", None),
            ("memory-limit", "{{lc:{{big}}}}", None),
            ("memory-limit", "{{#if:x|{{uc:{{big}}}}}}", None),
            ("memory-limit", "{{t|{{big}}}}", None),
            ("memory-limit", "{{#expr:{{big}}}}", None),
            ("big-input", None, [["{{uc:", 1], ["ß", 250000], ["}}", 1]]),
            ("big-input", None, [["{{urlencode:", 1], ["\U0001F600", 40000], ["}}", 1]]),
            ("big-input", None, [["{{anchorencode:", 1], ["\U0001F600", 40000], ["}}", 1]]),
            ("big-input", None, [["{{#expr:", 1], ["(", 100000], ["1", 1], [")", 100000], ["}}", 1]]),
            ("big-input", None, [["{{#expr:", 1], ["1+", 100000], ["1}}", 1]]),
            ("big-input", None, [["{{#expr:", 1], ["-", 100000], ["1}}", 1]]),
            ("big-input", None, [["{{#expr:", 1], ["9" * 4000 + "*", 50], ["1}}", 1]]),
            ("big-input", None, [["{{#time:", 1], ["xrY", 50000], ["}}", 1]]),
            ("big-input", None, [["{{#rel2abs:", 1], ["../", 80000], ["x|a/b}}", 1]]),
            ("big-input", None, [["{{#titleparts:", 1], ["a/", 100000], ["|-1|-1}}", 1]]),
            ("big-input", None, [["{{#tag:ref|", 1], ["x", 200000], ["}}", 1]]),
            ("big-input", None, [["{{formatnum:", 1], ["9", 200000], ["}}", 1]]),
            ("big-input", None, [["{{padleft:x|500|", 1], ["ab", 100000], ["}}", 1]]),
            ("big-input", None, [["{{lc:", 1], ["|", 100000], ["}}", 1]]),
            ("big-input", None, [["{{lc:x|", 1], ["a=b|", 50000], ["}}", 1]]),
            ("big-input", None, [["{{PAGENAME:", 1], ["a:", 100000], ["}}", 1]]),
            ("big-input", None, [["{{#switch:zz|", 1], ["k=v|", 30000], ["}}", 1]]),
            ("big-input", None, [["{{#switch:zz|", 1], ["{{{a}}}=v|", 20000], ["q=1}}", 1]]),
            ("odd-title", "{{PAGENAME:}}{{PAGENAME::}}{{PAGENAME:x:y:z}}{{PAGENAME:#}}{{NAMESPACE::}}{{NAMESPACE:Talk:x}}", None),
            ("odd-title", "{{TALKSPACE:Special:x}}{{TALKSPACE:Media:x}}{{TALKPAGENAME:Special:x}}{{SUBJECTPAGENAME:Media:x}}", None),
            ("odd-title", "{{TALKSPACEE:Media:x}}{{BASEPAGENAME:/}}{{SUBPAGENAME:/}}{{BASEPAGENAME:a//b/}}{{NAMESPACE:99:x}}", None),
            ("prefixes", "{{int:x}}{{msg:x}}{{raw:x}}{{msgnw:x}}{{subst:x}}{{safesubst:x}}{{safesubst:lc:AbC}}{{subst:lc:AbC}}", None),
            ("prefixes", "{{safesubst:#expr:1+1}}{{safesubst:padleft:x|3000000}}{{safesubst:CONTENTLANGUAGE}}{{safesubst:}}", None),
            ("prefixes", "{{DEFAULTSORT:x}}{{DISPLAYTITLE:x}}{{displaytitle:}}{{defaultsort:|x|y}}", None),
            ("misc", "{{ns:}}{{ns:0}}{{ns:-1}}{{ns:-2}}{{ns:99999999999999999999}}{{ns:x}}{{ns:Talk}}", None),
            ("misc", "{{fullurl:}}{{fullurl:a b|action=edit}}{{localurl:a|b}}{{localurle:a b}}{{urlencode:a b}}", None),
            ("misc", "{{#iferror:<strong class=\"error\">x</strong>|bad|good}}{{#iferror:x}}{{#iferror:|}}", None),
            ("misc", "{{#tag:}}{{#tag:ref}}{{#tag:ref|x|name=a}}{{#tag:nowiki|{{lc:X}}}}{{#tag:a b|c|d=e=f}}", None),
            ("misc", "{{#rel2abs:}}{{#rel2abs:../../../..}}{{#rel2abs:./x|}}{{#rel2abs:/x|a}}{{#rel2abs:..|a}}", None),
            ("misc", "{{formatnum:1,5|R}}{{formatnum:nan}}{{formatnum:inf|R}}{{formatnum:1_000}}{{formatnum:-3|r}}{{formatnum:1e400}}", None),
            ("misc", "{{#titleparts:a/b/c|99999999999999999999|-99999999999999999999}}{{#titleparts:a/b|x|y}}{{#titleparts:|0|0}}", None),
            ("misc", "{{#language:}}{{#language:de}}{{#language:de|en}}{{#ifeq:1e3|1000|y|n}}{{#ifeq:1e400|inf|y|n}}{{#ifeq:nan|nan|y|n}}", None),
            ("misc", "{{#switch:1e400|inf=a|b=c}}{{#switch:nan|NaN=a}}{{#switch:x|#default=d}}{{#switch:x|a|b|x=1}}{{#switch:|=e}}", None),
        ]
        db = {"t": "{{{1}}}", "big": [["y", 300000]]}
        for tag, text, parts in D:
            needs_big = (text or "").find("{{big}}") >= 0
            self.add(text, directed_canon(tag, text, parts), "directed", -1, (), db=db if needs_big else DB_DEFAULT, form="directed",
                     directed=tag, text_rle=parts)
        # the same small probes on another site (aliases of #if/#switch build the parser's regex)
        for lang in ("fr", "ja", "de"):
            for tag, text, parts in D:
                if text is not None and "{{big}}" not in text and tag in ("switch-numeric-tie", "switch-bare-default", "misc", "prefixes", "odd-title"):
                    self.add(text, directed_canon(tag, text, parts), "directed", -1, (), lang=lang, form="directed", directed=tag)


# work oracle of the recursion family: the clean mechanism dives once per top-level call of the page and unwinds
# (<= limit+1 nested flatten calls, each dispatching at most the calls of one template body); REC_SLACK x that is allowed
REC_SLACK = 4
REC_CPU_LIMIT = 3.0


def rec_budget(limit, ncalls):
    return REC_SLACK * (limit + 2) * max(1, ncalls)


def directed_canon(tag, text, parts):
    """fingerprint name of a directed probe: the (first) function it calls, so that it shares its fingerprint with
    the systematic calls of that function; probes made of several calls keep their tag"""
    t = text if text is not None else "".join(s for s, _k in parts)
    if t.count("{{") - t.count("{{{") * 1 > 1 and tag in ("odd-title", "prefixes", "misc"):
        return "DIRECTED:" + tag
    m = re.match(r"\{\{\s*([^:|{}]+)", t)
    if not m:
        return "DIRECTED:" + tag
    return m.group(1).strip().upper()


def corpus_calls(g):
    """corpus/C03/*.json: replay objects ({"kind": "call", ...}, as written into replays/) of past failures, run first"""
    d = os.path.join(core.VERIF, "corpus", "C03")
    if not os.path.isdir(d):
        return
    for fn in sorted(os.listdir(d)):
        if not fn.endswith(".json"):
            continue
        o = json.load(open(os.path.join(d, fn), encoding="utf8"))
        r = o.get("replay", o)
        if r.get("kind") != "call":
            continue
        g.add(r.get("text"), r.get("function", "CORPUS"), "directed", -1, (), lang=r.get("lang", "en"), db=r.get("db") or DB_DEFAULT,
              pagename=r.get("pagename", PAGENAME), form="corpus", directed="corpus:" + fn, text_rle=r.get("text_rle"),
              limit=r.get("limit"), budget=r.get("budget"), cpu_limit=r.get("cpu_limit"), family=r.get("family"))


def generate(rng, tier, src, dyn=None):
    info, builtins, impl, unimpl, langs = universe(src, dyn)
    g = Gen(rng, tier)
    corpus_calls(g)
    g.directed()
    for name, canon, kind in builtins:
        g.builtin(name, canon, kind)
    for name, canon, kind in builtins:
        g.numeric_family(name, canon, kind)
    for name, canon, kind in builtins:
        g.recursion_family(name, canon, kind)
    for name, canon, kind in builtins:
        g.nest_family(name, canon, kind)
    g.pp_tag_family()
    g.markup_family(builtins)
    g.expr_family()
    g.expr_chain_family()
    g.time_family()
    thorough = tier != "quick"
    for a in impl:
        if thorough:
            g.alias(a, 100 if not a["native_en"] or a["lang"] == "en" else 12)
        else:
            g.alias(a, 8 if not a["native_en"] else 1)
    n_un = 200 if not thorough else 3000
    for a in rng.sample(unimpl, min(n_un, len(unimpl))):
        g.alias(a, 3)
    generate.mk_chunks = g.mk_chunks
    return info, builtins, impl, unimpl, langs, g.calls, g.alias_called


# ----------------------------------------------------------------------------- running

def _payload(c):
    o = {"id": c["id"], "lang": c["lang"], "pagename": c["pagename"]}
    for k in ("limit", "budget", "cpu_limit"):
        if k in c:
            o[k] = c[k]
    if c.get("family") in ("mk", "mk-screen") and rle_of(c) is not None:
        o["text_rle"] = rle_of(c)                # expanded by the worker (a screening page of 2000-item runs is 70 KB)
        o["db"] = c["db"]
    else:
        o["text"], o["db"] = materialize(c)
    return json.dumps(o)


def run_shard(calls, src, timeout):
    inp = "".join(_payload(c) + "\n" for c in calls)
    rc, out = core.run_impl("vt.harness.c03_search", [], src=src, input=inp, timeout=timeout)
    res = {}
    for ln in out.splitlines():
        if ln.startswith('{"id"'):
            try:
                r = json.loads(ln)
            except ValueError:
                continue
            res[r["id"]] = r
    return rc, out, res


def run_calls(calls, src, nproc, timeout):
    """-> {id: result}; ids without a result (worker infrastructure failure) are retried once, alone"""
    shards = [calls[i::nproc] for i in range(nproc)]
    shards = [s for s in shards if s]
    results = {}
    errors = []
    with concurrent.futures.ThreadPoolExecutor(max_workers=nproc) as ex:
        for (rc, out, res), sh in zip(ex.map(lambda s: run_shard(s, src, timeout), shards), shards):
            results.update(res)
            if rc != 0 or len(res) != len(sh):
                errors.append("worker rc=%s answered %d/%d: %s" % (rc, len(res), len(sh), out[-300:].replace("\n", " | ")))
    missing = [c for c in calls if c["id"] not in results]
    if missing:
        rc, out, res = run_shard(missing, src, timeout)
        results.update(res)
    return results, errors


def introspect(src):
    rc, out = core.run_impl("vt.harness.c03_search", [], src=src, input=json.dumps({"id": -1, "introspect": True}) + "\n", timeout=300)
    for ln in out.splitlines():
        if ln.startswith("{"):
            try:
                r = json.loads(ln)
            except ValueError:
                continue
            if r.get("id") == -1:
                return r
    raise RuntimeError("introspection failed: " + out[-500:])


def cross_check(run, info, dyn):
    """static (ast) enumeration of the dispatch table vs the imported module"""
    static_pub = sorted({m["name"] for m in info["magics"]} | set(info["unreachable"]) | set(info["own_public"]))
    dyn_pub = sorted(dyn["public"])
    diff = sorted(set(static_pub) ^ set(dyn_pub))
    run.obligation("C03 static dispatch table = dir(MagicResolver) of the imported module", not diff,
                   "%d names" % len(dyn_pub) if not diff else "differ: %s" % diff[:10])
    bad = []
    for m in info["magics"]:
        d = dyn["chains"].get(m["name"])
        if m["strconst"]:
            want = "str"
        else:
            want = [list(info["decorators"][l]["sig"]) for l in m["layers"]] + [list(m["sig"])]
        if d != want:
            bad.append("%s: static %s runtime %s" % (m["name"], want, d))
    run.obligation("C03 static decorator/signature chain of every magic = runtime __wrapped__ chain", not bad,
                   "%d magics" % len(info["magics"]) if not bad else "; ".join(bad[:5]))
    sreg = sorted(r["name"] for r in info["registry"])
    regbad = []
    if sreg != dyn["registry"]:
        regbad.append("keys: static %s runtime %s" % (sreg, dyn["registry"]))
    for r in info["registry"]:
        d = dyn.get("registry_info", {}).get(r["name"])
        if d is None:
            continue
        if d["factory"] != r["factory"]:
            regbad.append("%s: factory flag differs" % r["name"])
        elif not d["factory"] and d.get("flatten") is not None and d["flatten"] != list(r["flatten_sig"]):
            regbad.append("%s: flatten signature static %s runtime %s" % (r["name"], r["flatten_sig"], d["flatten"]))
        elif d["factory"] and d.get("ctor") != list(r["ctor_sig"]):
            regbad.append("%s: factory signature differs" % r["name"])
    run.obligation("C03 static magic_nodes.registry = runtime registry", not regbad,
                   "%d entries" % len(sreg) if not regbad else "; ".join(regbad[:5]))
    # the regular expressions the imported pp module really holds = the ones the translator evaluated from the source, and
    # each of them (whatever the source looks like) is free of nested overlapping quantifiers
    from vt.gen import c03_static
    rt = dyn.get("pp_patterns")
    if rt is not None:
        static = sorted(info.get("pp", {}).get("patterns", []))
        runtime = sorted(p for p, _f in rt)
        run.obligation("C03 pp.py: statically evaluated regex sources = patterns compiled in the imported module",
                       static == runtime, "%d patterns" % len(runtime) if static == runtime else "static %s runtime %s" % (static, runtime))
        probs = []
        for p, f in rt:
            probs += c03_static.regex_problems(p, f)
        run.obligation("C03 pp.py: no compiled preprocessor regex nests an unbounded repetition inside an unbounded repetition over "
                       "overlapping characters (catastrophic backtracking)", not probs,
                       "%d patterns" % len(rt) if not probs else "; ".join(sorted(set(probs))[:3]))


def regex_cross_check(run, info, dyn):
    """the compiled regular expressions the IMPORTED modules of the expansion path really hold (and those a Parser instance builds
    for every known site) are the statically evaluated ones, and each is free of nested overlapping quantifiers - judged on the
    pattern object itself, whatever the source looks like (so it still works when the static analysis gave up)"""
    from vt.gen import c03_static
    rt = dyn.get("rx_patterns")
    if rt is None:
        run.obligation("C03 regexes of the expansion path: worker introspection lists the compiled patterns", False, "no rx_patterns")
        return
    errs = dyn.get("rx_errors") or []
    static = {(rel.split("/")[-1][:-3], pat) for rel, pat, _f in info.get("regexes", {}).get("patterns", [])}
    mod_rt = [(t, p) for t, p, _f in rt if not t.startswith("parser-instance:")]
    unknown = sorted(x for x in mod_rt if x not in static) if not info.get("fallback") else []
    run.obligation("C03 regexes of magics/magic_nodes/magic_time/expr/parser/scanner: every pattern compiled in the imported modules is one "
                   "the translator evaluated from the source", not unknown and not errs,
                   "%d module patterns, %d patterns of Parser instances" % (len(mod_rt), len(rt) - len(mod_rt)) if not unknown and not errs
                   else "not in the static list: %s %s" % (unknown[:3], errs[:2]))
    probs = []
    for t, p, f in rt:
        probs += ["%s: %s" % (t, x) for x in c03_static.regex_problems(p, f)]
    run.obligation("C03 regexes of the expansion path: no compiled pattern (module globals, Parser.name2rx of all known sites) nests an "
                   "unbounded repetition inside an unbounded repetition over overlapping characters", not probs,
                   "%d patterns" % len(rt) if not probs else "; ".join(sorted(set(probs))[:3]))


def limits(n):
    return CPU_BASE + CPU_PER_CHAR * n, OUT_BASE + OUT_PER_CHAR * n


def classify(c, r, n):
    """the property's oracle on one result -> None | (fingerprint, what)"""
    name = c["canon"]
    if c["fkind"] == "dummy" or "get_dummy.<locals>.resolve" in r.get("exc", ""):
        name = "DUMMY-RESOLVER"         # one root cause for all names installed by _populate_dummy
    oc = r["outcome"]
    if oc == "exc":
        et = r["exc"].split(":", 1)[0]
        if et in ("MemoryLimitError",):
            return "exc:%s" % et, "expandTemplates raised " + r["exc"]
        if et == "RecursionError":
            return "exc:RecursionError:parse", "expandTemplates raised " + r["exc"]
        return "exc:%s:%s" % (et, name), "expandTemplates raised " + r["exc"]
    if oc == "crash":
        return "crash:%s" % name, "the interpreter died while expanding: " + r["exc"]
    if oc == "budget" and c.get("family") == "nest":
        return ("work:nesting:%s" % name,
                "%s although the page and its templates contain only %d calls, each written once, and no cycle: the work grows "
                "exponentially with the nesting depth (an argument is expanded more than once per level)"
                % (r["exc"], (c["budget"] - 4) // NEST_SLACK))
    if oc == "budget":
        return ("work:recursion:%s" % name,
                "%s with recursion_limit=%s: the work is not bounded by the recursion limit (TemplateRecursion does not unwind to the "
                "outermost call; the clean mechanism needs about limit/3 dispatches)" % (r["exc"], c.get("limit", 100)))
    if c.get("family") == "nest":
        # Judged by the dispatch count only (above / below): a chain of k calls that each return twice their argument
        # ({{#tag:NAME}} writes NAME into the opening and the closing tag) legitimately produces 2**k characters - every single
        # call is proportional to ITS argument - so neither the output size nor the CPU time of the whole chain is
        # comparable with the size of the page text.  A run that hits the CPU cap without exceeding the dispatch budget is
        # inconclusive, not a finding.
        if oc == "timeout" or (oc == "ok" and r.get("dispatches", 0) <= c.get("budget", 0)):
            return None
    if oc == "timeout":
        return "time:%s" % name, "no result: " + r["exc"]
    if oc == "nonstr":
        return "nonstr:%s" % name, "expandTemplates " + r["exc"]
    cpu_lim, out_lim = limits(n)
    if "budget" in c and r.get("dispatches", 0) > c["budget"] and c.get("family") == "nest":
        return ("work:nesting:%s" % name, "%d template-call dispatches for %d calls written once (budget %d)"
                % (r["dispatches"], (c["budget"] - 4) // NEST_SLACK, c["budget"]))
    if "budget" in c and r.get("dispatches", 0) > c["budget"]:
        return ("work:recursion:%s" % name, "%d template-call dispatches with recursion_limit=%s (budget %d)"
                % (r["dispatches"], c.get("limit", 100), c["budget"]))
    if r["outlen"] > out_lim:
        return ("size:%s" % name,
                "output of %d characters from %d characters of input (limit %d)" % (r["outlen"], n, out_lim))
    if r["cpu"] > cpu_lim:
        return ("time:%s" % name,
                "%.2fs CPU for %d characters of input (limit %.2fs)" % (r["cpu"], n, cpu_lim))
    return None


def replay_obj(c, fp):
    o = {"kind": "call", "lang": c["lang"], "pagename": c["pagename"], "db": c["db"], "expect": fp,
         "function": c["canon"], "arity": c["arity"], "shapes": c["shapes"]}
    for k in ("limit", "budget", "cpu_limit", "family"):
        if k in c:
            o[k] = c[k]
    if rle_of(c) is not None:
        o["text_rle"] = rle_of(c)
    else:
        o["text"] = c["text"]
    return o


def short(c):
    t = c["text"] if "text" in c else "".join(("%s*%d " % (json.dumps(s), k)) if k > 1 else s for s, k in rle_of(c))
    return t if len(t) <= 160 else t[:100] + "...(%d chars)..." % len(t) + t[-30:]


def run(run, src):
    tier = run.tier
    nproc = max(1, min(16, core.NPROC))
    dyn, dyn_err = None, None
    try:
        dyn = introspect(src)
    except Exception as e:  # noqa: BLE001
        dyn_err = e
    info, builtins, impl, unimpl, langs, calls, alias_called = generate(run.rng, tier, src, dyn)
    if info.get("fallback"):
        run.obligation("C03 static analysis of the dispatch table (translator) succeeded; the search enumerated the names of the "
                       "imported module instead", False, info["fallback"])
    try:
        if dyn is None:
            raise dyn_err
        if not info.get("fallback"):
            cross_check(run, info, dyn)
        regex_cross_check(run, info, dyn)
    except Exception as e:  # noqa: BLE001
        run.obligation("C03 static dispatch table = dir(MagicResolver) of the imported module", False, "introspection failed: %s" % e)
    # calls of one `group` are ranked by size: a larger one is only tried when the smaller ones of its group have passed
    # (a shape that already fails at 30 words would only burn its CPU limit again at 60, 150, ...; the smallest failing
    # input is the one reported anyway)
    results, errors = {}, []
    failed_groups, skipped = set(), set()
    for rank in sorted({c.get("rank", 0) for c in calls}):
        batch = []
        for c in calls:
            if c.get("rank", 0) != rank:
                continue
            if c.get("group") in failed_groups:
                skipped.add(c["id"])
            else:
                batch.append(c)
        if not batch:
            continue
        res, errs = run_calls(batch, src, nproc, timeout=1500 if tier == "quick" else 3000)
        results.update(res)
        errors += errs
        for c in batch:
            r = res.get(c["id"])
            if r is not None and c.get("group") is not None:
                text, db = materialize(c)
                if classify(c, r, input_size(text, db)) is not None:
                    failed_groups.add(c["group"])
    calls = [c for c in calls if c["id"] not in skipped]
    # group testing of the markup family: every screening page that misbehaved is taken apart into its single calls
    bad_screens = {}
    for c in calls:
        r = results.get(c["id"])
        if c.get("family") == "mk-screen" and r is not None:
            text, db = materialize(c)
            if r["outcome"] != "ok" or classify(c, r, input_size(text, db)) is not None:
                bad_screens.setdefault((c["mk"]["form"], c["mk"]["chunk"]), []).append(c)
    n_refined = 0
    for key in sorted(bad_screens):
        hit_tags, n_key = set(), 0
        for sc in sorted(bad_screens[key], key=lambda c: (c["mk"]["k"], c["id"])):
            tag = sc["mk"]["shape"].split("/")[0]
            if tag in hit_tags or n_key >= MK_REFINE_CAP:
                continue          # a smaller page with the same tag has already been traced to single calls
            n_key += 1
            # the single calls at the size of the page; when each of them alone is still within its limits (34 calls that are each
            # 100 x too slow make the page fail first), at growing sizes: +6, +12 items (exponential growth), x4, x16 (polynomial)
            n_refined += 1
            k0 = sc["mk"]["k"]
            for k in [k0, k0 + 6, k0 + 12, 4 * k0, min(16 * k0, 8000)]:
                sck = dict(sc)
                sck["mk"] = dict(sc["mk"], k=k, reps=max(1, k * sc["mk"]["reps"] // max(1, k0)))
                singles = mk_single_calls(calls, sck, generate.mk_chunks)
                res, errs = run_calls(singles, src, nproc, timeout=1500)
                errors += errs
                results.update(res)
                calls += singles
                for c1 in singles:
                    r1 = res.get(c1["id"])
                    if r1 is not None:
                        t1, d1 = materialize(c1)
                        if classify(c1, r1, input_size(t1, d1)) is not None:
                            sc["refined_hit"] = True
                if sc.get("refined_hit"):
                    hit_tags.add(tag)
                    break
        if any(sc.get("refined_hit") for sc in bad_screens[key]):
            # the pages of the same argument form and the same names beyond the cap are attributed to the single calls found
            # (a second root cause hiding behind them shows up once the first is repaired)
            for sc in bad_screens[key]:
                sc["refined_hit"] = True
    unanswered = [c for c in calls if c["id"] not in results]
    run.obligation("C03 search: every generated call was answered by a worker", not unanswered,
                   "%d calls" % len(calls) if not unanswered else "%d unanswered, e.g. %s; %s" % (len(unanswered), short(unanswered[0]), errors[:2]))

    dist = {"arity": collections.Counter(), "shape": collections.Counter(), "outcome": collections.Counter(),
            "kind": collections.Counter(), "form": collections.Counter(), "lang": collections.Counter(),
            "input_size": collections.Counter()}
    covered = collections.Counter()
    hits = {}                  # fingerprint -> [(size key, what, replay)]: the smallest (clearly failing) input of each root cause is reported
    max_disp_ratio = (0.0, "")
    max_out_excess = (0, "")
    max_cpu_ratio = (0.0, "")
    max_out_ratio = (0.0, "")
    max_cpu = (0.0, "")
    suspects = []
    for c in calls:
        r = results.get(c["id"])
        if r is None:
            continue
        text, db = materialize(c)
        n = input_size(text, db)
        v = classify(c, r, n)
        if c.get("refined_hit"):
            v = None          # reported through the single call(s) of this screening page
        if v is not None and v[0].startswith("time:") and r["outcome"] == "ok":
            suspects.append((c, r, n))
            continue
        _account(run, c, r, n, v, dist, covered, hits)
        if r["outcome"] == "ok":
            if n >= 20000 and r["cpu"] / n > max_cpu_ratio[0]:
                max_cpu_ratio = (r["cpu"] / n, short(c))
            if r["outlen"] / max(n, 1) > max_out_ratio[0]:
                max_out_ratio = (r["outlen"] / max(n, 1), short(c))
            if r["cpu"] > max_cpu[0]:
                max_cpu = (r["cpu"], short(c))
            if r["outlen"] - OUT_PER_CHAR * n > max_out_excess[0]:
                max_out_excess = (r["outlen"] - OUT_PER_CHAR * n, short(c))
            if "budget" in c and r.get("dispatches", 0) / c["budget"] > max_disp_ratio[0]:
                max_disp_ratio = (r.get("dispatches", 0) / c["budget"], "%s with A=%s limit %s: %d dispatches" % (short(c), c["db"].get("A"), c.get("limit"), r["dispatches"]))
    # a CPU-limit hit is confirmed by a second, solitary run (other jobs share the machine)
    if suspects:
        again, _ = run_calls([c for c, _r, _n in suspects], src, min(4, nproc), timeout=1500)
        for c, r, n in suspects:
            r2 = again.get(c["id"], r)
            if r2["outcome"] == "ok" and r2["cpu"] < r["cpu"]:
                r = r2
            _account(run, c, r, n, classify(c, r, n), dist, covered, hits)
            if r["cpu"] > max_cpu[0]:
                max_cpu = (r["cpu"], short(c))

    for fp in sorted(hits):
        _k, what, rep = min(hits[fp], key=lambda it: it[0])
        run.hit(fp, what, rep)

    want = {canon for _n, canon, _k in builtins}
    missing = sorted(want - set(covered))
    run.obligation("C03 search: every registered name (built-in, dummy, magic node) was called", not missing,
                   "%d names" % len(want) if not missing else "never called: %s" % missing[:10])
    want_alias = {(a["lang"], a["call"]) for a in impl}
    miss_alias = sorted(want_alias - alias_called)
    run.obligation("C03 search: every site alias of an implemented magic word was called on its site", not miss_alias,
                   "%d aliases on %d sites" % (len(want_alias), len(langs)) if not miss_alias else "never called: %s" % miss_alias[:5])

    def top(cn, k=40):
        return dict(sorted(cn.items(), key=lambda kv: (-kv[1], str(kv[0])))[:k])

    distribution = {
        "search_calls": len(calls),
        "search_calls_skipped_because_a_smaller_input_of_the_same_shape_failed": len(skipped),
        "markup_screening_pages": sum(1 for c in calls if c.get("family") == "mk-screen"),
        "markup_screening_pages_taken_apart": n_refined,
        "search_arity": {str(k): v for k, v in sorted(dist["arity"].items(), key=lambda kv: str(kv[0]))},
        "search_shapes": top(dist["shape"]),
        "search_outcomes": top(dist["outcome"]),
        "search_function_kinds": top(dist["kind"]),
        "search_call_forms": top(dist["form"]),
        "search_sites": top(dist["lang"]),
        "search_input_sizes": {k: dist["input_size"][k] for k in ("<=32", "<=256", "<=8K", "<=64K", ">64K") if dist["input_size"][k]},
        "search_names": {"built-in magic": sum(1 for b in builtins if b[2] == "magic"), "dummy": sum(1 for b in builtins if b[2] == "dummy"),
                         "magic node": sum(1 for b in builtins if b[2] == "node"), "implemented site aliases": len(want_alias),
                         "unimplemented site alias forms": len(unimpl)},
        "calibration": {"cpu_limit": "%.2fs + %.0e s/char" % (CPU_BASE, CPU_PER_CHAR), "output_limit": "%d + %d/char" % (OUT_BASE, OUT_PER_CHAR),
                        "max_cpu_seconds_seen": round(max_cpu[0], 4), "max_cpu_call": max_cpu[1],
                        "max_cpu_per_char_seen_for_inputs_ge_20000": float("%.3g" % max_cpu_ratio[0]), "max_cpu_per_char_call": max_cpu_ratio[1],
                        "max_output_per_input_char_seen": round(max_out_ratio[0], 3), "max_output_call": max_out_ratio[1],
                        "max_output_minus_%d_per_input_char_seen" % OUT_PER_CHAR: max_out_excess[0], "max_output_excess_call": max_out_excess[1],
                        "recursion_budget": "%d x (recursion limit + 2) x number of calls in page and templates" % REC_SLACK,
                        "max_fraction_of_recursion_budget_used": round(max_disp_ratio[0], 4), "max_recursion_budget_call": max_disp_ratio[1]},
    }
    return {
        "rule": ("search: calls {{N}}, {{N:}}, {{N:a}}, {{N:a|b}}, {{N:a|b|c}} (+ pipe form, case variants, named arguments) for every name N "
                 "of the dispatch table (ast of magics.py, cross-checked against dir(MagicResolver)), every magic_nodes.registry key and "
                 "every alias of an implemented magic word in the 12 siteinfo files on its own site; arguments from 9 shapes (empty, word, "
                 "small, huge, negative, decimal, exponent, path, nested call; %d concrete values); 1 argument: every value, 2: all 81 shape "
                 "pairs (thorough: all value pairs), 3: %s; NUMERIC FAMILY: for every built-in name, every one of %d spellings of a number "
                 "(integers, huge digit strings, negatives, sign/padding/underscore/hex forms, decimals, exponent forms such as 4e3 5E5 2e7 "
                 "3E7 1e400 9e999999, inf/nan, Arabic-Indic and fullwidth digits, superscript/roman numerals) at every argument position of "
                 "colon calls with 1..3 arguments and pipe calls with 2..3 arguments; RECURSION FAMILY: for every built-in name, cyclic "
                 "universes A = one call of the name with x{{A}}{{A}} (quick: + one of {3 calls, mutual recursion through B, argument passing}; "
                 "thorough: all) at every argument position 0..3 (positional with fillers 1/0/empty, as a named value 1=/#default=/k=, as a "
                 "name ..=1; colon and pipe form), page `s {{A}} e`, recursion limit 100 (+ a sampled limit from 40..150 / thorough: 50, 75, "
                 "150), under a budget of %d x (limit+2) x calls template-call dispatches counted at Expander.resolver; plus every #expr "
                 "operator over 16x16 numeric operands; OPERATOR CHAINS: every binary #expr operator applied 3, 4, 5, 6 and 8 times "
                 "left-associatively to each of 7 bases (small, decimal, negative, 20- and 300-digit integers) with the right operand at "
                 "the extremes of every range in which one application is cheap (^ with 2 3 10 63 64 65 100 308 309 1023 1024 0.5 -1 -64 "
                 "1e2 and a 20-digit exponent; e-notation 1..99999999 and negative; * + - with 4000-digit literals; / div mod round "
                 "likewise), written plainly, fully parenthesised, through trunc(..) and right-nested; chains of 3..8 prefix functions over "
                 "13 operands; 400 (thorough 8000) random mixed chains; each under a 3 s CPU cap and the CPU/size oracle proportional to "
                 "the text; DEEP SELF-NESTING: every built-in name inside its own argument number 0..3 (fillers 1 / a b c d / empty / 0), "
                 "%s levels deep, innermost a probe call or the number of the position itself, written directly, through a chain of "
                 "distinct templates and through a template handing its argument on - every call is written once, so the budget is "
                 "%d x calls + 4 template-call dispatches (a function that expands an argument twice costs 2^depth); PREPROCESSOR TAGS: "
                 "<noinclude / </noinclude / <NOINCLUDE (same for includeonly, onlyinclude) followed by runs of %s words (one blank, two "
                 "blanks, newlines between them), attribute-like words, blanks, newlines, mixed white space, the tag repeated, and then the end of the text / "
                 "a line with more markup / a lone slash / > / /> / >doc</tag>, as the page and as an included template, under a %.0f s CPU cap "
                 "(longer runs of a shape only after the shorter ones passed); HTML-ISH FRAGMENTS: `<TAG ATTR=\"RUN TAIL` with TAG in "
                 "span div p strong b (and, at position 0 with a third of the names, the tags the scanner protects: ref pre gallery source "
                 "imagemap nowiki), ATTR in class= style= title=' or none, RUN = %s blanks / newlines / mixed white space / words separated "
                 "by one or two blanks%s INSIDE the attribute value, TAIL = last word + closing quote and bracket / closed at once / no "
                 "quote / end of text / last word `error`, as argument 0, 1, 2%s of EVERY built-in name: screening pages of a third of the "
                 "names each (one call per name), and every screening page that does not come back as a string within the CPU and size "
                 "limits is taken apart into its single calls, which are what is reported (group testing; %d screening pages); "
                 "#time formats x dates, random #expr token strings, the corpus and %d directed probes "
                 "(regressions of the fixed defects, 300 KB names/arguments, deep nesting). Of several failing inputs with one fingerprint the "
                 "smallest (input size, then recursion limit) is reported. "
                 "distinct = distinct (site, page text, templates, limit); non-trivial = the called name resolves to a registered function"
                 % (len(ALL_VALUES), "64 sampled shape triples per name" if tier == "quick" else "all 729 shape triples per name",
                    len(NUMERIC_VALUES), REC_SLACK, "/".join(map(str, NEST_DEPTHS["quick" if tier == "quick" else "thorough"])), NEST_SLACK,
                    "/".join(map(str, PP_SIZES["quick" if tier == "quick" else "thorough"])), PP_CPU_LIMIT,
                    "/".join(str(k) for k, _e in MK_SIZES["quick" if tier == "quick" else "thorough"]),
                    "" if tier == "quick" else " or newlines, tabs, words beginning with `error`, attribute-like words",
                    "" if tier == "quick" else " (also as 1=.., in the pipe form and produced by a nested #if)",
                    sum(1 for c in calls if c.get("family") == "mk-screen"),
                    sum(1 for c in calls if c["form"] == "directed"))),
        "trusted": ["search oracle limits: CPU <= %.1fs + %.0e s/char, output <= %d + %d chars/char of input (calibrated on the unchanged tree)"
                    % (CPU_BASE, CPU_PER_CHAR, OUT_BASE, OUT_PER_CHAR),
                    "DictDB (mwlib's own in-memory wikidb) as the template store of the search; time.process_time as the cost measure"],
        "assumptions": ["search: the self-nesting family is judged by the dispatch count only: k nested calls that each return a multiple of "
                        "their argument ({{#tag:NAME}} writes NAME twice) legitimately produce c^k characters, each call being proportional to "
                        "its own argument" + ("" if IFEXIST_EMPTY else "; OPEN DEFECT excluded until fixes/C03-ifexist-empty-title-named-lookup.diff is "
                        "in /repo (VERIF_C03_IFEXIST_EMPTY=1 includes it): #ifexist nested in its own third argument with an empty title and "
                        "the innermost value 3"),
                        "search: cost is measured as CPU time of one Expander construction + expandTemplates() call in a CPython 3.12 worker",
                        "search: the work of the recursion family is measured as the number of expander.resolver(name, args) calls (one per Template "
                        "node evaluation, nodes.pyx:262) through a counting stand-in installed on the Expander instance by the harness"],
        "distribution": distribution,
        "coverage": {"search_exhaustive_part": "all registered names x {0,1} arguments x all %d argument values; 2 arguments x all 81 shape pairs%s"
                                               % (len(ALL_VALUES), "" if tier == "quick" else " x all value pairs; 3 arguments x all 729 shape triples")},
    }


def _account(run, c, r, n, verdict, dist, covered, hits=None):
    nontrivial = c["fkind"] != "unimpl"
    run.count((c["lang"], c.get("text") or json.dumps(c.get("text_rle") or c.get("mk")), c["pagename"], len(c["db"])), nontrivial=nontrivial)
    dist["arity"][c["arity"] if c["arity"] >= 0 else {-2: "recursion", -3: "preprocessor-tags", -4: "self-nesting", -5: "markup-screening-page"}.get(c["arity"], "directed")] += 1
    for s in c["shapes"]:
        dist["shape"][s] += 1
    dist["kind"][c["fkind"]] += 1
    dist["form"][c["form"]] += 1
    dist["lang"][c["lang"]] += 1
    dist["input_size"]["<=32" if n <= 32 else "<=256" if n <= 256 else "<=8K" if n <= 8192 else "<=64K" if n <= 65536 else ">64K"] += 1
    covered[c["canon"]] += 1
    if r["outcome"] == "ok":
        o = r.get("out", "")
        k = "ok:empty" if r["outlen"] == 0 else "ok:error-span" if 'class="error"' in o else "ok:text"
    else:
        k = r["outcome"] + ":" + r.get("exc", "").split(":", 1)[0]
    dist["outcome"][k] += 1
    if verdict is not None:
        fp, what = verdict
        tpl = ""
        if c["arity"] in (-2, -3, -4) and c["db"] is not DB_DEFAULT and c["db"] != DB_DEFAULT:
            tj = json.dumps(c["db"], ensure_ascii=False)
            tpl = "  templates %s" % (tj if len(tj) <= 400 else tj[:300] + "...(%d chars)" % len(tj))
        # a CPU-time finding that exceeds its limit by less than a factor of two may not reproduce on a faster machine: among
        # the failing inputs of one root cause the clear ones (no result at all / more than twice the limit) come first
        weak = 1 if (fp.startswith("time:") and r["outcome"] == "ok" and r["cpu"] < 2 * limits(n)[0]) else 0
        item = ((weak, n, c.get("limit") or 0, c["id"]), "%s%s  [site %s]  %s" % (short(c), tpl, c["lang"], what), replay_obj(c, fp))
        if hits is None:
            run.hit(fp, item[1], item[2])
        else:
            hits.setdefault(fp, []).append(item)
    elif (c["arity"] in (2, 3) and r["outcome"] == "ok" and r["outlen"] and len(run.samples) < 6 and c["fkind"] in ("magic", "node", "alias")
          and c["id"] % 997 == 0):
        run.sample({"site": c["lang"], "wikitext": short(c), "output": r.get("out", "")[:80], "cpu_s": r["cpu"]})


def replay(r, src):
    c = {"id": 0, "lang": r.get("lang", "en"), "pagename": r.get("pagename", PAGENAME), "db": r.get("db") or {},
         "canon": r.get("function", "?"), "fkind": "replay", "arity": r.get("arity", -1), "shapes": r.get("shapes", []), "form": "replay"}
    for k in ("limit", "budget", "cpu_limit", "family"):
        if k in r:
            c[k] = r[k]
    if "text_rle" in r:
        c["text_rle"] = r["text_rle"]
    else:
        c["text"] = r["text"]
    text, db = materialize(c)
    n = input_size(text, db)
    print("site=%s pagename=%r recursion_limit=%s templates=%s" % (c["lang"], c["pagename"], c.get("limit", 100),
                                                                 {k: (v if len(v) <= 200 else "<%d chars>" % len(v)) for k, v in db.items()}))
    print("wikitext (%d chars): %s" % (len(text), short(c)))
    best = None
    for attempt in range(2):
        _rc, _out, res = run_shard([c], src, 600)
        res = res.get(0)
        if res is None:
            print("worker gave no answer:\n" + _out[-1000:])
            return 1
        print("outcome: %s" % json.dumps(res))
        v = classify(c, res, n)
        if v is None:
            best = None
            break
        best = v
        if not v[0].startswith("time:") or res["outcome"] != "ok":
            break
    if best is None:
        print("not reproduced (limits: cpu %.2fs, output %d chars)" % limits(n))
        return 0
    print("REPRODUCED %s: %s" % best)
    return 1
