"""C01 driver of the real parser (imports mwlib from the snapshot via PYTHONPATH).

modes (argv[1]):
  search : stdin JSON lines {"id","raw","lang","db"} -> stdout JSON lines
           {"id","ok","exc","frame","msg","cpu","n","nexp"}
  min    : stdin one JSON object {"raw","lang","db","fp","cpu_limit"}; delta-debugs `raw` (and the template
           universe) in-process keeping the fingerprint; stdout one JSON object {"raw","db","steps"}
The oracle itself (returns an Article, no exception, CPU budget) is applied here for exceptions/hard
timeouts and in vt/props/c01.py for the calibrated c*n^2 budget."""
import json
import logging
import os
import signal
import sys
import time
import traceback
import warnings

warnings.simplefilter("ignore")
logging.disable(logging.CRITICAL)

from mwlib.parser import expander  # noqa: E402,F401  (must precede templ.evaluate)
from mwlib.parser.expander import DictDB  # noqa: E402
from mwlib.parser import nodes  # noqa: E402
from mwlib.parser.refine import uparser, compat  # noqa: E402

try:
    import qs.log
    qs.log.root_logger.disabled = True
except Exception:
    pass



class UniverseDB:
    """A wiki database with the production interface the parser uses (nuwiki.NuWiki/Adapt:
    get_siteinfo, nshandler, normalize_and_get_page -> Page|None, normalize_and_get_image_path,
    get_url, select), backed by a dict of pages.  mwlib's own DictDB is a test double that lacks
    get_url/select/nshandler, so it is not used: missing methods there are not parser defects."""

    def __init__(self, pages, lang):
        from mwlib.network.siteinfo import get_siteinfo
        from mwlib.core import nshandling
        from mwlib.parser.templ.misc import Page
        self._Page = Page
        self.siteinfo = get_siteinfo(lang) or get_siteinfo("en")
        self.nshandler = nshandling.NsHandler(self.siteinfo)
        self.pages = {}
        for k, v in pages.items():
            self.pages[self.nshandler.get_fqname(k, defaultns=10)] = v

    def get_siteinfo(self):
        return self.siteinfo

    def normalize_and_get_page(self, name, defaultns=0):
        fq = self.nshandler.get_fqname(name, defaultns=defaultns)
        raw = self.pages.get(fq)
        return None if raw is None else self._Page(raw)

    def normalize_and_get_image_path(self, name):
        return None

    def get_url(self, name, revision=None, defaultns=0):
        import urllib.parse
        fq = self.nshandler.get_fqname(name, defaultns=defaultns)
        return "http://x.example/index.php?title=" + urllib.parse.quote(fq.replace(" ", "_").encode("utf-8"), safe=":/@")

    def select(self, start, end):
        return sorted(t for t in self.pages if start <= t <= end)


# CPU budget of the oracle: C0 + C*n^2 seconds, n = max(len(raw), len(expanded text), total length of the wiki database's
# page names and texts: the template pages are part of the input).  Calibrated on the
# unchanged tree (60 000 inputs up to 5 000 chars: max 0.6 s, i.e. > 5x headroom everywhere).
# Wiki database term: the nested parses that pages of the database cause through re-parsing tags are bounded in number by the code
# (core.MAX_PARSE_DEPTH, core.MAX_NESTED_WORK = 5000 depth-weighted parses), each costs time linear in the page text it parses, so the work is
# <= const * (database size) with a large constant: BUDGET_DB seconds per database character (measured worst 0.005 s/char on cycles that
# re-parse themselves 2-3 times per level; unbounded growth such as 2^40 nested parses exceeds any such budget).
BUDGET_C0 = 3.0
BUDGET_C = 2e-6
BUDGET_DB = 0.02


def budget(n, ndb=None):
    if ndb is None:
        ndb = _ndb[0]
    return BUDGET_C0 + BUDGET_C * n * n + BUDGET_DB * ndb


class OverBudget(BaseException):
    def __init__(self, where):
        BaseException.__init__(self, where)
        self.where = where


from vt.harness import c01_gen  # noqa: E402  (pure Python: the syntactic nesting measure)

# The strip markers of a process carry a per-process random string (uniq.Uniquifier.random_string, 8 bytes of os.urandom drawn when the
# first Uniquifier is made and kept for the life of the process).  Text pasted from rendered output of the same render server can therefore
# contain markers with the RIGHT random string.  The search fixes that string (the state of a process whose urandom returned these bytes),
# so that the generated inputs can contain markers that are in the table of the current parse as well as markers that are not.
from mwlib.utils import uniq as _uniq  # noqa: E402
_uniq.Uniquifier.random_string = c01_gen.UNIQ_RAND

_seen_len = [0]
_seen_nest = [0]
_t0 = [0.0]
_nraw = [0]
_ndb = [0]
_scale = [1.0]


def _where(frame):
    """Which refinement pass / handler was running: qualnames of the first two frames below the outermost
    CombinedParser.__call__ (else below parse_string)."""
    stack = []
    while frame is not None:
        stack.append(frame)
        frame = frame.f_back
    stack.reverse()
    names = [(f.f_code.co_filename.replace("\\", "/"), f.f_code.co_qualname) for f in stack]
    start = None
    for i, (fn, q) in enumerate(names):
        if q == "CombinedParser.__call__":
            start = i + 1
            break
    if start is None:
        for i, (fn, q) in enumerate(names):
            if q == "parse_string" and "/mwlib/" in fn:
                start = i + 1
                break
    if start is None:
        return "?"
    sel = [q for fn, q in names[start:] if "/mwlib/" in fn and q != "_recording_parse_txt"][:2]
    return "/".join(sel) or "?"


def _alarm(_sig, frame):
    used = time.process_time() - _t0[0]
    b = budget(max(_nraw[0], _seen_len[0], _ndb[0])) * _scale[0]
    if used < b:
        signal.setitimer(signal.ITIMER_VIRTUAL, max(b - used, 0.01))
        return
    raise OverBudget(_where(frame))


signal.signal(signal.SIGVTALRM, _alarm)

_orig_parse_txt = compat.parse_txt


def _recording_parse_txt(raw, **kw):
    # outermost call only (tag extensions re-enter compat.parse_txt)
    if _seen_len[0] < 0:
        _seen_len[0] = len(raw)
        try:
            _seen_nest[0] = c01_gen.nesting(raw)      # nesting of the text after template expansion
        except RecursionError:
            _seen_nest[0] = 10 ** 6
    return _orig_parse_txt(raw, **kw)


compat.parse_txt = _recording_parse_txt


def innermost_mwlib_frame(tb, recursion=False):
    frames = []
    cur = tb
    while cur is not None:
        co = cur.tb_frame.f_code
        fn = co.co_filename.replace("\\", "/")
        if "/mwlib/" in fn:
            frames.append((fn.split("/mwlib/", 1)[1], co.co_name, co.co_qualname))
        cur = cur.tb_next
    if not frames:
        return "?"
    if recursion:
        # the innermost frame of a RecursionError is arbitrary: name the recursion cycle instead
        cnt = {}
        for _f, _n, q in frames:
            cnt[q] = cnt.get(q, 0) + 1
        cyc = sorted(q for q, k in cnt.items() if k >= 5)
        return "cycle(" + ",".join(cyc[:8]) + ")"
    return "%s:%s" % (frames[-1][0], frames[-1][1])


CALL_DEPTH = int(os.environ.get("C01_CALL_DEPTH", "40"))


def _frame_depth():
    f = sys._getframe()
    n = 0
    while f is not None:
        n += 1
        f = f.f_back
    return n


def _call_at_depth(fn):
    """Call fn() with exactly CALL_DEPTH Python frames below it.  Where a stack overflow strikes decides whether it escapes (some layers of the
    parser catch RecursionError and degrade, others do not), so the outcome of a deeply recursing input depends on the caller's stack depth: the
    search worker, the minimiser and the replay must all call the parser at the same depth to agree on an input."""
    if _frame_depth() >= CALL_DEPTH:
        return fn()
    return _call_at_depth(fn)


def run_one(raw, lang, db, scale=1.0):
    """The property's oracle on one input: parse_string returns an Article, raises nothing, and stays within
    the CPU budget (the run is aborted as soon as the budget is exceeded)."""
    wikidb = None if db is None else UniverseDB(db, lang)
    _seen_len[0] = -1
    _seen_nest[0] = 0
    _nraw[0] = len(raw)
    # the wiki database is part of the input: its text counts for the length the budget is a polynomial of
    _ndb[0] = sum(len(k) + len(v) for k, v in db.items()) if db else 0
    _scale[0] = scale
    _t0[0] = t0 = time.process_time()
    res = {"ok": True, "exc": None, "frame": None, "msg": None}
    signal.setitimer(signal.ITIMER_VIRTUAL, budget(max(len(raw), _ndb[0])) * scale)
    try:
        try:
            art = _call_at_depth(lambda: uparser.parse_string(title="t", raw=raw, wikidb=wikidb, lang=lang))
            if not isinstance(art, nodes.Article):
                res.update(ok=False, exc="NotAnArticle", frame="uparser.py:parse_string", msg=type(art).__name__)
        finally:
            signal.setitimer(signal.ITIMER_VIRTUAL, 0)
    except OverBudget as e:
        n = max(len(raw), _seen_len[0], _ndb[0])
        res.update(ok=False, exc="OverBudget", frame=e.where, msg="cpu > %.1f s = %.1f + %.0e*n^2 + %.2f*ndb, n=%d ndb=%d" % (budget(n) * scale, BUDGET_C0, BUDGET_C, BUDGET_DB, n, _ndb[0]))
    except BaseException as e:  # noqa: B902  (SystemExit/KeyboardInterrupt from the parser are failures too)
        signal.setitimer(signal.ITIMER_VIRTUAL, 0)
        res.update(ok=False, exc=type(e).__name__, frame=innermost_mwlib_frame(e.__traceback__, isinstance(e, RecursionError)), msg=str(e)[:200])
    res["cpu"] = round(time.process_time() - t0, 5)
    if res["exc"] is None and res["cpu"] > budget(max(len(raw), _seen_len[0], _ndb[0])) * scale:
        # the alarm was raised inside code that swallowed it (or could not be delivered): the budget is exceeded all the same
        n = max(len(raw), _seen_len[0], _ndb[0])
        res.update(ok=False, exc="OverBudget", frame="?", msg="cpu %.1f s > %.1f s budget, n=%d" % (res["cpu"], budget(n) * scale, n))
    res["budget"] = round(budget(max(len(raw), _seen_len[0], _ndb[0])) * scale, 3)
    res["ndb"] = _ndb[0]
    res["n"] = len(raw)
    res["nexp"] = max(_seen_len[0], _ndb[0], 0)
    res["nest"] = max(_seen_nest[0], c01_gen.nesting(raw))
    return res


def fingerprint(res):
    if res["exc"] == "RecursionError" and res.get("nest", 0) > c01_gen.MAXDEPTH:
        # the property excludes markup nested deeper than 40 (it exhausts the interpreter stack by construction); templates can
        # build such nesting out of a shallow raw text (e.g. "*#:;{{nosuch}}" repeated: the empty expansions glue the prefixes)
        res["excluded"] = "nesting %d > %d after template expansion" % (res["nest"], c01_gen.MAXDEPTH)
        return None
    if res["exc"] == "OverBudget":
        return "slow@%s" % res["frame"]
    if res["exc"]:
        return "exc:%s@%s" % (res["exc"], res["frame"])
    return None


def ddmin(s, test, max_steps=600):
    """classic delta debugging on a string; `test(s)` is True when the failure is kept"""
    n = 2
    steps = 0
    while len(s) >= 2 and steps < max_steps:
        chunk = max(1, len(s) // n)
        reduced = False
        i = 0
        while i < len(s):
            cand = s[:i] + s[i + chunk:]
            steps += 1
            if cand and test(cand):
                s = cand
                n = max(n - 1, 2)
                reduced = True
                break
            i += chunk
        if not reduced:
            if chunk == 1:
                break
            n = min(len(s), n * 2)
    return s, steps


def minimise(obj):
    lang, db, fp = obj["lang"], obj["db"], obj["fp"]

    def keeps(raw, dbx):
        return fingerprint(run_one(raw, lang, dbx)) == fp
    raw = obj["raw"]
    if not keeps(raw, db):
        return {"raw": raw, "db": db, "steps": 0, "reproduced": False}
    if db:
        if keeps(raw, None):
            db = None
        elif keeps(raw, {}):
            db = {}
        else:
            for k in list(db):
                d2 = {a: b for a, b in db.items() if a != k}
                if keeps(raw, d2):
                    db = d2
    if fp.startswith("slow@"):
        # every probe of a slow input costs a full budget: few, coarse steps only
        raw, steps = ddmin(raw, lambda s: keeps(s, db), max_steps=8)
    else:
        costly = "RecursionError" in fp          # a probe that reproduces it unwinds a full interpreter stack (~1 s)
        raw, steps = ddmin(raw, lambda s: keeps(s, db), max_steps=40 if costly else 600)
        if db:
            # the pages of the wiki database are part of the input: shrink their texts as well
            for k in sorted(db):
                def keeps_val(v, k=k):
                    d2 = dict(db)
                    d2[k] = v
                    return keeps(raw, d2)
                if len(db[k]) >= 2:
                    v, st = ddmin(db[k], keeps_val, max_steps=16 if costly else 150)
                    steps += st
                    db = dict(db)
                    db[k] = v
    return {"raw": raw, "db": db, "steps": steps, "reproduced": True}


SLOW_CUT = 10


def main():
    mode = sys.argv[1] if len(sys.argv) > 1 else "search"
    if mode == "min":
        obj = json.loads(sys.stdin.read())
        print(json.dumps(minimise(obj)))
        return
    slow_seen = {}
    cut = False
    for line in sys.stdin:
        line = line.strip()
        if not line:
            continue
        c = json.loads(line)
        if cut:
            # >= SLOW_CUT inputs of this worker ran into the same over-budget fingerprint (each costs a full budget): the rest is reported as
            # skipped; the check records that the search was cut short (fail-closed) next to the concrete hits
            sys.stdout.write(json.dumps({"ok": True, "id": c["id"], "skipped": True, "exc": None, "frame": None, "msg": None, "cpu": 0.0,
                                         "n": len(c["raw"]), "nexp": 0, "fp": None}) + "\n")
            continue
        r = run_one(c["raw"], c["lang"], c.get("db"))
        r["id"] = c["id"]
        r["fp"] = fingerprint(r)
        if r["fp"] and r["fp"].startswith("slow@"):
            slow_seen[r["fp"]] = slow_seen.get(r["fp"], 0) + 1
            if slow_seen[r["fp"]] >= SLOW_CUT:
                cut = True
        sys.stdout.write(json.dumps(r) + "\n")
        sys.stdout.flush()


if __name__ == "__main__":
    main()
