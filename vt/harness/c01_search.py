"""C01 driver of the real parser (imports mwlib from the snapshot via PYTHONPATH).

modes (argv[1]):
  search : stdin JSON lines {"id","raw","lang","db"} -> stdout JSON lines
           {"id","ok","exc","frame","msg","cpu","n","nexp"}
  min    : stdin one JSON object {"raw","lang","db","fp","cpu_limit"}; delta-debugs `raw` (and the template
           universe) in-process keeping the fingerprint; stdout one JSON object {"raw","db","steps"}
The oracle itself (returns an Article, no exception, CPU budget) is applied here for exceptions/hard
timeouts and in vt/props/c01.py for the calibrated c*n^2 budget."""
import json
import logging
import os
import signal
import sys
import time
import traceback
import warnings

warnings.simplefilter("ignore")
logging.disable(logging.CRITICAL)

from mwlib.parser import expander  # noqa: E402,F401  (must precede templ.evaluate)
from mwlib.parser.expander import DictDB  # noqa: E402
from mwlib.parser import nodes  # noqa: E402
from mwlib.parser.refine import uparser, compat  # noqa: E402

try:
    import qs.log
    qs.log.root_logger.disabled = True
except Exception:
    pass



class UniverseDB:
    """A wiki database with the production interface the parser uses (nuwiki.NuWiki/Adapt:
    get_siteinfo, nshandler, normalize_and_get_page -> Page|None, normalize_and_get_image_path,
    get_url, select), backed by a dict of pages.  mwlib's own DictDB is a test double that lacks
    get_url/select/nshandler, so it is not used: missing methods there are not parser defects."""

    def __init__(self, pages, lang):
        from mwlib.network.siteinfo import get_siteinfo
        from mwlib.core import nshandling
        from mwlib.parser.templ.misc import Page
        self._Page = Page
        self.siteinfo = get_siteinfo(lang) or get_siteinfo("en")
        self.nshandler = nshandling.NsHandler(self.siteinfo)
        self.pages = {}
        for k, v in pages.items():
            self.pages[self.nshandler.get_fqname(k, defaultns=10)] = v

    def get_siteinfo(self):
        return self.siteinfo

    def normalize_and_get_page(self, name, defaultns=0):
        fq = self.nshandler.get_fqname(name, defaultns=defaultns)
        raw = self.pages.get(fq)
        return None if raw is None else self._Page(raw)

    def normalize_and_get_image_path(self, name):
        return None

    def get_url(self, name, revision=None, defaultns=0):
        import urllib.parse
        fq = self.nshandler.get_fqname(name, defaultns=defaultns)
        return "http://x.example/index.php?title=" + urllib.parse.quote(fq.replace(" ", "_").encode("utf-8"), safe=":/@")

    def select(self, start, end):
        return sorted(t for t in self.pages if start <= t <= end)


HARD_CPU = float(os.environ.get("C01_HARD_CPU", "20"))


class HardTimeout(BaseException):
    pass


def _alarm(_sig, _frm):
    raise HardTimeout()


signal.signal(signal.SIGVTALRM, _alarm)

_seen_len = [0]
_orig_parse_txt = compat.parse_txt


def _recording_parse_txt(raw, **kw):
    # outermost call only (tag extensions re-enter compat.parse_txt)
    if _seen_len[0] < 0:
        _seen_len[0] = len(raw)
    return _orig_parse_txt(raw, **kw)


compat.parse_txt = _recording_parse_txt


def innermost_mwlib_frame(tb):
    fr = None
    for f in traceback.extract_tb(tb):
        fn = f.filename.replace("\\", "/")
        if "/mwlib/" in fn:
            fr = "%s:%s" % (fn.split("/mwlib/", 1)[1], f.name)
    return fr or "?"


def run_one(raw, lang, db, hard=HARD_CPU):
    wikidb = None if db is None else UniverseDB(db, lang)
    _seen_len[0] = -1
    t0 = time.process_time()
    res = {"ok": True, "exc": None, "frame": None, "msg": None}
    signal.setitimer(signal.ITIMER_VIRTUAL, hard)
    try:
        try:
            art = uparser.parse_string(title="t", raw=raw, wikidb=wikidb, lang=lang)
            if not isinstance(art, nodes.Article):
                res.update(ok=False, exc="NotAnArticle", frame="uparser.py:parse_string", msg=type(art).__name__)
        finally:
            signal.setitimer(signal.ITIMER_VIRTUAL, 0)
    except HardTimeout:
        res.update(ok=False, exc="HardTimeout", frame="-", msg="cpu > %.0fs" % hard)
    except BaseException as e:  # noqa: B902  (SystemExit/KeyboardInterrupt from the parser are failures too)
        signal.setitimer(signal.ITIMER_VIRTUAL, 0)
        res.update(ok=False, exc=type(e).__name__, frame=innermost_mwlib_frame(e.__traceback__), msg=str(e)[:200])
    res["cpu"] = round(time.process_time() - t0, 5)
    res["n"] = len(raw)
    res["nexp"] = max(_seen_len[0], 0)
    return res


def fingerprint(res, budget_fp=None):
    if res["exc"]:
        return "exc:%s@%s" % (res["exc"], res["frame"])
    return None


def ddmin(s, test):
    """classic delta debugging on a string; `test(s)` is True when the failure is kept"""
    n = 2
    steps = 0
    while len(s) >= 2 and steps < 400:
        chunk = max(1, len(s) // n)
        reduced = False
        i = 0
        while i < len(s):
            cand = s[:i] + s[i + chunk:]
            steps += 1
            if cand and test(cand):
                s = cand
                n = max(n - 1, 2)
                reduced = True
                break
            i += chunk
        if not reduced:
            if chunk == 1:
                break
            n = min(len(s), n * 2)
    return s, steps


def minimise(obj):
    lang, db, fp = obj["lang"], obj["db"], obj["fp"]
    cpu_limit = obj.get("cpu_limit")

    def keeps(raw, dbx):
        r = run_one(raw, lang, dbx, hard=(cpu_limit * 4 if cpu_limit else HARD_CPU))
        if fp.startswith("exc:"):
            return fingerprint(r) == fp
        return r["cpu"] > cpu_limit          # slow inputs: keep it over the same absolute limit
    raw = obj["raw"]
    if not keeps(raw, db):
        return {"raw": raw, "db": db, "steps": 0, "reproduced": False}
    steps = 0
    if db:
        if keeps(raw, None):
            db = None
        elif keeps(raw, {}):
            db = {}
        else:
            for k in list(db):
                d2 = {a: b for a, b in db.items() if a != k}
                if keeps(raw, d2):
                    db = d2
    if fp.startswith("exc:"):
        raw, steps = ddmin(raw, lambda s: keeps(s, db))
    return {"raw": raw, "db": db, "steps": steps, "reproduced": True}


def main():
    mode = sys.argv[1] if len(sys.argv) > 1 else "search"
    if mode == "min":
        obj = json.loads(sys.stdin.read())
        print(json.dumps(minimise(obj)))
        return
    for line in sys.stdin:
        line = line.strip()
        if not line:
            continue
        c = json.loads(line)
        r = run_one(c["raw"], c["lang"], c.get("db"))
        r["id"] = c["id"]
        sys.stdout.write(json.dumps(r) + "\n")
        sys.stdout.flush()


if __name__ == "__main__":
    main()
