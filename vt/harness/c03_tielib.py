"""C03, flatten part: tie of the extracted budgeted flatten model (coq/C03/Model.v) against Expander on small
universes enumerated exhaustively (cycles, missing templates, unbalanced braces), for several recursion limits.
The model runs on the trees produced by the REAL parser (dumped by the worker), so this ties evaluate.pyx/nodes.pyx;
the monitor is the property's own oracle: expandTemplates returned a str (no exception, no crash).
Runs in the checker process: must not import mwlib."""
import concurrent.futures
import itertools
import json
import subprocess

from vt import core

A9 = ["{{", "}}", "{{{", "}}}", "|", "=", "a", "b", "1"]
A6 = ["{{", "}}", "{{{", "}}}", "|", "a"]

# call-graph shapes on <= 3 templates
UNIVERSES = {
    "self": {"a": "x{{a}}"},
    "self-arg": {"a": "{{{1}}}{{a|{{{1}}}1}}"},
    "mutual": {"a": "{{b}}", "b": "y{{a|1}}"},
    "diamond": {"a": "{{b}}{{c|a}}", "b": "{{c}}1", "c": "{{{1|z}}}"},
    "missing": {"a": "<{{b}}{{{1}}}>"},
    "unbalanced": {"a": "{{{1}}", "b": "{{a|}}}{{"},
    "params": {"a": "<{{{1}}}{{{b|d}}}>", "b": "{{a|{{{1}}}|b=2}}"},
    "param-named-by-param": {"a": "{{{{{{1}}}}}}", "b": "{{a|1|1=b}}"},
    "name-from-arg": {"a": "{{{{{1}}}|a}}", "b": "1"},
    "empty": {"a": "", "b": "{{a}}{{a|}}"},
}
# directed probes (monitor only; the model has unbounded strings): value doubling through self-inclusion
BLOWUP = [("A{{a|x}}B", {"a": "{{{1}}}{{a|{{{1}}}{{{1}}}}}"}), ("A{{a|k=x}}B", {"a": "{{{k}}}{{a|k={{{k}}}{{{k}}}}}"})]
PAGES_FOR_TEMPLATE_ENUM = ["{{a}}", "{{a|b|1}}", "x{{b}}y{{a|1=b}}"]

# cyclic universes whose recursive call occurs twice inside a LAZILY fetched argument of a magic word / parser function
# dispatched by MagicResolver (the OCaml driver has the matching strategies: #ifexpr on integer conditions, lc, padleft,
# #iferror); %s = the recursive text.  TemplateRecursion raised while the argument is flattened must pass through the call.
LAZY_RECS = [("x{{a}}{{a}}", {}), ("x{{b}}{{b}}", {"b": "y{{a}}"}), ("{{a|{{{1}}}1}}{{a}}", {})]
LAZY_BODIES = ["{{#ifexpr:1|%s}}", "{{#ifexpr: 0 |n|%s}}", "{{#ifexpr:0|%s|n}}", "{{#ifexpr:|%s|m}}", "{{#ifexpr|1|%s}}", "{{#ifexpr|0|n|%s}}",
               "{{#ifexpr|{{{1|1}}}|%s|n}}", "{{#IfExpr:7|<%s>}}",
               "{{lc:%s}}", "{{lc|%s}}", "x{{LC|A%sB}}", "{{lc}}%s",
               "{{padleft:%s|5}}", "{{padleft:x|5|%s}}", "{{padleft:x|k|%s}}", "{{padleft|%s|3|ab}}", "{{padleft:x|{{{1|4}}}|%s}}",
               "{{padleft:x|9|}}{{padleft:ab|-3}}%s",
               "{{#iferror:1|%s}}", "{{#iferror:1|2|%s}}", "{{#iferror:%s|2}}", "{{#iferror|%s|2|3}}"]
LAZY_PAGES = ["s {{a}} e", "{{a}}{{a|1}}", "[{{a|0}}]"]
LAZY_LIMITS = [100, 0, 1, 2, 3, 5, 8, 13, 21]
LAZY_CPU_LIMIT = 1.5


def build():
    return core.ocaml_build("c03", "C03/Extract.v", "driver.ml")


def strings(alpha, maxlen):
    for n in range(0, maxlen + 1):
        for t in itertools.product(alpha, repeat=n):
            yield "".join(t)


def gen_cases(rng, tier):
    cases = []

    def add(page, db, limit, group, nomodel=False, cpu_limit=None):
        cases.append({"id": len(cases), "page": page, "db": db, "limit": limit, "group": group, "nomodel": nomodel})
        if cpu_limit is not None:
            cases[-1]["cpu_limit"] = cpu_limit
    for rec, extra in LAZY_RECS:
        for body in LAZY_BODIES:
            db = {"a": body % rec}
            db.update(extra)
            for pg in LAZY_PAGES:
                for lim in (LAZY_LIMITS if tier != "quick" or pg == LAZY_PAGES[0] else [rng.choice(LAZY_LIMITS[1:])]):
                    add(pg, db, lim, "lazy-magic-recursion", cpu_limit=LAZY_CPU_LIMIT)
    for pg, db in BLOWUP:
        add(pg, db, 100, "directed-blowup", nomodel=True)
    l9 = 4 if tier == "quick" else 5
    pages9 = sorted(set(strings(A9, l9)))
    for uname, db in UNIVERSES.items():
        for pg in pages9:
            add(pg, db, 100, "pages-A9<=%d:%s" % (l9, uname))
    # length-6 pages over the 6-token alphabet on the recursive universes
    l6 = 6
    pages6 = sorted(set(strings(A6, l6)))
    unis6 = ["mutual"] if tier == "quick" else list(UNIVERSES)
    set9 = set(pages9)
    for uname in unis6:
        for pg in pages6:
            if "{{" in pg and "}}" in pg and pg not in set9:
                add(pg, UNIVERSES[uname], 100, "pages-A6<=6:%s" % uname)
    # template texts enumerated
    for t in pages9:
        for pg in (PAGES_FOR_TEMPLATE_ENUM[1:] if tier == "quick" else PAGES_FOR_TEMPLATE_ENUM):
            add(pg, {"a": t, "b": "{{a|b}}"}, 100, "template-text-A9<=%d" % l9)
    # small recursion limits on a sample / everything (thorough)
    small = [c for c in cases if ("{{" in c["page"])]
    small = rng.sample(small, min(len(small), 5000 if tier == "quick" else 300000))
    for c in small:
        add(c["page"], c["db"], rng.choice([0, 1, 2, 3, 5, 8]), "small-limit")
    return cases


def enc_str(s):
    return " ".join([str(len(s))] + [str(ord(c)) for c in s])


def run_real(src, cases, nproc):
    def shard(part):
        inp = "".join(json.dumps({k: c[k] for k in ("id", "page", "db", "limit", "cpu_limit") if k in c}) + "\n" for c in part)
        rc, out = core.run_impl("vt.harness.c04_tpl", ["400"], src=src, input=inp, timeout=3000)
        got = {}
        for ln in out.splitlines():
            if ln.startswith("{"):
                try:
                    o = json.loads(ln)
                except ValueError:
                    continue
                got[o["id"]] = o
        if len(got) != len(part):
            raise RuntimeError("c04_tpl worker rc=%s answered %d/%d: %s" % (rc, len(got), len(part), out[-600:]))
        return got
    k = max(1, min(nproc, (len(cases) + 499) // 500))
    parts = [cases[i::k] for i in range(k)]
    res = {}
    with concurrent.futures.ThreadPoolExecutor(k) as ex:
        for got in ex.map(shard, parts):
            res.update(got)
    return res


def run_model(exe, cases, real, nproc):
    def shard(part):
        lines = ["D 2 " + enc_str("#standard") + " " + enc_str("#default"), "G " + enc_str("thispage")]
        idx = []
        last_db = None
        for c in part:
            r = real[c["id"]]
            if c.get("nomodel"):
                continue
            if "crash" in r or "harness_error" in r or r["page_node"].startswith("X") or any(v.startswith("X") for v in r["tpl_nodes"].values()):
                continue
            key = json.dumps(c["db"], sort_keys=True)
            if key != last_db:
                lines.append("C")
                for name, dump in r["tpl_nodes"].items():
                    lines.append("U %s %s" % (enc_str(name.lower().replace(" ", "_")), dump))
                last_db = key
            lines.append("X %d %s" % (c["limit"], r["page_node"]))
            idx.append(c["id"])
        p = subprocess.run([exe], input="\n".join(lines) + "\n", capture_output=True, text=True, timeout=3000)
        outs = p.stdout.splitlines()
        if p.returncode != 0 or len(outs) != len(idx):
            raise RuntimeError("c03 model driver rc=%s got %d/%d lines: %s" % (p.returncode, len(outs), len(idx), p.stderr[-400:]))
        res = {}
        for i, ln in zip(idx, outs):
            if ln.startswith("OK"):
                toks = ln.split()
                res[i] = ("ok", "".join(chr(int(t)) for t in toks[2:]))
            elif ln.startswith("UNSUP"):
                res[i] = ("unsup", ln)
            else:
                res[i] = ("err", ln)
        return res
    k = max(1, min(nproc, (len(cases) + 1999) // 2000))
    # keep cases with the same db contiguous
    order = sorted(cases, key=lambda c: (json.dumps(c["db"], sort_keys=True), c["id"]))
    size = (len(order) + k - 1) // k
    parts = [order[i:i + size] for i in range(0, len(order), size)]
    res = {}
    with concurrent.futures.ThreadPoolExecutor(k) as ex:
        for got in ex.map(shard, parts):
            res.update(got)
    return res


def run(run, src):
    exe = build()
    cases = gen_cases(run.rng, run.tier)
    real = run_real(src, cases, min(16, core.NPROC))
    model = run_model(exe, cases, real, min(16, core.NPROC))
    dis = []
    groups = {}
    stats = {"ok": 0, "exc": 0, "crash": 0, "unsupported-node": 0, "excluded-dup-or-computed-arg-names": 0,
             "model-top-level-empty-or-dropped": 0, "magic-outside-the-driver's-sub-domain": 0}
    for c in cases:
        r = real[c["id"]]
        g = groups.setdefault(c["group"].split(":")[0], {"cases": 0})
        g["cases"] += 1
        nontriv = "{{" in c["page"] and ("}}" in c["page"])
        run.count((c["page"], tuple(sorted(c["db"].items())), c["limit"]), nontrivial=nontriv)
        replay = {"kind": "universe", "page": c["page"], "db": c["db"], "limit": c["limit"]}
        if "cpu_limit" in c:
            replay["cpu_limit"] = c["cpu_limit"]
        # monitor: a str comes back, no exception, no crash
        if "crash" in r:
            stats["crash"] += 1
            run.hit("crash:flatten:" + c["page"], "interpreter crashed (%s) expanding %r with templates %r" % (r["crash"], c["page"], c["db"]), replay)
            continue
        if "harness_error" in r:
            stats["exc"] += 1
            run.hit("exc:" + r["harness_error"].split(":")[0] + ":parse:" + c["page"],
                    "Expander()/parse raised %s on %r with templates %r" % (r["harness_error"], c["page"], c["db"]), replay)
            continue
        if r["exc"] is not None:
            stats["exc"] += 1
            run.hit("exc:" + r["exc"].split(":")[0] + (":argument-doubling" if c["group"] == "directed-blowup" else
                                                       ":recursion-in-magic-argument" if c["group"] == "lazy-magic-recursion" else ":expand"),
                    "expandTemplates raised %s on %r with templates %r (recursion_limit=%s)" % (r["exc"], c["page"], c["db"], c["limit"]), replay)
            continue
        stats["ok"] += 1
        if c.get("nomodel"):
            continue
        if c["id"] not in model:
            stats["unsupported-node"] += 1
            continue
        kind, val = model[c["id"]]
        if kind == "unsup":
            stats["magic-outside-the-driver's-sub-domain"] += 1
            continue
        if kind != "ok" or val != r["out"]:
            if r.get("flags"):
                stats["excluded-dup-or-computed-arg-names"] += 1
                continue
            dis.append("page %r templates %r limit %s: real %r model %r" % (c["page"], c["db"], c["limit"], r["out"], val))
        if len(run.samples) < 6 and c["limit"] == 100 and len(c["page"]) >= 8 and r["out"] not in ("", c["page"]):
            run.sample({"page": c["page"], "templates": c["db"], "expanded": r["out"]})
    run.tie("C03 Expander.expandTemplates vs budgeted flatten model (real parse trees; recursion limits 100 and 0..8)", len(cases), dis)
    l9 = 4 if run.tier == "quick" else 5
    return {
        "rule": ("universes: 10 call-graph shapes on <=3 templates (self, self with argument, mutual, diamond, missing, unbalanced braces, "
                 "parameters, parameter named by parameter, name from argument, empty) x ALL page texts of <=%d tokens over "
                 "{{{ }} {{{ }}} | = a b 1} and of <=6 tokens over {{{ }} {{{ }}} | a}; ALL template texts of <=%d tokens under 3 calling pages; "
                 "(quick: the 6-token pages only on the mutual-recursion universe and only pages with both brace runs; thorough: on all universes); "
                 "a sample of them (5 000 quick / 300 000 thorough) also under recursion limits 0..8; plus %d cyclic universes whose recursive call "
                 "occurs twice inside a lazily fetched argument of #ifexpr / lc / padleft / #iferror (colon and pipe forms, taken and untaken "
                 "branches, self / mutual / argument-passing recursion) x 3 pages x recursion limits 100, 0, 1, 2, 3, 5, 8, 13, 21 (quick: all limits on the first page, one sampled small limit on the others) under a %gs CPU "
                 "limit; non-trivial = page contains an opening and a closing brace run"
                 % (l9, l9, len(LAZY_RECS) * len(LAZY_BODIES), LAZY_CPU_LIMIT)),
        "trusted": ["hand-written Gallina model of evaluate.flatten / ArgumentList.get / insert_implicit_newlines / nodes.pyx (coq/C03/Model.v), tied by this run",
                    "templ.parser (its output is fed to the model)"],
        "assumptions": ["ArgumentList's incremental name scan is modelled statelessly (first matching argument): calls with duplicate or computed argument names are compared but excluded from the tie when they differ (counted)",
                        "magic words and parser functions are abstract strategies over their lazily fetched arguments in the model (mreq); the tie instantiates #ifexpr (integer conditions), lc (ASCII), padleft (plain decimal widths), #iferror (no '<') in ocaml/c03/driver.ml; totality and size of every other magic is the search's job",
                        "the interpreter-level RecursionError path (swallowed per template) is not modelled"],
        "distribution": {"flatten_tie": {"groups": groups, "outcomes": stats}},
        "coverage": {"exhaustive_part": "all page texts of <=%d tokens over a 9-token alphabet and <=6 tokens over a 6-token alphabet on fixed universes" % l9},
    }


def replay(r, src):
    inp = json.dumps({"id": 0, "page": r["page"], "db": r["db"], "limit": r.get("limit"), "cpu_limit": r.get("cpu_limit")}) + "\n"
    rc, out = core.run_impl("vt.harness.c04_tpl", [], src=src, input=inp, timeout=300)
    o = None
    for ln in out.splitlines():
        if ln.startswith("{"):
            o = json.loads(ln)
    print("page      :", repr(r["page"]))
    print("templates :", r["db"], "recursion_limit:", r.get("limit"))
    if o is None:
        print("no answer from the worker:", out[-500:])
        return 1
    print("real      :", {k: o.get(k) for k in ("out", "exc", "crash", "harness_error")})
    bad = "crash" in o or "harness_error" in o or o.get("exc") is not None
    print("REPRODUCED" if bad else "not reproduced")
    return 1 if bad else 0
