"""Shared by C16/C17/C18: history text format, random generator, snapshot comparison, result
aggregation, delta-debugging.  Pure Python (imports nothing from qs) so that both the check
(parent) and the harness (child, snapshot on PYTHONPATH) can import it.

History = ops joined by ';'.  Op text (same as ocaml/c16/driver.ml):
  A ch prio name|- tmo|-   P c chs|-   L   F c jid res|- err|-   K c jids|-   T dt   D c   C k
  W c jid   I jid   S jid v   X   R (pickle round trip of the db = restart; C18 only)
  U dt (clock advances, no handletimeouts sweep)   Y jids (rpc_qdrop)   G (watchdog: dropdead)
  WL c jid,jid,.. (rpc_qwait with several ids)
jid = a<n> (integer id chosen by the server) | n<k> (client supplied string id chr(65+k))."""
import json

ERR_CODES = {None: None, "": 0, "timeout": 1, "killed": 2, "boom": 3}
ERR_STR = {None: None, 0: "", 1: "timeout", 2: "killed", 3: "boom"}

# snapshot fields compared model-vs-implementation, per property
FIELDS = {
    "C16": ["count", "now", "jobs", "ids", "queues", "waiters", "conns", "tq", "nchoices"],
    "C17": ["count", "now", "jobs", "ids", "queues", "waiters", "conns", "tq", "nchoices", "cnt"],
    "C18": ["count", "now", "jobs", "ids", "queues", "waiters", "conns", "tq", "nchoices"],
}
# monitors whose firing is a violation of the property
# bb_handout / bb_lost: black-box conservation (RPC return values only: no job is returned by two pulls unless its holder
# disconnected; at the end of every history all connections disconnect and a fresh worker must receive every unfinished job once)
# rpc_error: a request of the alphabet is answered by an internal error
MONITORS = {
    "C16": {"conservation", "addressable", "handout", "bb_handout", "bb_lost", "rpc_error"},
    "C17": {"eligible", "never_done", "min_first", "final", "wait", "readd", "counters", "rpc_error"},
    "C18": {"restore", "conservation", "addressable", "eligible", "never_done", "min_first", "final", "wait", "id_reuse", "timeout",
            "bb_handout", "bb_lost", "rpc_error"},
}


def split_history(h):
    return [o.strip() for o in h.split(";") if o.strip()]


def gen_history(rng, maxlen=12, prop="C16", restarts=0):
    """One random history (list of op strings).  Light state tracking to aim ids at existing jobs."""
    n = rng.randint(3, maxlen)
    ops = []
    adds = 0
    names = []
    gone = set()
    chans = [0, 1] if rng.random() < 0.8 else [0, 1, 2]
    workers = [1, 2, 3] if rng.random() < 0.85 else [1, 2, 3, 4]

    def some_jid():
        c = []
        if adds:
            c += ["a%d" % rng.randint(1, adds + 1)] * 2
        c += ["n%d" % k for k in names]
        if not c or rng.random() < 0.05:
            c.append(rng.choice(["a9", "n3"]))
        return rng.choice(c)

    r0 = rng.random()
    if r0 < 0.08:
        return gen_drop_scenario(rng, maxlen)
    if r0 < 0.14:
        return gen_readd_scenario(rng, maxlen)
    if r0 < (0.24 if prop == "C17" else 0.18):
        return gen_multiwait_scenario(rng, maxlen)
    w = {"A": 24, "P": 22, "L": 16, "F": 9, "K": 6, "T": 6, "D": 8, "C": 3, "W": 2, "I": 1, "S": 1, "X": 2, "U": 2, "Y": 1, "WL": 1}
    if prop == "C17":
        w.update({"W": 5, "WL": 4, "X": 5, "F": 12, "K": 8, "T": 8, "S": 2, "U": 5})
    if prop == "C18":
        # C18 needs rpc_qdrop and the watchdog to reach "the newest job has left id2job before the save"
        w.update({"W": 4, "WL": 2, "F": 12, "T": 7, "U": 4, "Y": 5, "G": 4})
    kinds = list(w)
    weights = [w[k] for k in kinds]
    for _ in range(n):
        k = rng.choices(kinds, weights)[0]
        if k == "A":
            ch = rng.choice(chans)
            prio = rng.choice([0, 0, 1, 2])
            r = rng.random()
            if r < 0.55:
                name = "-"
            else:
                name = rng.choice([0, 1, 2])
                if name not in names:
                    names.append(name)
            tmo = rng.choice(["-", "-", "5", "0", "10"])
            ops.append("A %d %d %s %s" % (ch, prio, name, tmo))
            adds += 1
        elif k == "P":
            chs = rng.choice([[], [0], [1], [0, 1], [1, 0], [rng.choice(chans)]])
            ops.append("P %d %s" % (rng.choice(workers), ",".join(map(str, chs)) or "-"))
        elif k == "L":
            ops.append("L")
        elif k == "F":
            ops.append("F %d %s %s %s" % (rng.choice(workers), some_jid(), rng.choice(["-", "7", "8"]),
                                           rng.choice(["-", "-", "-", "0", "3", "3", "1", "2"])))
        elif k == "K":
            js = [some_jid() for _ in range(rng.choice([1, 1, 2]))]
            ops.append("K %d %s" % (rng.choice(workers + [5]), ",".join(js)))
        elif k == "T":
            ops.append("T %d" % rng.choice([0, 1, 5, 6, 10, 130]))
        elif k == "D":
            c = rng.choice(workers)
            gone.add(c)
            ops.append("D %d" % c)
        elif k == "C":
            ops.append("C %d" % rng.choice([0, 1, 1, 2, 5]))
        elif k == "W":
            # also on a connection whose disconnect is pending, and on a job that has just finished while the notifier of
            # an earlier (possibly dying) waiter is pending: since a8ac510 waitjobs does not wait on a finished job
            # (before, D 1;A 1 1 - 0;W 1 a1;K 5 a1;W 5 a1;L left connection 5 blocked forever)
            ops.append("W %d %s" % (rng.choice(workers + [5, 6]), some_jid()))
        elif k == "WL":
            # rpc_qwait with 2-3 ids: finished / unfinished / unknown / repeated ids mixed
            ops.append("WL %d %s" % (rng.choice(workers + [5, 6]), ",".join(some_jid() for _ in range(rng.choice([2, 2, 3])))))
        elif k == "I":
            ops.append("I %s" % some_jid())
        elif k == "S":
            ops.append("S %s %d" % (some_jid(), rng.choice([1, 2])))
        elif k == "X":
            ops.append("X")
        elif k == "U":
            ops.append("U %d" % rng.choice([1, 6, 6, 11, 11, 4000]))
        elif k == "Y":
            ops.append("Y %s" % ",".join(some_jid() for _ in range(rng.choice([1, 1, 2]))))
        elif k == "G":
            ops.append("G")
    for _ in range(restarts):
        ops.insert(rng.randint(0, len(ops)), "R")
    return ops


def gen_readd_scenario(rng, maxlen=12):
    """kill + re-add of a client id while the killed object is still referenced: by a worker's running_jobs, by a blocked
    puller's mailbox or by a heap; then disconnects / pulls / a second kill + re-add.  (jobs.py push: an id whose job was
    killed may be added again = a NEW object with a new serial; everything that still holds the old object must leave
    the new one alone, and (priority, serial) order must use the new serial.)"""
    name = rng.choice([0, 1])
    jid = "n%d" % name
    ch = rng.choice([0, 1])
    w1, w2, w3 = rng.sample([1, 2, 3, 4], 3)
    ops = []
    if rng.random() < 0.4:
        ops.append("A %d %d - -" % (ch, rng.choice([0, 1])))                       # an older job on the same channel
    first = rng.random()
    if first < 0.5:
        ops += ["A %d %d %d %s" % (ch, rng.choice([0, 1]), name, rng.choice(["-", "5"])), "P %d %s" % (w1, rng.choice(["-", str(ch)]))]
    else:
        ops += ["P %d %s" % (w1, rng.choice(["-", str(ch)])), "A %d %d %d -" % (ch, rng.choice([0, 1]), name)]
        if rng.random() < 0.6:
            ops.append("L")
    ops.append("K 7 %s" % jid)
    ops.append("A %d %d %d %s" % (rng.choice([ch, ch, 1 - ch]), rng.choice([0, 1]), name, rng.choice(["-", "-", "5"])))
    tail = []
    if rng.random() < 0.5:
        tail.append("P %d %s" % (w2, rng.choice(["-", str(ch)])))                  # another worker takes the fresh job
    if rng.random() < 0.4:
        tail.append("A %d %d - -" % (ch, rng.choice([0, 1])))
    tail.append("D %d" % w1)
    tail.append("L")
    tail += ["P %d -" % w3, "P %d -" % rng.choice([5, 6])]
    if rng.random() < 0.3:
        tail += ["K 7 %s" % jid, "A %d 0 %d -" % (ch, name), "P 8 -"]
    ops += tail
    noise = ["L", "T 6", "X", "I %s" % jid, "F %d %s 7 -" % (w2, jid), "F %d %s 7 -" % (w1, jid), "D %d" % w2, "W 9 %s" % jid, "C 1", "G", "U 4000"]
    for _ in range(rng.choice([0, 0, 1, 2])):
        if len(ops) >= maxlen + 2:
            break
        ops.insert(rng.randint(2, len(ops)), rng.choice(noise))
    return ops


def gen_multiwait_scenario(rng, maxlen=12):
    """rpc_qwait([a, b, ..]) with 2-3 ids (jobs.py waitjobs): 2-3 jobs (client ids and server-chosen ids), some finished before
    the wait starts; one or two clients wait on lists of them (different orders, overlapping); WHILE they are blocked the
    ids change their meaning or vanish - kill + re-add of a client id, rpc_qdrop + another client's wait that collects the job,
    the watchdog, timeouts - and the jobs are finished one after the other in any order, with or without loop turns in between.
    A client is released exactly when all job objects its ids named WHEN THE REQUEST ARRIVED are finished, and receives them."""
    njobs = rng.choice([2, 2, 3])
    ch = rng.choice([0, 1])
    jids = []
    ops = []
    named = {}
    for k in range(njobs):
        if rng.random() < 0.6:
            nm = rng.choice([x for x in (0, 1, 2) if "n%d" % x not in jids])
            jids.append("n%d" % nm)
            named["n%d" % nm] = nm
            ops.append("A %d %d %d %s" % (rng.choice([ch, ch, 1 - ch]), rng.choice([0, 0, 1]), nm, rng.choice(["-", "-", "5"])))
        else:
            jids.append("a%d" % (k + 1))
            ops.append("A %d %d - %s" % (rng.choice([ch, ch, 1 - ch]), rng.choice([0, 0, 1]), rng.choice(["-", "-", "5"])))

    def fin(j):
        return rng.choice(["F 7 %s 7 -" % j, "F 7 %s 7 -" % j, "K 7 %s" % j, "F 7 %s - 3" % j, "F 7 %s - 0" % j])

    if rng.random() < 0.3:
        ops.append(fin(rng.choice(jids)))                         # one job is finished before anybody waits
    clients = rng.sample([5, 6, 8], rng.choice([1, 1, 2]))
    for c in clients:
        l = list(jids)
        rng.shuffle(l)
        l = l[:rng.choice([2, 2, 3])]
        if rng.random() < 0.1:
            l.append(rng.choice(l))
        ops.append("WL %d %s" % (c, ",".join(l)))
    # while they wait: ids change meaning / vanish
    mid = []
    for _ in range(rng.choice([1, 1, 2])):
        j = rng.choice(jids)
        r = rng.random()
        if j in named and r < 0.45:
            mid += ["K 7 %s" % j, "A %d %d %d -" % (rng.choice([0, 1]), rng.choice([0, 1]), named[j])]     # kill + re-add
        elif r < 0.75:
            mid += [fin(j), "Y %s" % j, "W 9 %s" % j]             # finished, dropped, collected by another client
        elif r < 0.85:
            mid += [fin(j), "U 4000", "G", "U 4000", "G"]         # finished and forgotten by the watchdog
        else:
            mid += [rng.choice(["T 6", "T 130", "Y %s" % j, "D %d" % rng.choice(clients)])]
    ops += mid
    rest = list(jids)
    rng.shuffle(rest)
    for j in rest:
        if rng.random() < 0.85:
            ops.append(rng.choice([fin(j), fin(j), "P 1 -", "T 130"]))
        if rng.random() < 0.4:
            ops.append("L")
    ops.append("L")
    if rng.random() < 0.3:
        ops += [rng.choice(["WL 4 %s" % ",".join(rng.sample(jids, 2)), "X", "I %s" % rng.choice(jids), "G"]), "L"]
    noise = ["L", "X", "C 1", "P %d -" % rng.choice([1, 2]), "D %d" % rng.choice(clients), "A %d 0 - -" % ch, "I %s" % rng.choice(jids), "U 6"]
    for _ in range(rng.choice([0, 0, 1, 2])):
        if len(ops) >= maxlen + 4:
            break
        ops.insert(rng.randint(njobs, len(ops)), rng.choice(noise))
    return ops


def gen_drop_scenario(rng, maxlen=12):
    """rpc_qdrop + waits (jobs.py waitjobs, b6f8314): several clients wait on one job that is dropped; the id is killed
    and re-added while the waiters are still blocked, or forgotten by the watchdog; the waits are released by a finish,
    a kill or a timeout; noise ops in between.  Model and real code must agree and the monitors must stay silent:
    every waiter gets the finished job, the re-added job stays registered under its id."""
    named = rng.random() < 0.7
    name = rng.choice([0, 1]) if named else "-"
    jid = "n%d" % name if named else "a1"
    ch = rng.choice([0, 1])
    core = ["A %d %d %s %s" % (ch, rng.choice([0, 1]), name, rng.choice(["-", "5"]))]
    waiters = rng.sample([1, 2, 3, 5, 6], rng.choice([1, 2, 2, 3]))
    mid = ["W %d %s" % (c, jid) for c in waiters] + ["Y %s" % jid]
    if rng.random() < 0.3:
        mid.append("P %d %s" % (rng.choice([1, 2, 3, 4]), rng.choice(["-", str(ch)])))
    rng.shuffle(mid)
    core += mid
    r = rng.random()
    if named and r < 0.45:
        core += ["K 7 %s" % jid, "A %d %d %s -" % (rng.choice([0, 1]), rng.choice([0, 1]), name)]     # kill + re-add
    elif r < 0.6:
        core += ["K 7 %s" % jid]
    elif r < 0.8:
        core += ["F 7 %s %s %s" % (jid, rng.choice(["-", "7"]), rng.choice(["-", "3", "0"]))]
    else:
        core += [rng.choice(["T 6", "T 130", "U 4000"])]
    tail = ["L"]
    if rng.random() < 0.5:
        tail += [rng.choice(["W %d %s" % (rng.choice([5, 6, 8]), jid), "I %s" % jid, "G", "X", "P 4 -", "Y %s" % jid,
                             "K 7 %s" % jid, "F 7 %s 8 -" % jid, "D %d" % rng.choice(waiters)]
                            + (["A %d 0 %s -" % (ch, name)] * 3 if named else [])), "L"]
    ops = core + tail
    noise = ["L", "D %d" % rng.choice(waiters), "G", "U 4000", "T 6", "P %d -" % rng.choice([1, 2, 3, 4]), "A %d 0 - -" % ch,
             "Y %s" % jid, "W %d %s" % (rng.choice([5, 6, 8]), jid), "C 1", "X", "I %s" % jid]
    for _ in range(rng.choice([0, 0, 1, 2, 3])):
        if len(ops) >= maxlen:
            break
        ops.insert(rng.randint(1, len(ops)), rng.choice(noise))
    return ops


def canon_out(out):
    """Release order among clients waiting on the same job within one event-loop turn is not
    observable (each released client just returns): sort runs of `released` items."""
    res = []
    run = []

    def flush():
        res.extend(sorted(run, key=lambda x: (x[2][0], x[1])))
        del run[:]

    for o in out:
        if o and o[0] == "released":
            run.append(list(o))
        else:
            flush()
            res.append(o)
    flush()
    return res


def compare(prop, k, op, impl, model):
    """Return a disagreement string or None.  impl/model = {"out":[...], "snap":{...}}."""
    io, mo = canon_out(impl["out"]), canon_out(model["out"])
    if prop != "C17":
        # counters are outside C16's and C18's statements (C18: "up to counters")
        io = [o[:3] if o and o[0] == "stats" else o for o in io]
        mo = [o[:3] if o and o[0] == "stats" else o for o in mo]
    if io != mo:
        return "op %d (%s): return value differs: impl %s model %s" % (k, op, json.dumps(io), json.dumps(mo))
    for f in FIELDS[prop]:
        if f not in impl["snap"]:
            continue            # an internal the harness could not read on this code: reported as `unreadable` (broken tie), not compared
        a, b = impl["snap"].get(f), model["snap"].get(f)
        if f == "conns":
            if any(c[4] is None for c in a):
                # running_jobs not readable as {id: job object}: compare the connection states without it
                a = [c[:4] for c in a if c[1] != "idle"]
                b = [c[:4] for c in b if c[1] != "idle"]
            if any(c[1] == "wait" and c[3] is None for c in a):
                a = [c[:3] + [None] + c[4:] if c[1] == "wait" else c for c in a]
                b = [c[:3] + [None] + c[4:] if c[1] == "wait" else c for c in b]
            if a != b:
                return "op %d (%s): snapshot field %s differs: impl %s model %s" % (k, op, f, json.dumps(a), json.dumps(b))
            continue
        if impl["snap"].get(f) != model["snap"].get(f):
            return "op %d (%s): snapshot field %s differs: impl %s model %s" % (
                k, op, f, json.dumps(impl["snap"].get(f)), json.dumps(model["snap"].get(f)))
    return None


def ddmin(ops, fails):
    """Delta debugging on the op list: `fails(list_of_candidate_op_lists) -> list of bool`."""
    cur = list(ops)
    changed = True
    while changed and len(cur) > 1:
        changed = False
        # truncate first (a failure at op k needs no later op)
        cands = [cur[:i] + cur[i + 1:] for i in range(len(cur))]
        res = fails(cands)
        for c, bad in zip(cands, res):
            if bad:
                cur = c
                changed = True
                break
    return cur
