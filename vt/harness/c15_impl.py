"""Runs nuwiki.extractall of the snapshot on generated zips inside a sandbox directory.
stdin: JSON lines {"id", "dst", "names"}; argv[1] = sandbox base.  stdout: JSON lines."""
import io
import json
import os
import shutil
import sys
import zipfile
import warnings

warnings.simplefilter("ignore")
from mwlib.core import nuwiki  # noqa: E402  (from the snapshot via PYTHONPATH)

base = sys.argv[1]
DEPTH = ["p1", "p2", "p3", "p4", "p5", "p6"]


def walk(root):
    """path -> file content (None for directories)"""
    res = {}
    for d, dirs, files in os.walk(root):
        for x in dirs:
            p = os.path.join(d, x)
            if os.path.islink(p):
                res[p] = b"<symlink> " + os.readlink(p).encode("utf8", "surrogateescape")
            else:
                res[p + "/"] = None
        for x in files:
            p = os.path.join(d, x)
            if os.path.islink(p):
                res[p] = b"<symlink> " + os.readlink(p).encode("utf8", "surrogateescape")
                continue
            try:
                res[p] = open(p, "rb").read()
            except OSError:
                res[p] = b"<unreadable>"
    return res


def make_zip(stepno, names):
    """A member name of the form 'NAME->TARGET' becomes a symlink-mode entry (unix mode S_IFLNK in external_attr, as
    written by `zip -y`) named NAME whose data is TARGET; the code under test has to treat it like any other member."""
    buf = io.BytesIO()
    with zipfile.ZipFile(buf, "w") as z:
        for i, n in enumerate(names):
            if "->" in n and not n.endswith("/"):
                n, target = n.split("->", 1)
                zi = zipfile.ZipInfo(n)
                zi.create_system = 3
                zi.external_attr = (0o120777) << 16
                z.writestr(zi, target.encode("utf8", "surrogatepass"))
                continue
            zi = zipfile.ZipInfo(n)
            z.writestr(zi, b"" if n.endswith("/") else b"step%d-data%d" % (stepno, i))
    return zipfile.ZipFile(io.BytesIO(buf.getvalue()))


def run_step(root, cwd, stepno, dst, names, zf=None):
    if zf is None:
        zf = make_zip(stepno, names)
    read_names = [zi.filename for zi in zf.infolist()]
    before = walk(root)
    ops = []
    real_makedirs = os.makedirs
    real_open = open
    depth = [0]

    def rec_makedirs(p, *a, **k):
        # os.makedirs recurses through the module global: record the outermost call only
        if depth[0] == 0:
            ops.append(["M", p])
        depth[0] += 1
        try:
            return real_makedirs(p, *a, **k)
        finally:
            depth[0] -= 1

    def rec_open(p, mode="r", *a, **k):
        if "w" in mode or "a" in mode or "+" in mode:
            ops.append(["W", p])
        return real_open(p, mode, *a, **k)

    os.chdir(cwd)
    os.makedirs = rec_makedirs
    nuwiki.open = rec_open
    outcome = "DONE"
    try:
        nuwiki.extractall(zf, dst)
    except RuntimeError as e:
        outcome = "REJ"
    except ValueError as e:
        outcome = "BADDEST"
    except OSError as e:
        outcome = "OSERROR " + type(e).__name__
    except Exception as e:
        outcome = "EXC " + type(e).__name__
    finally:
        os.makedirs = real_makedirs
        del nuwiki.open
        os.chdir(base)
    after = walk(root)
    changed = sorted(p for p in after if p not in before or before[p] != after[p])
    gone = sorted(p for p in before if p not in after)
    D = os.path.realpath(os.path.join(cwd, dst))
    outside = [p for p in changed if not (os.path.realpath(p.rstrip("/")) + "/").startswith(D + "/")] + gone
    # a symbolic link created by the extraction that leads outside the destination is an escape hatch for later members
    for p in changed:
        if os.path.islink(p.rstrip("/")):
            tgt = os.path.realpath(p.rstrip("/"))
            if not (tgt + "/").startswith(D + "/") and p not in outside:
                outside.append(p)
    # a file re-written with identical bytes leaves no trace in the snapshot diff: also judge the paths the code
    # opened for writing / asked makedirs for
    for kind, p in ops:
        rp = os.path.realpath(p)
        if not (rp + "/").startswith(D + "/") and not (kind == "M" and rp == D) and p not in outside:
            outside.append(p)
    return {"dst": dst, "names": names, "read_names": read_names, "ops": ops, "outcome": outcome,
            "new": changed, "outside": outside, "D": D}


def run_case(case):
    root = os.path.join(base, "case")
    shutil.rmtree(root, ignore_errors=True)
    cwd = os.path.join(root, *DEPTH, "w")
    os.makedirs(os.path.join(cwd, "out"))
    os.makedirs(os.path.join(cwd, "out2"))
    os.makedirs(os.path.join(cwd, "ou"))
    steps = case.get("steps") or [{"dst": case["dst"], "names": case["names"]}]
    res = []
    shared = None
    for k, st in enumerate(steps):
        names = [n.replace("$ROOT", root).replace("$CWD", cwd) for n in st["names"]]
        dst = st["dst"].replace("$ROOT", root).replace("$CWD", cwd)
        if case.get("reuse_zip"):
            # ONE ZipFile object extracted several times (state kept on the object must not leak between calls)
            if shared is None:
                shared = make_zip(0, names)
            res.append(run_step(root, cwd, k, dst, names, zf=shared))
        else:
            res.append(run_step(root, cwd, k, dst, names))
    return {"id": case["id"], "cwd": cwd, "steps": res}


for line in sys.stdin:
    line = line.strip()
    if not line:
        continue
    case = json.loads(line)
    try:
        res = run_case(case)
    except Exception as e:  # harness problem
        res = {"id": case["id"], "harness_error": "%s: %s" % (type(e).__name__, e)}
    sys.stdout.write(json.dumps(res) + "\n")
sys.stdout.flush()
