"""C14 driver: writes a collection with the snapshot's FsOutput, zips it with buildzip.zip_dir, opens the
archive with wiki.make_wiki (-> nuwiki.Adapt(zipfile) -> NuWiki) and answers page/image queries.

argv[1] = scratch base directory (exists).  stdin: JSON lines (one case per line, see run_case);
stdout: exactly one JSON line per case (starts with '{', ensure_ascii), in order, flushed.
Everything else the real code prints (NuWiki warnings, log lines) is discarded: fd 1 and fd 2 point to
/dev/null while cases run; only a fatal harness error is reported (as a non-JSON line) on the saved stdout.
"""
import copy
import gc
import io
import json
import logging
import os
import shutil
import sys
import tempfile
import threading
import traceback
import warnings

warnings.simplefilter("ignore")
logging.disable(logging.CRITICAL)

# ---- keep the real stdout for the result lines only --------------------------------------------
_OUT = io.TextIOWrapper(os.fdopen(os.dup(1), "wb"), encoding="ascii", newline="\n")
_null = os.open(os.devnull, os.O_WRONLY)
sys.stdout.flush()
sys.stderr.flush()
os.dup2(_null, 1)
os.dup2(_null, 2)
sys.stdout = open(os.devnull, "w")
sys.stderr = sys.stdout

import mwlib.parser.expander  # noqa: E402,F401  (must come before anything importing templ.evaluate)
from mwlib.apps import buildzip  # noqa: E402
from mwlib.core import wiki  # noqa: E402
from mwlib.network import fetch  # noqa: E402
from mwlib.network.siteinfo import get_siteinfo  # noqa: E402

try:  # qs may have been pulled in by one of the imports above
    if "qs" in sys.modules or "qs.log" in sys.modules:
        import qs.log
        qs.log.root_logger.disabled = True
except Exception:
    pass
logging.disable(logging.CRITICAL)

NFO = {"format": "nuwiki", "base_url": "http://x.invalid/w/", "script_extension": ".php"}


class RecFile:
    """Proxy for FsOutput.revfile: records every string passed to write(), delegates everything."""

    def __init__(self, real, log):
        self._real = real
        self._log = log

    def write(self, s):
        self._log.append(s)
        return self._real.write(s)

    def close(self):
        return self._real.close()

    def __getattr__(self, name):
        return getattr(self._real, name)


def exc_str(e):
    return "%s: %s" % (type(e).__name__, e)


def page_answer(page):
    if page is None:
        return None
    return {"title": page.title, "ns": page.ns, "revid": getattr(page, "revid", None),
            "expanded": getattr(page, "expanded", 0), "text": page.rawtext}


def image_answer(path):
    if path is None:
        return None
    with open(path, "rb") as f:
        data = f.read().decode("utf8")
    return {"link": os.path.basename(path), "target": os.path.basename(os.path.realpath(path)), "data": data}


def close_quietly(obj):
    try:
        if obj is not None:
            obj.close()
    except Exception:
        pass


def do_write(case, d, res):
    fsout = fetch.FsOutput(d)
    try:
        fsout.nfo = dict(NFO)
        fsout.revfile = RecFile(fsout.revfile, res["writes"])
        for op in case.get("ops", []):
            if op["op"] == "pages":
                pages = {}
                for i, p in enumerate(op["pages"]):
                    page = {"title": p["title"], "ns": p["ns"]}
                    if p.get("revisions") is not None:
                        revs = []
                        for r in p["revisions"]:
                            rev = {}
                            if r.get("revid") is not None:
                                rev["revid"] = r["revid"]
                            rev["*"] = r["text"]
                            revs.append(rev)
                        page["revisions"] = revs
                    pages[str(i)] = page
                fsout.write_pages({"pages": pages})
            elif op["op"] == "expanded":
                fsout.write_expanded_page(op["title"], op["ns"], op["text"], revid=op.get("revid"))
            else:
                raise ValueError("unknown op %r" % (op["op"],))
        fsout.write_siteinfo(copy.deepcopy(get_siteinfo(case["site"])))
        fsout.write_redirects(case.get("redirects") or {})
        for im in case.get("images", []):
            p = fsout.get_imagepath(im["title"])
            res["image_files"].append(os.path.basename(p))
            with open(p, "wb") as f:
                f.write(im["data"].encode("utf8"))
        fsout.close()
    finally:
        # release the revision file and the three SqliteDict storages (one thread + one connection each)
        rf = getattr(fsout, "revfile", None)
        if rf is not None:
            close_quietly(rf)
        for name in ("authors", "html", "imageinfo"):
            close_quietly(getattr(fsout, name, None))
        try:
            with open(os.path.join(d, "revisions-1.txt"), "rb") as f:
                res["revfile"] = f.read().decode("utf8")
        except Exception:
            pass
        try:
            idir = os.path.join(d, "images")
            res["images_dir"] = sorted(x for x in os.listdir(idir) if os.path.isfile(os.path.join(idir, x))
                                       and not os.path.islink(os.path.join(idir, x)))
        except Exception:
            pass


def do_queries(case, env, res):
    w = env.wiki
    # the redirect matcher of the opened archive, as an oracle for the model: text -> fully qualified target
    texts = []
    for op in case.get("ops", []):
        if op["op"] == "pages":
            for p in op["pages"]:
                for r in (p.get("revisions") or []):
                    texts.append(r["text"])
        else:
            texts.append(op["text"])
    rtab = {}
    nh = w.nshandler
    for t in texts:
        if t and t not in rtab:
            target = nh.redirect_matcher(t)
            if target:
                rtab[t] = nh.get_fqname(target)
    res["redirect_of"] = [[k, v] for k, v in rtab.items()]
    for q in case.get("queries", []):
        try:
            kind = q["q"]
            if kind == "get":
                ans = page_answer(w.get_page(q["name"], revision=q.get("revision")))
            elif kind == "norm":
                ans = page_answer(w.normalize_and_get_page(q["name"], q["dns"]))
            elif kind == "image":
                ans = image_answer(env.images.get_disk_path(q["name"]))
            elif kind == "fq":
                # the key under which NuWiki / the expander / the fetcher file a title (same handler as every other lookup)
                ans = {"fq": w.nshandler.get_fqname(q["name"], defaultns=q["dns"])}
            else:
                raise ValueError("unknown query %r" % (kind,))
        except Exception as e:
            ans = {"exc": exc_str(e)}
        res["answers"].append(ans)


def release_env(env):
    """Close the SqliteDict readers NuWiki opened (authors/html/imageinfo)."""
    nw = getattr(getattr(env, "wiki", None), "nuwiki", None)
    if nw is None:
        return
    for name in ("authors", "html", "imageinfo"):
        db = getattr(getattr(nw, name, None), "database", None)
        close_quietly(db)


def run_case(base, case):
    res = {"id": case["id"], "error": None, "writes": [], "revfile": None, "image_files": [], "images_dir": [],
           "answers": [], "redirect_of": []}
    cdir = os.path.join(base, "c%d" % case["id"])
    if os.path.lexists(cdir):
        raise RuntimeError("case directory exists: %s" % cdir)
    tdir = os.path.join(cdir, "tmp")
    os.makedirs(tdir)
    # every mkdtemp of the real code (nuwiki.Adapt) lands below the case directory, so that removing the case
    # directory removes it even when opening the archive fails half-way
    tempfile.tempdir = tdir
    env = None
    try:
        d = os.path.join(cdir, "nuwiki")
        phase = "write"
        try:
            do_write(case, d, res)
            phase = "zip"
            zip_path = buildzip.zip_dir(d, output=os.path.join(cdir, "coll.zip"))
            phase = "open"
            env = wiki.make_wiki(zip_path)
            phase = "query"
            do_queries(case, env, res)
        except Exception as e:
            res["error"] = "%s: %s" % (phase, exc_str(e))
    finally:
        tempfile.tempdir = base
        if env is not None:
            release_env(env)
            p = getattr(getattr(env.wiki, "nuwiki", None), "path", None)
            if p and os.path.realpath(p).startswith(os.path.realpath(base) + os.sep):
                shutil.rmtree(p, ignore_errors=True)
        env = None
        shutil.rmtree(cdir, ignore_errors=True)
    return res


def stray_threads():
    return [t for t in threading.enumerate() if t is not threading.main_thread() and t.is_alive()]


def main():
    base = os.path.abspath(sys.argv[1])
    tempfile.tempdir = base
    n = 0
    for raw in sys.stdin.buffer:
        raw = raw.strip()
        if not raw:
            continue
        case = json.loads(raw.decode("utf8"))
        try:
            res = run_case(base, case)
        except Exception as e:  # harness problem, not a finding
            res = {"id": case.get("id"), "harness_error": exc_str(e), "trace": traceback.format_exc()[-1500:]}
        n += 1
        if stray_threads():
            # a storage whose owner died in a half-built object: collect it (SqliteDict.__del__ closes)
            gc.collect()
            for t in stray_threads():
                if type(t).__name__ == "SqliteMultithread":
                    try:
                        t.close(force=True)
                    except Exception:
                        pass
                    t.join(5)
        _OUT.write(json.dumps(res, ensure_ascii=True) + "\n")
        _OUT.flush()


if __name__ == "__main__":
    try:
        main()
    except BaseException as e:  # noqa: BLE001
        if not isinstance(e, SystemExit):
            _OUT.write("HARNESS FATAL " + traceback.format_exc().encode("ascii", "backslashreplace").decode("ascii"))
            _OUT.flush()
            os._exit(3)
        raise
