"""Token protocol of ocaml/c19/driver.ml <-> Python values (pure helpers, no mwlib import)."""
import json
import unicodedata

ABSENT = "<absent>"          # marker for a key that is not in a dict


def enc_str(s):
    return "%d %s" % (len(s), " ".join(str(ord(c)) for c in s)) if s else "0"


def enc_val(v):
    if v is None:
        return "N"
    if v is True:
        return "T"
    if v is False:
        return "F"
    if isinstance(v, int):
        return "I %d" % v
    if isinstance(v, str):
        return "S " + enc_str(v)
    if isinstance(v, (list, tuple)):
        return " ".join(["L %d" % len(v)] + [enc_val(x) for x in v])
    if isinstance(v, dict):
        return " ".join(["D %d" % len(v)] + [enc_str(k) + " " + enc_val(x) for k, x in v.items()])
    raise TypeError("cannot encode %r" % (v,))


def enc_optval(d, key):
    return enc_val(d[key]) if key in d else "-"


def enc_snapopt(d):
    if d is None:
        return "0"
    return "1 " + " ".join(enc_optval(d, k) for k in ("info", "done", "error", "result"))


def nfkd_table(strings):
    """The NFKD oracle tabulated for the strings the model will ask about."""
    tbl = {"collection": "collection"}
    for s in strings:
        tbl[s] = unicodedata.normalize("NFKD", s)
    return tbl


def enc_tbl(tbl):
    return " ".join(["%d" % len(tbl)] + [enc_str(a) + " " + enc_str(b) for a, b in tbl.items()])


class Reader:
    def __init__(self, line):
        self.t = line.split()
        self.i = 0

    def next(self):
        x = self.t[self.i]
        self.i += 1
        return x

    def peek(self):
        return self.t[self.i]

    def str(self):
        k = int(self.next())
        return "".join(chr(int(self.next())) for _ in range(k))

    def val(self):
        t = self.next()
        if t == "N":
            return None
        if t == "T":
            return True
        if t == "F":
            return False
        if t == "I":
            return int(self.next())
        if t == "S":
            return self.str()
        if t == "L":
            return [self.val() for _ in range(int(self.next()))]
        if t == "D":
            d = {}
            for _ in range(int(self.next())):
                k = self.str()
                d[k] = self.val()
            return d
        raise ValueError("bad token %r" % t)

    def optval(self):
        if self.peek() == "-":
            self.next()
            return ABSENT
        return self.val()

    def optstr(self):
        if self.peek() == "-":
            self.next()
            return ABSENT
        return self.str()


def canon(v):
    """Type-strict canonical text of a JSON-like value (True != 1, key order ignored)."""
    return json.dumps(v, sort_keys=True, ensure_ascii=True)


def dec_response(line):
    """Model response line -> canonical list."""
    r = Reader(line)
    t = r.next()
    if t == "FAILED":
        return ["FAILED", canon(r.val())]
    if t == "PROGRESS":
        return ["PROGRESS", canon(r.val())]
    if t == "CRASH":
        return ["CRASH", r.next()]
    if t == "FINISHED":
        url, size, sugg = r.optval(), r.optval(), r.optval()
        ct, cd = r.optstr(), r.optstr()
        return ["FINISHED"] + [x if x is ABSENT else canon(x) for x in (url, size, sugg)] + [ct, cd]
    raise ValueError("bad model response %r" % line)


def canon_real_response(resp, collection_id, writer):
    """Real do_render_status outcome ({'exc': name} or the returned dict) -> canonical list (same
    shape as dec_response) or a string describing a malformed response."""
    if "exc" in resp:
        return ["CRASH", resp["exc"]]
    d = dict(resp["ret"])
    if d.pop("collection_id", None) != collection_id or d.pop("writer", None) != writer:
        return "response does not echo collection_id/writer: %r" % (resp,)
    st = d.pop("state", None)
    if st == "failed" and set(d) == {"error"}:
        return ["FAILED", canon(d["error"])]
    if st == "progress" and set(d) == {"status"}:
        return ["PROGRESS", canon(d["status"])]
    if st == "finished" and set(d) <= {"url", "content_length", "suggested_filename", "content_type", "content_disposition"}:
        return ["FINISHED"] + [canon(d[k]) if k in d else ABSENT for k in ("url", "content_length", "suggested_filename")] + \
               [d.get("content_type", ABSENT), d.get("content_disposition", ABSENT)]
    return "unexpected response shape: %r" % (resp,)


def dec_snapopt(line):
    r = Reader(line)
    if r.next() == "0":
        return None, None
    d = {}
    for k in ("info", "done", "error", "result"):
        v = r.optval()
        if v is not ABSENT:
            d[k] = v
    return d, r.next()


def snap4(d):
    """Restrict a real _json() snapshot to the four fields do_render_status reads."""
    if d is None:
        return None
    return {k: d[k] for k in ("info", "done", "error", "result") if k in d}


# ----------------------------------------------------------------- the property's own oracle

CONTROL = set(range(0, 32)) | set(range(127, 160))
ASCII_NAME_BAD = set(' ;:"\',')
UNRESERVED = set("ABCDEFGHIJKLMNOPQRSTUVWXYZabcdefghijklmnopqrstuvwxyz0123456789_.-~")


def printable_input(s):
    """Quantifier of the property: printable Unicode, i.e. no control characters (and no lone
    surrogates, which are not characters)."""
    return isinstance(s, str) and not any(ord(c) in CONTROL or 0xD800 <= ord(c) <= 0xDFFF for c in s)


def header_problem(cd, ext):
    """None if the Content-Disposition value `cd` is header-safe, else a description.
    Header-safe: only printable ASCII (no CR/LF/controls, no 8-bit); shape
    inline; filename=<A>.<ext>[;filename*=UTF-8''<Q>.<ext>] with <A> free of SP ; : \" ' ,
    and <Q> made of unreserved characters, '/', and %XX escapes only."""
    if not isinstance(cd, str):
        return "not a string"
    if any(not (32 <= ord(c) <= 126) for c in cd):
        return "non printable-ASCII character in header"
    pre = "inline; filename="
    if not cd.startswith(pre):
        return "does not start with %r" % pre
    rest = cd[len(pre):]
    star = ";filename*=UTF-8''"
    if star in rest:
        a, q = rest.split(star, 1)
    else:
        a, q = rest, None
    suf = "." + ext
    if not a.endswith(suf) or len(a) == len(suf):
        return "ASCII filename is empty or lacks the extension"
    a = a[:-len(suf)]
    if any(c in ASCII_NAME_BAD for c in a):
        return "ASCII filename contains a separator character: %r" % a
    if q is not None:
        if not q.endswith(suf) or len(q) == len(suf):
            return "filename* is empty or lacks the extension"
        q = q[:-len(suf)]
        i = 0
        while i < len(q):
            c = q[i]
            if c == "%":
                if not (i + 2 < len(q) + 0 and all(x in "0123456789ABCDEF" for x in q[i + 1:i + 3]) and len(q[i + 1:i + 3]) == 2):
                    return "bad percent escape in filename*"
                i += 3
            elif c in UNRESERVED or c == "/":
                i += 1
            else:
                return "character %r in filename* is neither unreserved nor escaped" % c
    return None
