"""Differential driver for TreeCleaner.fix_nesting on REAL advtree node objects (run with PYTHONPATH=<snapshot of /repo/src>).
stdin : one tree per line, prefix form   id cls exc nw w.. nk <kid> .. <kid>    (class codes: vt/harness/c05_snap.py CLS)
stdout: one line per tree:  "DONE <moves> <skeleton>" | "RAISED <ExceptionType> <moves>" | "TIMEOUT" | "BAD <what> ..."
        (2 s per tree; after 5 time-outs the remaining trees are answered "SKIPPED-AFTER-TIMEOUTS")
A node with exc=1 gets vlist={"style": {"direction": "rtl"}} (TreeCleaner._is_exception is true for it); Text nodes get
caption = the words joined by blanks.  skeleton = cls[:e][=w,w..]( kid kid .. ), the same syntax as ocaml/c06n/driver.ml.
<moves> = number of self.report("moved", ...) calls = repairs started."""
import logging
import signal
import sys
import warnings

warnings.simplefilter("ignore")
logging.disable(logging.CRITICAL)

from mwlib.parser import advtree  # noqa: E402
from mwlib.parser.treecleaner import TreeCleaner  # noqa: E402

from vt.harness.c05_snap import CLS  # noqa: E402

NAME = {}
for _n, _c in CLS.items():
    if _n != "TableCaption":
        NAME[_c] = _n
CODE = {n: c for n, c in CLS.items()}


class Timeout(Exception):
    pass


def _alarm(_s, _f):
    raise Timeout()


def build(toks, pos):
    _id, c, e, nw = toks[pos], toks[pos + 1], toks[pos + 2], toks[pos + 3]
    pos += 4
    ws = toks[pos:pos + nw]
    pos += nw
    nk = toks[pos]
    pos += 1
    name = NAME[c]
    if name == "Text":
        node = advtree.Text(" ".join(str(w) for w in ws))
    else:
        if ws:
            raise ValueError("words on a non-Text node")
        node = getattr(advtree, name)()
    if e:
        node.vlist = {"style": {"direction": "rtl"}}
    for _ in range(nk):
        ch, pos = build(toks, pos)
        node.children.append(ch)
        ch.parent = node
    return node, pos


def skel(tc, node, problems):
    cn = node.__class__.__name__
    s = str(CODE.get(cn, 19))
    if tc._is_exception(node):
        s += ":e"
    if cn == "Text":
        ws = (node.caption or "").split()
        if ws:
            s += "=" + ",".join(ws)
    if hasattr(node, "nesting_pos"):
        problems.append("stale-mark")
    for ch in node.children:
        if ch.parent is not node:
            problems.append("parent-link")
    return s + "(" + " ".join(skel(tc, ch, problems) for ch in node.children) + ")"


def run_line(line):
    toks = [int(x) for x in line.split()]
    root, pos = build(toks, 0)
    if pos != len(toks):
        raise ValueError("trailing tokens")
    tc = TreeCleaner(root)
    moves = [0]

    def report(*args, **_kw):
        if args and args[0] == "moved":
            moves[0] += 1

    tc.report = report
    signal.setitimer(signal.ITIMER_REAL, 2.0)
    try:
        tc.fix_nesting(root)
    except Timeout:
        return "TIMEOUT"
    except Exception as e:  # noqa: BLE001
        return "RAISED %s %d" % (type(e).__name__, moves[0])
    finally:
        signal.setitimer(signal.ITIMER_REAL, 0)
    problems = []
    s = skel(tc, root, problems)
    if root.parent is not None:
        problems.append("root-parent")
    if problems:
        return "BAD %s %s" % (",".join(sorted(set(problems))), s)
    return "DONE %d %s" % (moves[0], s)


def main():
    signal.signal(signal.SIGALRM, _alarm)
    out = []
    timeouts = 0
    for line in sys.stdin:
        line = line.strip()
        if not line:
            continue
        if timeouts >= 5:
            out.append("SKIPPED-AFTER-TIMEOUTS")
            continue
        try:
            out.append(run_line(line))
            if out[-1] == "TIMEOUT":
                timeouts += 1
        except Exception as e:  # noqa: BLE001  (harness error: reported, never silently dropped)
            out.append("HARNESS-ERROR %s %s" % (type(e).__name__, e))
    sys.stdout.write("\n".join(out) + "\n")


if __name__ == "__main__":
    main()
