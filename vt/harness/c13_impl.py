"""Drives the real mwlib.core.metabook / mwlib.utils.myjson / nserve.make_collection_id of the snapshot.

stdin: JSON lines {"id", "ops": [...]}; stdout: JSON lines {"id", "out": [...one entry per op...]}.
Values are exchanged in a tagged plain form: ["O", cls, {field: v}] (MetabookObject; `type` entry checked and
left out), ["D", {k: v}], ["L", [v..]], scalars as they are.

mode `unicode`: code points whose str.lower() yields an ASCII letter / that str.isspace() accepts."""
import io
import json
import logging
import sys
import warnings

warnings.simplefilter("ignore")
logging.disable(logging.CRITICAL)
from mwlib.core import metabook, nserve  # noqa: E402
from mwlib.utils import myjson  # noqa: E402
from mwlib.utils import _version  # noqa: E402

CLASSES = {"collection": metabook.Collection, "article": metabook.Article, "chapter": metabook.Chapter,
           "source": metabook.Source, "interwiki": metabook.Interwiki, "license": metabook.License,
           "wikiconf": metabook.WikiConf, "custom": metabook.Custom}


def plain(v):
    if isinstance(v, metabook.MetabookObject):
        d = dict(v.__dict__)
        t = d.pop("type", None)
        if t != v.__class__.__name__:
            raise RuntimeError("type entry %r of a %s" % (t, v.__class__.__name__))
        return ["O", v.__class__.__name__, {k: plain(x) for k, x in d.items()}]
    if isinstance(v, dict):
        return ["D", {k: plain(x) for k, x in v.items()}]
    if isinstance(v, (list, tuple)):
        return ["L", [plain(x) for x in v]]
    if v is None or isinstance(v, (bool, int, str)):
        return v
    raise RuntimeError("value outside the modelled domain: %r" % (v,))


def unplain(p):
    if isinstance(p, list):
        if p[0] == "O":
            return CLASSES[p[1].lower()](**{k: unplain(x) for k, x in p[2].items()})
        if p[0] == "D":
            return {k: unplain(x) for k, x in p[1].items()}
        return [unplain(x) for x in p[1]]
    return p


def quiet(f, *a):
    o = sys.stdout
    sys.stdout = io.StringIO()
    try:
        return f(*a)
    finally:
        sys.stdout = o


def cid(data):
    return quiet(nserve.make_collection_id, data)


def guarded(f):
    try:
        return {"ok": f()}
    except Exception as e:
        return {"exc": type(e).__name__}


def rev_keys(j):
    if isinstance(j, dict):
        return {k: rev_keys(j[k]) for k in reversed(list(j))}
    if isinstance(j, list):
        return [rev_keys(x) for x in j]
    return j


def find(j, pred):
    """First dict (pre-order) satisfying pred."""
    if isinstance(j, dict):
        if pred(j):
            return j
        for v in j.values():
            r = find(v, pred)
            if r is not None:
                return r
    elif isinstance(j, list):
        for v in j:
            r = find(v, pred)
            if r is not None:
                return r
    return None


def mutants(j):
    """One-field differences of a metabook JSON value: article title, its revision, item order, chapter
    title, one item less."""
    import copy
    res = {}
    m = copy.deepcopy(j)
    a = find(m, lambda d: d.get("type") == "Article")
    if a is not None:
        a["title"] = (a.get("title") or "") + "x"
        res["article-title"] = m
        m = copy.deepcopy(j)
        a = find(m, lambda d: d.get("type") == "Article")
        a["revision"] = str(a.get("revision") or "") + "1"
        res["article-revision"] = m
        # falsy but meaningful values: revision 0 is a revision, an empty title is a title
        for name, key, val in (("article-revision-zero", "revision", 0), ("article-revision-empty", "revision", ""),
                               ("article-title-empty", "title", "")):
            m = copy.deepcopy(j)
            a = find(m, lambda d: d.get("type") == "Article")
            if key in a and (a[key] == val and type(a[key]) is type(val)):
                continue
            if key not in a and name == "article-revision-empty":
                continue
            a[key] = val
            res[name] = m
    m = copy.deepcopy(j)
    c = find(m, lambda d: isinstance(d.get("items"), list) and len(d["items"]) >= 2 and d["items"][0] != d["items"][1])
    if c is not None:
        c["items"][0], c["items"][1] = c["items"][1], c["items"][0]
        res["item-order"] = m
    m = copy.deepcopy(j)
    c = find(m, lambda d: d.get("type") == "Chapter")
    if c is not None:
        c["title"] = (c.get("title") or "") + "x"
        res["chapter-title"] = m
        m = copy.deepcopy(j)
        c = find(m, lambda d: d.get("type") == "Chapter")
        if "title" in c and c["title"] != "":          # an absent title reads as the class default "": no difference
            c["title"] = ""
            res["chapter-title-empty"] = m
    m = copy.deepcopy(j)
    if isinstance(m.get("items"), list) and m["items"]:
        m["items"].pop()
        res["item-removed"] = m
    return res


def containers(v, acc=None):
    """id() of every mutable container reachable from v (objects, their __dict__ values, lists, dicts)."""
    if acc is None:
        acc = {}
    if isinstance(v, metabook.MetabookObject):
        if id(v) not in acc:
            acc[id(v)] = v.__class__.__name__
            for x in v.__dict__.values():
                containers(x, acc)
    elif isinstance(v, dict):
        if id(v) not in acc:
            acc[id(v)] = "dict"
            for x in v.values():
                containers(x, acc)
    elif isinstance(v, list):
        if id(v) not in acc:
            acc[id(v)] = "list"
            for x in v:
                containers(x, acc)
    return acc


def aliased(x, y):
    a, b = containers(x), containers(y)
    return sorted(a[i] for i in a if i in b)


def apply_mut(b, mut):
    """One thing a consumer does to ITS OWN loaded copy of a metabook."""
    k = mut[0]
    if k == "append":
        b.append_article(mut[1], mut[2], **{a: unplain(v) for a, v in mut[3].items()})
    elif k == "set":
        setattr(b, mut[1], unplain(mut[2]))
    elif k == "additem":
        b.items.append(CLASSES[mut[1]](**{a: unplain(v) for a, v in mut[2].items()}))
    elif k == "wiki":           # what set_environment does
        b.wikis.append(metabook.WikiConf(ident=mut[1], baseurl=mut[2]))
    elif k == "license":
        b.licenses.append({"name": mut[1], "mw_rights_text": mut[2]})
    elif k == "item_set":       # edit one item in place
        if b.items:
            setattr(b.items[mut[1] % len(b.items)], mut[2], unplain(mut[3]))
    elif k == "item_append":    # add an article to a chapter
        chapters = [x for x in b.items if isinstance(x, metabook.Chapter)]
        if chapters:
            chapters[mut[1] % len(chapters)].items.append(metabook.Article(title=mut[2]))
    elif k == "pop":
        if b.items:
            b.items.pop(mut[1] % len(b.items))
    elif k == "reverse":
        b.items.reverse()
    else:
        raise RuntimeError("unknown mutation %r" % (mut,))


def nav(obj, path):
    """The object reached from obj by following .items[i % len] for every i of path; None if there is no such object."""
    for i in path:
        items = obj.__dict__.get("items")
        if not isinstance(items, list) or not items:
            return None
        obj = items[i % len(items)]
        if not isinstance(obj, metabook.MetabookObject):
            return None
    return obj


def apply_edit(coll, path, act):
    """An IN-PLACE edit of the live metabook at any depth: nothing is assigned on the Collection object unless path == [] and the
    action is `set`.  Mirrors coq/C13/ModelEdit.v edit_at (an edit that does not apply is skipped there as well)."""
    t = nav(coll, path)
    if t is None:
        return "skipped"
    k = act[0]
    items = t.__dict__.get("items")
    if k == "set":              # target.field = value
        setattr(t, act[1], unplain(act[2]))
    elif k == "append":         # target.items.append(Class(**kw))
        if not isinstance(items, list):
            return "skipped"
        items.append(CLASSES[act[1]](**{a: unplain(v) for a, v in act[2].items()}))
    elif k == "insert":
        if not isinstance(items, list):
            return "skipped"
        items.insert(act[1] % (len(items) + 1), CLASSES[act[2]](**{a: unplain(v) for a, v in act[3].items()}))
    elif k == "pop":
        if not isinstance(items, list) or not items:
            return "skipped"
        items.pop(act[1] % len(items))
    elif k == "reverse":
        if not isinstance(items, list):
            return "skipped"
        items.reverse()
    elif k == "listappend":     # target.field.append(value) for a list-valued attribute (wikis, licenses, custom lists)
        x = t.__dict__.get(act[1])
        if not isinstance(x, list):
            return "skipped"
        x.append(unplain(act[2]))
    elif k == "inner":          # target.field[i][key] = value (plain dict) / setattr(target.field[i], key, value) (object)
        x = t.__dict__.get(act[1])
        if isinstance(x, list):
            if not x:
                return "skipped"
            x = x[act[2] % len(x)]
        if isinstance(x, metabook.MetabookObject):
            setattr(x, act[3], unplain(act[4]))
        elif isinstance(x, dict):
            x[act[3]] = unplain(act[4])
        else:
            return "skipped"
    else:
        raise RuntimeError("unknown edit %r" % (act,))
    return "ok"


def shared_defaults_report(others):
    """C13_no_shared_defaults: class-level mutable defaults and bystander objects are untouched."""
    bad = []
    for cls in CLASSES.values():
        for k in dir(cls):
            if k.startswith("__"):
                continue
            v = getattr(cls, k)
            if isinstance(v, list) and v:
                bad.append("%s.%s == %r" % (cls.__name__, k, v))
            if isinstance(v, dict) and v:
                bad.append("%s.%s == %r" % (cls.__name__, k, v))
    for name, obj, before in others:
        now = json.dumps(plain(obj), sort_keys=True)
        if now != before:
            bad.append("bystander %s changed: %s -> %s" % (name, before, now))
    fresh = metabook.Collection()
    if fresh.items or fresh.licenses or fresh.wikis:
        bad.append("fresh Collection() is not empty")
    if metabook.Chapter().items:
        bad.append("fresh Chapter() is not empty")
    return bad


def run_case(case):
    out = []
    coll = None
    last_text = [None]
    last_plain = [None]
    # bystanders created BEFORE the ops: nothing done to `coll` may change them
    by = [("Collection#0", metabook.Collection()), ("Chapter#0", metabook.Chapter(title="by")),
          ("Collection#1", metabook.Collection(title="other"))]
    by[2][1].items.append(metabook.Chapter(title="inner"))
    others = [(n, o, json.dumps(plain(o), sort_keys=True)) for n, o in by]
    for op in case["ops"]:
        k = op[0]
        if k == "new":
            coll = metabook.Collection(**{a: unplain(b) for a, b in op[1].items()})
            out.append("ok")
        elif k == "append":
            _, title, dt, kw = op
            out.append(guarded(lambda: coll.append_article(title, dt, **{a: unplain(b) for a, b in kw.items()}) or "ok"))
        elif k == "additem":
            _, cls, kw = op
            out.append(guarded(lambda: coll.items.append(CLASSES[cls](**{a: unplain(b) for a, b in kw.items()})) or "ok"))
        elif k == "set":
            setattr(coll, op[1], unplain(op[2]))
            out.append("ok")
        elif k == "state":
            out.append(guarded(lambda: plain(coll)))
        elif k == "dumps":
            def f():
                t = coll.dumps()
                return {"text": t, "json": json.loads(t)}
            out.append(guarded(f))
        elif k == "reload":
            def f():
                nonlocal coll
                m2 = myjson.loads(coll.dumps())
                if not isinstance(m2, metabook.Collection):
                    raise TypeError("loads(dumps()) is a %s" % type(m2).__name__)
                coll = m2
                return "ok"
            out.append(guarded(f))
        elif k == "loadtext":
            def f():
                nonlocal coll
                m2 = myjson.loads(op[1])
                if not isinstance(m2, metabook.Collection):
                    raise TypeError("loads(text) is a %s" % type(m2).__name__)
                coll = m2
                last_text[0] = op[1]
                last_plain[0] = plain(coll)       # what this text decodes to, taken before anybody touches the object
                return plain(coll)
            out.append(guarded(f))
        elif k == "walk":
            out.append(guarded(lambda: [plain(x) for x in coll.walk()]))
        elif k == "roundtrip":
            # the property's observables on the real code, for the monitor
            def f():
                t1 = coll.dumps()
                m2 = myjson.loads(t1)
                if not isinstance(m2, metabook.Collection):
                    return {"m": plain(coll), "m2": plain(m2), "t1": t1, "not_object": True}
                t2 = m2.dumps()
                t3 = myjson.loads(t2).dumps()
                return {"m": plain(coll), "m2": plain(m2), "t1": t1, "t2": t2, "t3": t3, "checksum": metabook.calc_checksum(coll),
                        "articles": [a.title for a in coll.get_articles()], "articles2": [a.title for a in m2.get_articles()]}
            out.append(guarded(f))
        elif k == "ids":
            base = op[1]

            def f():
                t = coll.dumps()
                j = json.loads(t)
                texts = {"same": t, "permuted": json.dumps(rev_keys(j)), "compact": json.dumps(j, separators=(",", ":")),
                         "spaced": t.replace("\n", " \n\t ").replace(":", " : ", 1), "reserialized": myjson.loads(t).dumps()}
                for name, mut in mutants(j).items():
                    texts["diff:" + name] = json.dumps(mut, sort_keys=True)
                ids = {}
                for name, text in texts.items():
                    ids[name] = guarded(lambda: cid(dict(base, metabook=text)))
                for key in ("base_url", "script_extension", "login_credentials"):
                    d = dict(base, metabook=t)
                    d[key] = (d.get(key) or "") + "x"
                    ids["param:" + key] = guarded(lambda: cid(d))
                ids["nometabook"] = guarded(lambda: cid(dict(base)))
                return {"texts": texts, "ids": ids}
            r = guarded(f)
            r["version"] = str(_version.version)
            out.append(r)
        elif k == "indep":
            # C13 over op sequences: loads() is a function of the text.  Two consumers load the SAME text; one of them
            # works on its copy; the other copy, a later load of the text, its serialisation and the collection id of
            # the identical request must not notice.
            _, base, muts, use_text = op

            def f():
                t = last_text[0] if (use_text and last_text[0] is not None) else coll.dumps()
                coll_before = json.dumps(plain(coll), sort_keys=True)
                id1 = guarded(lambda: cid(dict(base, metabook=t)))
                a = myjson.loads(t)
                if not isinstance(a, metabook.Collection):
                    return {"skipped": "not a collection"}
                pa = plain(a)
                ta = a.dumps()
                b = myjson.loads(t)
                pb = plain(b)
                shared = aliased(a, b) + aliased(b, coll)
                applied = [guarded(lambda m=m: apply_mut(b, m) or "ok") for m in muts]
                pa2 = plain(a)
                c = myjson.loads(t)
                pc = plain(c)
                tc = c.dumps()
                id2 = guarded(lambda: cid(dict(base, metabook=t)))
                res = {"text": t, "applied": applied, "shared": shared, "first": pa, "first_after": pa2, "again": pc,
                       "second_before": pb, "dumps_first": ta, "dumps_again": tc, "id_before": id1, "id_after": id2,
                       "titles_first": [x.title for x in a.get_articles()], "titles_again": [x.title for x in c.get_articles()],
                       "mutated": plain(b) != pb,
                       "loadtime": (last_plain[0] if (use_text and last_text[0] is not None and last_plain[0] != pa) else "=first"),
                       "bystander_changed": json.dumps(plain(coll), sort_keys=True) != coll_before}
                # keep the output small when nothing is wrong
                if pa == pa2 == pc:
                    res["first_after"] = res["again"] = "=first"
                if pb == pa:
                    res["second_before"] = "=first"
                return res
            out.append(guarded(f))
        elif k == "edit":
            out.append(guarded(lambda: apply_edit(coll, op[1], op[2])))
        elif k == "probe":
            # the identifiers of the LIVE object, asked for in the middle of its life: they must be those of its current content
            def f():
                t = coll.dumps()
                fresh = myjson.loads(t)
                return {"checksum": metabook.calc_checksum(coll), "text": t,
                        "fresh_checksum": metabook.calc_checksum(fresh) if isinstance(fresh, metabook.Collection) else None,
                        "id": guarded(lambda: cid(dict(op[1], metabook=t))),
                        "checksum_again": metabook.calc_checksum(coll)}
            out.append(guarded(f))
        elif k == "shared":
            out.append({"ok": shared_defaults_report(others)})
        else:
            raise RuntimeError("unknown op %r" % (op,))
    return out


def main():
    if sys.argv[1:] == ["unicode"]:
        low = [[c, chr(c).lower()] for c in range(0x110000) if c >= 128 and any(ord(x) < 128 for x in chr(c).lower())]
        sp = [c for c in range(0x110000) if chr(c).isspace()]
        sys.stdout.write(json.dumps({"lower_to_ascii": low, "spaces": sp}) + "\n")
        return
    for line in sys.stdin:
        line = line.strip()
        if not line:
            continue
        case = json.loads(line)
        try:
            res = {"id": case["id"], "out": run_case(case)}
        except Exception as e:
            res = {"id": case["id"], "harness_error": "%s: %s" % (type(e).__name__, e)}
        # hygiene between cases: a polluted class-level default (reported by the `shared` op of the case that
        # caused it) must not snowball through all later cases
        for cls in CLASSES.values():
            for k, v in list(vars(cls).items()):
                if isinstance(v, list) and v and not k.startswith("__"):
                    del v[:]
        sys.stdout.write(json.dumps(res) + "\n")
    sys.stdout.flush()


main()
