"""C11 — a synthetic MediaWiki (pure Python, no mwlib imports).

`SynthWiki(desc)` serves an abstract wiki W through the api.php protocol the client in
/repo/src/mwlib/network/sapi.py speaks: `action=query` (prop=revisions|templates|images|categories|
imageinfo|info|contributors with titles or revids, redirects=1, result limits with *legacy*
`query-continue` continuation, one continuation parameter per prop module), `meta=siteinfo`,
`action=expandtemplates`, `action=parse`, and image downloads from memory.

W (JSON):
  {"pages": [ {"title": "Art 1", "ns": 0, "id": 7,
               "revs": [ {"revid": 11, "redirect": null | "Target title",
                          "words": ["w11"], "tpls": ["T1"], "imgs": ["I1.png"]}, ... oldest first ],
               "users": ["Alice", "FooBot"], "anon": 2,
               "file": true | false        (ns 6 only: does the file exist) } ... ] }
Page text of a revision:  "#REDIRECT [[Target]]"  or the tokens joined by blanks:
  word | {{T}} (Template:T) | [[File:I.png]].
MediaWiki behaviour reproduced (and relied upon by the oracle in vt/props/c11.py):
  * `{{:X}}` / `{{T}}` of a missing page expands to the red link `[[:X]]` / `[[Template:T]]`;
  * transclusion follows ONE redirect hop (Parser::statelessFetchTemplate loops twice);
  * prop=images / prop=templates describe the CURRENT revision of a page (link tables), also when the page
    was selected by revids=;
  * titles + redirects=1 resolves whole redirect chains, reports every hop in "redirects", drops circular
    ones, and yields a `missing` page for a dead end;  revids are never redirect-resolved;
  * anoncontributors is only reported in the first (non-continued) response.
"""
import hashlib
import json
import re
from urllib import parse

TPL_RE = re.compile(r"\{\{(:?)([^{}|]+?)\}\}")
IMG_RE = re.compile(r"\[\[File:([^\]|]+?)\]\]")
NSNAMES = {0: "", 6: "File", 10: "Template"}
SERVER_MAX = 500


def render(rev):
    """wikitext of an abstract revision"""
    if rev.get("redirect"):
        return "#REDIRECT [[%s]]" % rev["redirect"]
    toks = list(rev.get("words", []))
    out = []
    # deterministic interleaving: words, then templates, then images, one sentence each
    out.extend(toks)
    out.extend("{{%s}}" % t for t in rev.get("tpls", []))
    out.extend("[[File:%s]]" % i for i in rev.get("imgs", []))
    return " ".join(out)


def image_bytes(title, width):
    return ("PNG|%s|%s|" % (title, width)).encode("utf8") + hashlib.sha1(title.encode("utf8")).digest() * 3


class SynthWiki:
    def __init__(self, desc, siteinfo, base="http://synth.test"):
        self.base = base
        self.apiurl = base + "/w/api.php"
        self.siteinfo = siteinfo
        self.pages = {}
        self.by_id = {}
        self.by_rev = {}
        for p in desc["pages"]:
            self.pages[p["title"]] = p
            self.by_id[p["id"]] = p
            for r in p["revs"]:
                self.by_rev[r["revid"]] = (p, r)

    # ------------------------------------------------------------------ wiki semantics
    def current(self, title):
        p = self.pages.get(title)
        return p["revs"][-1] if p else None

    def text_of(self, rev):
        return render(rev)

    def redirect_of(self, title):
        r = self.current(title)
        return r.get("redirect") if r else None

    def resolve(self, title):
        """titles+redirects=1: (hops [(from,to)], final title or None when circular)"""
        hops = []
        seen = {title}
        cur = title
        while True:
            t = self.redirect_of(cur)
            if not t:
                return hops, cur
            hops.append((cur, t))
            if t in seen:
                return hops, None
            seen.add(t)
            cur = t

    def transclude(self, title, stack):
        """text inserted for {{:title}} / {{Template:x}}: follows one redirect hop"""
        p = self.pages.get(title)
        if p is None:
            return None
        rev = p["revs"][-1]
        if rev.get("redirect"):
            q = self.pages.get(rev["redirect"])
            if q is None:
                return render(rev)          # redirect to nowhere: the redirect page's own text
            return render(q["revs"][-1])    # second hop is NOT followed: may itself be "#REDIRECT [[..]]"
        return render(rev)

    def expand(self, text, stack=()):
        def sub(m):
            colon, name = m.group(1), m.group(2).strip()
            if colon or name.startswith(("File:", "Template:")):
                title = name
            else:
                title = "Template:" + name
            if title in stack or len(stack) > 40:
                return '<span class="error">Template loop detected: [[%s]]</span>' % title
            body = self.transclude(title, stack)
            if body is None:
                return "[[:%s]]" % title if colon else "[[%s]]" % title
            return self.expand(body, stack + (title,))
        return TPL_RE.sub(sub, text)

    def templates_of(self, title):
        """transitive templates of the current revision (templatelinks)"""
        res = []
        seen = set()

        def walk(text, depth):
            for m in TPL_RE.finditer(text):
                colon, name = m.group(1), m.group(2).strip()
                t = name if (colon or name.startswith(("File:", "Template:"))) else "Template:" + name
                if t in seen or depth > 40:
                    continue
                seen.add(t)
                res.append(t)
                body = self.transclude(t, ())
                if body is not None:
                    walk(body, depth + 1)
        r = self.current(title)
        if r is not None:
            walk(render(r), 0)
        return sorted(res)

    def images_of_text(self, text):
        return sorted({"File:" + m.group(1).strip() for m in IMG_RE.finditer(self.expand(text))})

    def images_of(self, title):
        """imagelinks of the page = images of the rendered current revision (through all templates)"""
        r = self.current(title)
        if r is None:
            return []
        return self.images_of_text(render(r))

    def contributors_of(self, title):
        p = self.pages.get(title)
        if p is None:
            return [], 0
        return sorted(p.get("users", [])), int(p.get("anon", 0))

    # ------------------------------------------------------------------ image files
    def thumb_url(self, title, width):
        name = title.split(":", 1)[1].replace(" ", "_")
        return "%s/images/thumb/%s/%spx-%s" % (self.base, parse.quote(name), width, parse.quote(name))

    def description_url(self, title):
        return "%s/wiki/%s" % (self.base, parse.quote(title.replace(" ", "_"), safe=":"))

    def download(self, url):
        m = re.match(re.escape(self.base) + r"/images/thumb/([^/]+)/(\d+)px-([^/]+)$", url)
        if not m:
            return None
        title = "File:" + parse.unquote(m.group(1)).replace("_", " ")
        p = self.pages.get(title)
        if p is None or not p.get("file"):
            return None
        return image_bytes(title, m.group(2))

    # ------------------------------------------------------------------ api.php
    def handle(self, params):
        """params: dict str->str.  Returns a JSON-able dict."""
        action = params.get("action")
        if action == "query":
            if params.get("meta") == "siteinfo":
                want = params.get("siprop", "general").split("|")
                return {"query": {k: v for k, v in self.siteinfo.items() if k in want}}
            return self.query(params)
        if action == "expandtemplates":
            res = {"wikitext": self.expand(params.get("text", ""))}
            return {"expandtemplates": res}
        if action == "parse":
            return self.parse(params)
        return {"error": {"code": "unknown_action", "info": "Unrecognized value for parameter 'action': %s" % action}}

    def parse(self, params):
        if "oldid" in params:
            try:
                pr = self.by_rev.get(int(params["oldid"]))
            except ValueError:
                pr = None
            if pr is None:
                return {"error": {"code": "nosuchrevid", "info": "There is no revision with ID %s." % params["oldid"]}}
            page, rev = pr
        else:
            title = params.get("page", "")
            hops, final = self.resolve(title) if params.get("redirects") else ([], title)
            page = self.pages.get(final) if final else None
            if page is None:
                return {"error": {"code": "missingtitle", "info": "The page you specified doesn't exist."}}
            rev = page["revs"][-1]
        text = self.expand(render(rev))
        html = '<div class="mw-parser-output"><p>%s</p></div>' % (
            text.replace("&", "&amp;").replace("<", "&lt;").replace(">", "&gt;"))
        return {"parse": {"title": page["title"], "pageid": page["id"], "revid": rev["revid"],
                          "text": {"*": html}, "images": [i.split(":", 1)[1].replace(" ", "_") for i in self.images_of_text(render(rev))]}}

    @staticmethod
    def _limit(params, key):
        v = params.get(key)
        if v is None:
            return 10
        if v == "max":
            return SERVER_MAX
        try:
            n = int(v)
        except ValueError:
            return 10
        return max(1, min(n, SERVER_MAX))

    def query(self, params):
        q = {}
        pages = {}
        selected = []          # (page dict, [revs asked for] or None)
        nmissing = 0
        follow = "redirects" in params
        titles = [t for t in params.get("titles", "").split("|") if t != ""]
        revids = [t for t in params.get("revids", "").split("|") if t != ""]
        redirects = []
        normalized = []
        done_titles = set()
        for t0 in titles:
            t = t0.replace("_", " ").strip()
            if t and t[0].islower() and not t.startswith(("File:", "Template:")):
                t = t[0].upper() + t[1:]
            if t != t0:
                normalized.append({"from": t0, "to": t})
            if follow:
                hops, final = self.resolve(t)
                for a, b in hops:
                    if {"from": a, "to": b} not in redirects:
                        redirects.append({"from": a, "to": b})
                if final is None:
                    continue
                t = final
            if t in done_titles:
                continue
            done_titles.add(t)
            p = self.pages.get(t)
            if p is None:
                nmissing += 1
                ns = 6 if t.startswith("File:") else 10 if t.startswith("Template:") else 0
                ent = {"ns": ns, "title": t, "missing": ""}
                if ns == 6:
                    ent["imagerepository"] = ""
                pages[str(-nmissing)] = ent
            else:
                selected.append((p, None))
        badrevids = {}
        byid = {}
        for r0 in revids:
            try:
                pr = self.by_rev.get(int(r0))
            except ValueError:
                pr = None
            if pr is None:
                badrevids[str(r0)] = {"revid": int(r0) if r0.isdigit() else r0}
                continue
            page, rev = pr
            if page["id"] not in byid:
                byid[page["id"]] = (page, [])
                selected.append(byid[page["id"]])
            byid[page["id"]][1].append(rev)
        if normalized:
            q["normalized"] = normalized
        if redirects:
            q["redirects"] = redirects
        if badrevids:
            q["badrevids"] = badrevids
        selected.sort(key=lambda x: x[0]["id"])
        for p, _revs in selected:
            pages[str(p["id"])] = {"pageid": p["id"], "ns": p["ns"], "title": p["title"]}
        props = [x for x in params.get("prop", "").split("|") if x]
        qc = {}
        for prop in props:
            if prop == "revisions":
                rvprop = params.get("rvprop", "ids|timestamp|flags|comment|user").split("|")
                for p, revs in selected:
                    lst = []
                    for rev in (revs if revs is not None else [p["revs"][-1]]):
                        e = {}
                        if "ids" in rvprop:
                            e["revid"] = rev["revid"]
                            e["parentid"] = 0
                        if "user" in rvprop:
                            e["user"] = (p.get("users") or ["Nobody"])[0]
                        if "timestamp" in rvprop:
                            e["timestamp"] = "2020-01-01T00:00:00Z"
                        if "content" in rvprop:
                            e["*"] = render(rev)
                        lst.append(e)
                    pages[str(p["id"])]["revisions"] = lst
            elif prop in ("images", "templates", "contributors"):
                pref = {"images": "im", "templates": "tl", "contributors": "pc"}[prop]
                limit = self._limit(params, pref + "limit")
                cont = params.get(pref + "continue")
                items = []
                for p, _revs in selected:
                    if prop == "images":
                        vals = [(t, {"ns": 6, "title": t}) for t in self.images_of(p["title"])]
                    elif prop == "templates":
                        vals = [(t, {"ns": 10 if t.startswith("Template:") else 0, "title": t})
                                for t in self.templates_of(p["title"])]
                    else:
                        users, anon = self.contributors_of(p["title"])
                        vals = [(u, {"userid": 1000 + (int(hashlib.sha1(u.encode()).hexdigest(), 16) % 100000), "name": u})
                                for u in users]
                        if cont is None and anon:
                            pages[str(p["id"])]["anoncontributors"] = anon
                    for k, v in vals:
                        items.append((p["id"], k, v))
                if cont is not None:
                    cid, _, ckey = cont.partition("|")
                    try:
                        cid = int(cid)
                    except ValueError:
                        return {"error": {"code": "badcontinue", "info": "Invalid continue param."}}
                    items = [it for it in items if (it[0], it[1]) >= (cid, ckey)]
                for pid, _k, v in items[:limit]:
                    pages[str(pid)].setdefault(prop, []).append(v)
                if len(items) > limit:
                    nxt = items[limit]
                    qc[prop] = {pref + "continue": "%d|%s" % (nxt[0], nxt[1])}
            elif prop == "categories":
                pass
            elif prop == "imageinfo":
                width = params.get("iiurlwidth")
                for k, ent in pages.items():
                    if ent["ns"] != 6:
                        continue
                    p = self.pages.get(ent["title"])
                    if p is None or not p.get("file"):
                        ent["imagerepository"] = ""
                        continue
                    t = ent["title"]
                    ent["imagerepository"] = "local"
                    name = t.split(":", 1)[1].replace(" ", "_")
                    ii = {"size": len(image_bytes(t, "orig")), "width": 1600, "height": 1200,
                          "url": "%s/images/%s" % (self.base, parse.quote(name)),
                          "descriptionurl": self.description_url(t),
                          "sha1": hashlib.sha1(t.encode("utf8")).hexdigest(),
                          "user": (p.get("users") or ["Nobody"])[0], "comment": "upload of " + t}
                    if width:
                        ii["thumburl"] = self.thumb_url(t, width)
                        ii["thumbwidth"] = int(width)
                        ii["thumbheight"] = int(width) * 3 // 4
                    ent["imageinfo"] = [ii]
            elif prop == "info":
                for k, ent in pages.items():
                    if "missing" in ent:
                        continue
                    ent["touched"] = "2020-01-01T00:00:00Z"
                    ent["lastrevid"] = self.pages[ent["title"]]["revs"][-1]["revid"]
                    if "url" in params.get("inprop", ""):
                        ent["fullurl"] = self.description_url(ent["title"])
                        ent["editurl"] = "%s/w/index.php?title=%s&action=edit" % (self.base, parse.quote(ent["title"]))
            else:
                return {"error": {"code": "unknown_prop", "info": "Unrecognized value for parameter 'prop': %s" % prop}}
        if pages:
            q["pages"] = pages
        res = {"query": q}
        if qc:
            res["query-continue"] = qc
        return res


def params_of(method, url, data):
    if method == "POST":
        if isinstance(data, bytes):
            data = data.decode("utf8")
        qs = parse.parse_qs(data or "", keep_blank_values=True)
    else:
        qs = parse.parse_qs(parse.urlsplit(url).query, keep_blank_values=True)
    return {k: v[-1] for k, v in qs.items()}


def dumps(obj):
    return json.dumps(obj).encode("utf8")
