"""C09 search harness: the property's own oracle on the real parser.

stdin : JSON lines {"id", "tag", "body", "raw", "raw_ph", "db", "db_ph", "ph"}
        raw     = wikitext of the context with <tag attrs>body</tag> in it
        raw_ph  = the same context with the body replaced by the inert placeholder word `ph`
        db/db_ph= template universe (DictDB) for the two, or null (parse without wikidb)
stdout: JSON lines {"id", "ok", "why", ...}

Oracle (independent of any model): the body is opaque iff the tree of `raw` is the tree of
`raw_ph` with the placeholder replaced by the body -- same node classes, same shape, same
attributes everywhere else -- where for nowiki/pre the leaf is the body with its character entity
references decoded, once (pre: after the <nowiki>..</nowiki> wrappers literally written in the body are
removed, which core.py:create_pre documents; see expected_leaves).  Any Link/Style/Template-expanded/… node stemming from
the body changes the shape and is reported."""
import html.entities
import json
import logging
import re
import sys
import warnings

warnings.simplefilter("ignore")
logging.disable(logging.CRITICAL)
from mwlib.parser import expander  # noqa: E402,F401  (import order matters)
from mwlib.parser.expander import DictDB  # noqa: E402
from mwlib.parser.refine.uparser import parse_string  # noqa: E402

try:
    import qs.log
    qs.log.root_logger.disabled = True
except Exception:
    pass

SKIP = {"children", "_parentref", "start", "len", "source", "type", "_text"}


def ser(n):
    """Tree -> nested list [class, {attr: value}, [children]] (token bookkeeping attrs dropped)."""
    d = {}
    for k, v in sorted(n.__dict__.items()):
        if k in SKIP or v is None or v == "" or v == [] or v == {}:
            continue
        d[k] = v if isinstance(v, (str, int, bool, float)) else (
            json.loads(json.dumps(v, default=lambda o: "<%s>" % type(o).__name__, sort_keys=True)))
    return [n.__class__.__name__, d, [ser(c) for c in n.children]]


ENT_RX = re.compile(r"&(#[0-9]+|#[xX][0-9a-fA-F]+|[A-Za-z0-9]+);")


def ent_value(name):
    try:
        if name.startswith("#x") or name.startswith("#X"):
            v = int(name[2:], 16)
        elif name.startswith("#"):
            v = int(name[1:])
        else:
            v = html.entities.name2codepoint[name]
        if 0xD800 <= v <= 0xDFFF:
            return None          # not a character (util._chr refuses it as well): the reference stays as written
        return chr(v)
    except (KeyError, ValueError, OverflowError):
        return None


def full_decode(body):
    """every valid character reference (named / decimal / hex, ASCII digits, terminated by ';') replaced by its character,
    ONE pass, left to right: what a decoded reference produces is never looked at again (&amp;lt; -> &lt;)."""
    def rep(m):
        v = ent_value(m.group(1))
        return m.group(0) if v is None else v
    return ENT_RX.sub(rep, body)


NOWIKI_RX = re.compile(r"<nowiki>(.*?)</nowiki>", re.I | re.S)


def expected_leaves(tag, body):
    """what the property allows in the tree for a body as WRITTEN.
    nowiki: the body with its character references decoded.
    pre   : the <nowiki>..</nowiki> pairs that are literally written in the body only protect (core.py:create_pre drops the
            two tags, keeps what is between them), then the character references are decoded.  Anything that exists only
            AFTER decoding -- &lt;nowiki&gt;, &#60;/NOWIKI&#62;, &#91;&#91;x&#93;&#93;, &amp;lt; .. -- is text: it is neither
            interpreted nor removed nor decoded a second time.
    others: the body, byte for byte."""
    if tag == "nowiki":
        return [full_decode(body)]
    if tag == "pre":
        return [full_decode(NOWIKI_RX.sub(lambda m: m.group(1), body))]
    return [body]


def leaf_ok(tag, leaf, body):
    return leaf in expected_leaves(tag, body)


def compare(a, b, ph, tag, body, path, found):
    """a = tree with the body, b = tree with the placeholder.  Returns None or a reason."""
    if a[0] != b[0]:
        return "%s: node class %s, expected %s" % (path, a[0], b[0])
    ka, kb = a[1], b[1]
    if sorted(ka) != sorted(kb):
        return "%s: attributes %s, expected %s" % (path, sorted(ka), sorted(kb))
    for k in kb:
        r = cmp_val(ka[k], kb[k], ph, tag, body, "%s.%s" % (path, k), found)
        if r:
            return r
    if len(a[2]) != len(b[2]):
        return "%s: %d children %s, expected %d %s" % (path, len(a[2]), [c[0] for c in a[2]], len(b[2]), [c[0] for c in b[2]])
    for i, (x, y) in enumerate(zip(a[2], b[2])):
        r = compare(x, y, ph, tag, body, "%s/%s[%d]" % (path, y[0], i), found)
        if r:
            return r
    return None


def cmp_val(va, vb, ph, tag, body, path, found):
    if isinstance(vb, str) and isinstance(va, str):
        if ph not in vb:
            return None if va == vb else "%s: %r, expected %r" % (path, va[:80], vb[:80])
        if vb.count(ph) != 1:
            return None if va == vb.replace(ph, body) else "%s: %r" % (path, va[:80])
        pre, post = vb.split(ph)
        if not (va.startswith(pre) and va.endswith(post) and len(va) >= len(pre) + len(post)):
            return "%s: surrounding text changed: %r, expected %r" % (path, va[:120], vb[:120])
        leaf = va[len(pre):len(va) - len(post)]
        if not leaf_ok(tag, leaf, body):
            return "%s: leaf %r is not the body %r (expected in the tree: %r)" % (path, leaf[:120], body[:120], expected_leaves(tag, body)[0][:120])
        found.append(path)
        return None
    if isinstance(vb, dict) and isinstance(va, dict):
        if sorted(va) != sorted(vb):
            return "%s: keys %s, expected %s" % (path, sorted(va), sorted(vb))
        for k in vb:
            r = cmp_val(va[k], vb[k], ph, tag, body, path + "." + k, found)
            if r:
                return r
        return None
    if isinstance(vb, list) and isinstance(va, list):
        if len(va) != len(vb):
            return "%s: list length" % path
        for i, (x, y) in enumerate(zip(va, vb)):
            r = cmp_val(x, y, ph, tag, body, "%s[%d]" % (path, i), found)
            if r:
                return r
        return None
    return None if va == vb else "%s: %r, expected %r" % (path, va, vb)


def parse(raw, db):
    if db is None:
        return parse_string(title="T", raw=raw)
    return parse_string(title="T", raw=raw, wikidb=DictDB(dict(db)))


def run_case(c):
    try:
        ta = ser(parse(c["raw"], c.get("db")))
    except Exception as e:
        return {"id": c["id"], "ok": False, "kind": "exception", "why": "parse raised %s: %s" % (type(e).__name__, str(e)[:200])}
    tb = ser(parse(c["raw_ph"], c.get("db_ph")))
    found = []
    phs = json.dumps(tb).count(c["ph"])
    if phs == 0:
        js = json.dumps(tb)
        mk = re.search(r"\\u007fUNIQ-[a-z0-9]+-[0-9]+-[0-9a-f]+-QINU\\u007f", js)
        extra = ""
        if mk:
            extra = ": a raw marker %s is left in the tree (the region was protected in one marker table and looked up in another)" % mk.group(0).replace("\\u007f", "\\x7f")
        elif c["tag"] in ("nowiki", "pre", "math", "source", "syntaxhighlight", "timeline") and "QZ" in js and "QZ" in c["raw_ph"] + json.dumps(c.get("db_ph")):
            n_written = (c["raw_ph"] + json.dumps(c.get("db_ph") or {})).count("QZ")
            extra = ": the body of ANOTHER region of the page stands there instead ('QZ' is written %d times on the page and its database, occurs %d times in the tree)" % (n_written, js.count("QZ"))
        return {"id": c["id"], "ok": False, "kind": "lost", "why": "even an inert body (the placeholder word) does not reach the tree in this context" + extra}
    # absolute part of the oracle: with an inert body the tag syntax itself never reaches the tree
    # (skipped on pages where ANOTHER region legitimately delivers such text verbatim, e.g. <nowiki><math>x</math></nowiki>)
    leak = None if c.get("noleak") else re.search(r"</?%s\b[^\"]{0,40}" % re.escape(c["tag"]), json.dumps(tb), re.I)
    if leak:
        return {"id": c["id"], "ok": False, "kind": "mismatch", "why": "tag syntax reaches the tree even with an inert body: %r" % leak.group(0), "leaf": []}
    why = compare(ta, tb, c["ph"], c["tag"], c["body"], "", found)
    if why is None and not found:
        why = "body leaf not found"
    res = {"id": c["id"], "ok": why is None, "kind": "ok" if why is None else "mismatch", "why": why or "", "leaf": found[:1]}
    if c.get("dump"):
        res["tree"] = ta
        res["tree_ph"] = tb
    return res


def main():
    for line in sys.stdin:
        line = line.strip()
        if not line:
            continue
        c = json.loads(line)
        try:
            r = run_case(c)
        except Exception as e:  # harness problem (placeholder parse failed, ...)
            r = {"id": c.get("id"), "ok": False, "kind": "harness_error", "why": "%s: %s" % (type(e).__name__, e)}
        sys.stdout.write(json.dumps(r) + "\n")
    sys.stdout.flush()


if __name__ == "__main__":
    main()
