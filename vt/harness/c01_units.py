"""C01 unit-level drivers of the real code (snapshot via PYTHONPATH).
stdin JSON lines: {"k":"R","e":entity}  -> {"out": str} | {"exc": name}, plus what Python's own int()/name table said
                  {"k":"P","counts":[..]} -> {"path": [[apo,b,i],...]} | {"exc": name}"""
import html.entities
import json
import logging
import sys
import warnings

warnings.simplefilter("ignore")
logging.disable(logging.CRITICAL)

from mwlib.parser.refine import util  # noqa: E402
from mwlib.parser import styleanalyzer  # noqa: E402


def int_outcome(e):
    """what CPython's int() does with the digits resolve_entity would hand it (third-party behaviour, fed to the model)"""
    try:
        if len(e) > 2 and e[1] == "#":
            if e[2] in "xX":
                return str(int(e[3:-1], 16))
            return str(int(e[2:-1]))
    except ValueError:
        return "N"
    return "N"


def name_outcome(e):
    v = html.entities.name2codepoint.get(e[1:-1])
    return "N" if v is None else str(v)


for line in sys.stdin:
    c = json.loads(line)
    r = {"id": c["id"]}
    try:
        if c["k"] == "R":
            r["int"] = int_outcome(c["e"])
            r["name"] = name_outcome(c["e"])
            r["out"] = util.resolve_entity(c["e"])
        else:
            r["path"] = [[s.apocount, int(bool(s.is_bold)), int(bool(s.is_italic))] for s in styleanalyzer.compute_path(c["counts"])]
    except Exception as e:  # noqa: BLE001
        r["exc"] = type(e).__name__
    sys.stdout.write(json.dumps(r) + "\n")
