"""C01 unit-level drivers of the real code (snapshot via PYTHONPATH).
stdin JSON lines: {"k":"R","e":entity}  -> {"out": str} | {"exc": name}, plus what Python's own int()/name table said
                  {"k":"P","counts":[..]} -> {"path": [[apo,b,i],...], "work": [states handed to sort_states per step]} | {"exc": name}
compute_path runs under a CPU budget of P_BUDGET seconds (a blow-up must not stall the check: it is reported as exc OverBudget)."""
import html.entities
import json
import logging
import signal
import sys
import time
import warnings

warnings.simplefilter("ignore")
logging.disable(logging.CRITICAL)

from mwlib.parser.refine import util  # noqa: E402
from mwlib.parser import styleanalyzer  # noqa: E402


P_BUDGET = 4.0            # the unchanged tree needs < 5 ms for 60 counts
MAX_OVER = 5              # after that many blow-ups the remaining compute_path cases are not run (each costs P_BUDGET)
_over = [0]
_work = []
_orig_sort = styleanalyzer.sort_states          # AttributeError here = the code no longer has the anchored shape (fail-closed)


def _counting_sort(states):
    _work.append(len(states))
    return _orig_sort(states)


styleanalyzer.sort_states = _counting_sort


class OverBudget(BaseException):
    pass


def _alarm(_sig, _frame):
    raise OverBudget()


signal.signal(signal.SIGVTALRM, _alarm)


def int_outcome(e):
    """what CPython's int() does with the digits resolve_entity would hand it (third-party behaviour, fed to the model)"""
    try:
        if len(e) > 2 and e[1] == "#":
            if e[2] in "xX":
                return str(int(e[3:-1], 16))
            return str(int(e[2:-1]))
    except ValueError:
        return "N"
    return "N"


def name_outcome(e):
    v = html.entities.name2codepoint.get(e[1:-1])
    return "N" if v is None else str(v)


for line in sys.stdin:
    c = json.loads(line)
    r = {"id": c["id"]}
    try:
        if c["k"] == "R":
            r["int"] = int_outcome(c["e"])
            r["name"] = name_outcome(c["e"])
            r["out"] = util.resolve_entity(c["e"])
        elif _over[0] >= MAX_OVER:
            r["exc"] = "NotRunAfterOverBudget"      # reported as a disagreement; the search harness finds the concrete inputs
        else:
            del _work[:]
            t0 = time.process_time()
            signal.setitimer(signal.ITIMER_VIRTUAL, P_BUDGET)
            try:
                path = styleanalyzer.compute_path(c["counts"])
            finally:
                signal.setitimer(signal.ITIMER_VIRTUAL, 0)
                r["cpu"] = round(time.process_time() - t0, 4)
                r["work"] = list(_work)
            r["path"] = [[s.apocount, int(bool(s.is_bold)), int(bool(s.is_italic))] for s in path]
    except OverBudget:
        r["exc"] = "OverBudget"
        _over[0] += 1
    except Exception as e:  # noqa: BLE001
        r["exc"] = type(e).__name__
    sys.stdout.write(json.dumps(r) + "\n")
