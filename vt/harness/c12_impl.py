"""C12 harness: runs the REAL NsHandler.splitname (snapshot of /repo) on generated title groups, applies the
property's own oracle (monitor) to the real outputs, and compares every real evaluation with the extracted
Coq model (ocaml/c12/driver.exe).

One process = one HISTORY of NsHandler objects: handlers of all bundled sites are created (and used once) in an order that
depends on the shard (shard 2k+1 uses the reverse order of shard 2k, so every pair of sites is set up in both orders in
every run); later on further handlers of random sites are created in four ways (NsHandler(get_siteinfo(l)), NsHandler(deep
copy), get_nshandler_for_lang(l), pickle round trip of a living handler) and every evaluation picks one of the living
handlers of the group's site.  The monitor judges each handler against what the site's OWN siteinfo JSON defines
(vt/harness/c12_ref.py, loaded from the files, never from the handler).

A second kind of history is about object LIFETIMES (mode `lifetimes`): NuWiki, the fetcher and the zip readers build their
handler on a siteinfo that was just loaded from JSON and goes away with the job.  One process runs hundreds of jobs
load siteinfo (json.load of the site's file / json.loads / deep copy) -> NsHandler -> lookups -> drop everything -> gc.collect()
over different sites (up to three jobs overlap), and every answer is judged against the site's OWN table: a handler must never
answer from what an earlier, dead object of another site left behind.

usage: python -m vt.harness.c12_impl run <seed> <shard> <ngroups> <model_exe> [<corpus.json>]
       python -m vt.harness.c12_impl lifetimes <seed> <shard> <njobs>
       python -m vt.harness.c12_impl runops      stdin: {"ops": [...], "first_only": bool} -> problems (address space pinned)
       python -m vt.harness.c12_impl replay      stdin: {"lang","dns","title"[,"history","inst","expect"]} -> oracle verdict
       python -m vt.harness.c12_impl minimise    stdin: same object -> smallest history / title that still fails
stdout: one JSON object (summary, monitor hits, disagreements, samples).
"""
import copy
import hashlib
import json
import logging
import os
import pickle
import random
import subprocess
import sys

logging.disable(logging.CRITICAL)

from mwlib.core import nshandling  # noqa: E402   (snapshot, via PYTHONPATH)
from mwlib.network import siteinfo  # noqa: E402
from vt.harness import c12_gen, c12_ref  # noqa: E402

DNS = [0, 6, 10, 14]
HOWS = ["new", "copy", "for_lang", "pickle"]
WARMUP = "Talk:x"
# histories of lookups on ONE handler: default namespaces asked in varying order, prefixes that are no namespace anywhere
HIST_DNS = [0, 6, 10, 14, 0, 10, 1, 2, 4, 12]
HIST_PREFIXES = ["Star Trek", "2001", "X-Men", "Foo bar", "é", "Re", "Q", "Übung macht", "C++"]
HIST_RESTS = ["x", "nav", "Voyager", "some page", "é", "1", "a:b"]


def ref_sites():
    return c12_ref.load_sites(os.path.join(os.path.dirname(siteinfo.__file__), "known_sites"))


class World:
    """the NsHandler objects of this process, in creation order"""

    current = None

    def __init__(self):
        self.events = []     # [lang, how, src index | None]
        self.insts = []      # (lang, handler)
        self.by_lang = {}
        self.index = {}      # id(handler) -> position in insts (the handlers stay alive in insts)
        self.calls = []      # every lookup made on one of these handlers: [len(events) at call time, inst, api, title, dns]
        World.current = self

    def create(self, lang, how, src=None):
        if how == "new":
            h = nshandling.NsHandler(siteinfo.get_siteinfo(lang))
        elif how == "copy":
            h = nshandling.NsHandler(copy.deepcopy(siteinfo.get_siteinfo(lang)))
        elif how == "for_lang":
            h = nshandling.get_nshandler_for_lang(lang)
        elif how == "pickle":
            h = pickle.loads(pickle.dumps(self.insts[src][1]))
        else:
            raise ValueError(how)
        self.events.append([lang, how, src])
        self.insts.append((lang, h))
        self.index[id(h)] = len(self.insts) - 1
        self.by_lang.setdefault(lang, []).append(len(self.insts) - 1)
        try:
            h.splitname(WARMUP)      # first use
        except Exception:            # noqa: BLE001  (judged by the monitor on the generated titles)
            pass
        return len(self.insts) - 1

    def rebuild(self, events, calls=None):
        """re-create the handlers in order; `calls` (chronological) are re-issued at the point of the history where they were
        made: a call logged with n handlers in existence runs after the n-th creation and before the next one"""
        calls = list(calls or [])
        ci = 0
        for j, (lang, how, src) in enumerate(events):
            while ci < len(calls) and calls[ci][0] <= j:
                self.reissue(calls[ci])
                ci += 1
            self.create(lang, how, src)
        while ci < len(calls):
            self.reissue(calls[ci])
            ci += 1

    def reissue(self, call):
        _nev, k, api, title, dns = call
        (real_fq if api == "fq" else real_split)(self.insts[k][1], title, dns)

    def calls_for(self, k, ncalls):
        """the first `ncalls` logged lookups that can have shaped handler k: those on k and on the handlers k was pickled from"""
        anc = set()
        while k is not None and k not in anc:
            anc.add(k)
            k = self.events[k][2]
        return [list(c) for c in self.calls[:ncalls] if c[1] in anc]


def log_call(h, api, title, dns):
    w = World.current
    if w is not None:
        k = w.index.get(id(h))
        if k is not None:
            w.calls.append((len(w.events), k, api, title, dns))


def fresh_handler(lang):
    """a handler nobody has asked anything yet, from the same siteinfo"""
    return nshandling.NsHandler(siteinfo.get_siteinfo(lang))


def real_fq(h, title, dns):
    log_call(h, "fq", title, dns)
    try:
        return h.get_fqname(title, defaultns=dns)
    except Exception as e:  # noqa: BLE001
        return ["EXC", type(e).__name__, str(e)[:80]]


def real_split(h, title, dns):
    log_call(h, "split", title, dns)
    try:
        ns, partial, full = h.splitname(title, defaultns=dns)
        return [ns, partial, full]
    except Exception as e:  # noqa: BLE001
        return ["EXC", type(e).__name__, str(e)[:80]]


def cps(s):
    return " ".join(str(ord(c)) for c in s)


def uncps(f):
    f = f.strip()
    return "".join(chr(int(x)) for x in f.split()) if f else ""


def oracle(h, site, lang, dns, title, res, expect=None):
    """The property's oracle on ONE real evaluation; `site` = the reference data of the site (c12_ref.load_sites).
    Returns (list of (kind, detail), extra evaluations made)."""
    probs = []
    evals = []
    want = c12_ref.canon(site, title, dns)
    # history independence: the answer is a function of (site, title, default namespace), so a handler that has answered
    # other lookups before must say what a handler just made from the same siteinfo says
    r0 = real_split(fresh_handler(lang), title, dns)
    if (r0[:2] != res[:2]) if res[0] == "EXC" else (r0 != res):
        probs.append(("history", "splitname(%r, %d) = %r on a handler that answered other lookups before, %r on a handler just "
                      "made from the same siteinfo" % (title, dns, res, r0)))
        if res[0] == "EXC":
            return probs, evals
    if res[0] == "EXC":
        if res[1] == "KeyError" and dns not in site["star"]:
            return [], evals
        return [("exception", "splitname raised %s: %s" % (res[1], res[2]))], evals
    ns, partial, full = res
    if want is not None and res != want:
        probs.append(("site-definition", "splitname(%r, %d) = %r, the site's own siteinfo defines %r" % (title, dns, res, want)))
    if ns not in site["star"]:
        probs.append(("shape", "reported namespace %r is not defined by the site" % (ns,)))
        return probs, evals
    local = site["star"][ns]
    want_full = (local + ":" if local else "") + partial
    if full != want_full:
        probs.append(("shape", "full name %r is not local name + ':' + remainder %r" % (full, want_full)))
    if site["capitalize"] and partial[0:1].upper() + partial[1:] != partial:
        probs.append(("shape", "remainder %r is not first-letter capitalised" % (partial,)))
    if expect is not None and [ns, partial, full] != expect:
        probs.append(("spelling", "normalises to %r, the canonical form of this spelling group is %r" % (res, expect)))
    # spelling invariance on the title itself: '_' for ' ', runs folded, surroundings stripped
    for what, t2 in c12_ref.equivalent_spellings(title):
        r2 = real_split(h, t2, dns)
        evals.append((lang, dns, t2, r2))
        if r2 != res:
            probs.append(("spelling-invariance", "splitname(%r, %d) = %r but the same title with %s, %r, gives %r"
                          % (title, dns, res, what, t2, r2)))
            break
    # idempotence: the canonical full name normalises to itself (main-namespace names only under defaultns 0:
    # an unprefixed name is by definition read in the default namespace)
    for d2 in (DNS if local else [0]):
        r2 = real_split(h, full, d2)
        evals.append((lang, d2, full, r2))
        if r2 != [ns, partial, full]:
            probs.append(("idempotence", "splitname(%r, %d) = %r; normalising its full name again (defaultns %d) gives %r"
                          % (title, dns, res, d2, r2)))
            break
    return probs, evals


def oracle_fq(h, site, lang, dns, title, fq):
    """the oracle on one real get_fqname(title, dns) (the key NuWiki, the expander and the fetcher use)"""
    probs = []
    f0 = real_fq(fresh_handler(lang), title, dns)
    if isinstance(fq, list):
        if fq[1] == "KeyError" and dns not in site["star"]:
            return []
        return [("exception", "get_fqname raised %s: %s" % (fq[1], fq[2]))]
    want = c12_ref.canon(site, title, dns)
    if want is not None and fq != want[2]:
        probs.append(("site-definition", "get_fqname(%r, %d) = %r, the site's own siteinfo defines %r" % (title, dns, fq, want[2])))
    if f0 != fq:
        probs.append(("history", "get_fqname(%r, %d) = %r on a handler that answered other lookups before, %r on a handler just "
                      "made from the same siteinfo" % (title, dns, fq, f0)))
    return probs


def history_group(rng, gen, sites):
    """2-8 lookups (splitname / get_fqname) to be issued in a row on ONE handler: one or two prefixes (a text that is no
    namespace anywhere, a namespace name of ANOTHER site, a namespace name/alias of this site; letter case varied), each call
    with its own remainder and its own default namespace, in random order"""
    lang = rng.choice(sorted(sites))
    _star, names = gen.names[lang]
    own = {m.lower() for _i, m, _k in names}
    foreign = [n for n in gen.all_names if n.lower() not in own]
    prefixes = []
    for _ in range(rng.choice([1, 1, 2])):
        q = rng.random()
        if q < 0.45 or not names:
            prefixes.append(rng.choice(HIST_PREFIXES))
        elif q < 0.65 and foreign:
            prefixes.append(rng.choice(foreign))
        else:
            prefixes.append(rng.choice(names)[1])
    calls = []
    for _ in range(rng.choice([2, 2, 3, 4, 6, 8])):
        p = rng.choice(prefixes)
        if rng.random() < 0.5:
            p = gen.casevar(p)
        t = p + rng.choice([":", ":", ": ", " :", ":_", " : "]) + rng.choice(HIST_RESTS)
        if rng.random() < 0.08:
            t = rng.choice(HIST_RESTS)
        if rng.random() < 0.1:
            t = ":" + t
        calls.append([rng.choice(["split", "split", "fq"]), t, rng.choice(HIST_DNS)])
    return {"kind": "history", "lang": lang, "how": rng.choice(HOWS[:3] + [None, None]), "calls": calls}


def site_order(seed, shard, langs):
    """creation order of the first handler of every site: a permutation per shard pair, reversed in the odd shard"""
    order = list(langs)
    random.Random(seed * 1000003 + (shard // 2) * 7907 + 5).shuffle(order)
    if shard % 2:
        order.reverse()
    return order


def run(seed, shard, ngroups, exe, corpus):
    sites = ref_sites()
    langs = sorted(sites)
    rng = random.Random(seed * 7919 + shard * 104729 + 17)
    gen = c12_gen.Gen(rng, sites)
    world = World()
    for lang in site_order(seed, shard, langs):
        world.create(lang, rng.choice(HOWS[:3]))
    groups = []
    if corpus and shard == 0:
        for c in json.load(open(corpus)):
            groups.append({"kind": "corpus", "lang": c["lang"], "dns": c["dns"], "spellings": [c["title"]], "expect": None})
    groups.extend(gen.sweep())
    for _ in range(ngroups):
        groups.append(gen.group())
    ncorpus = sum(1 for g in groups if g["kind"] == "corpus")
    for _ in range(max(60, ngroups // 2)):
        groups.insert(rng.randrange(ncorpus, len(groups) + 1), history_group(rng, gen, sites))
    evals = []       # (lang, dns, title, real result)
    hits = []
    digests = set()
    n_eval = 0
    dist = {"ns": 0, "plain": 0, "wild": 0, "foreign": 0, "sweep_own": 0, "sweep_foreign": 0, "corpus": 0, "history": 0, "history_lookups": 0, "history_same_prefix_other_dns": 0, "spellings": 0, "reeval": 0, "exc": 0, "found_ns": 0, "main_ns": 0,
            "len_sum": 0, "non_bmp": 0, "with_marks": 0, "lead_colon": 0, "judged_by_site_reference": 0, "space_runs_ge3": 0,
            "handlers_created": 0, "handlers_by_pickle": 0}
    samples = []
    for g in groups:
        dist[g["kind"]] += 1
        if rng.random() < 0.04:
            lg = rng.choice(langs)
            how = rng.choice(HOWS)
            world.create(lg, how, rng.choice(world.by_lang[lg]) if how == "pickle" else None)
        if g["kind"] == "history":
            # several lookups in a row on one handler (a new one or a living one); every answer is judged on its own
            lang = g["lang"]
            site = sites[lang]
            k = world.create(lang, g["how"]) if g["how"] else rng.choice(world.by_lang[lang])
            h = world.insts[k][1]
            seen_prefix = {}
            for api, t, dns in g["calls"]:
                nev, ncalls = len(world.events), len(world.calls)
                dist["history_lookups"] += 1
                pre = t.split(":", 1)[0].replace("_", " ").strip().lower() if ":" in t else None
                if pre is not None and seen_prefix.get(pre, {dns}) != {dns}:
                    dist["history_same_prefix_other_dns"] += 1
                if pre is not None:
                    seen_prefix.setdefault(pre, set()).add(dns)
                if api == "fq":
                    fq = real_fq(h, t, dns)
                    probs = oracle_fq(h, site, lang, dns, t, fq)
                else:
                    res = real_split(h, t, dns)
                    evals.append((lang, dns, t, res))
                    n_eval += 1
                    if c12_gen.nontrivial(t):
                        digests.add(hashlib.blake2b(repr((lang, dns, t)).encode("utf8", "replace"), digest_size=8).hexdigest())
                    probs, extra = oracle(h, site, lang, dns, t, res, None)
                    for e in extra:
                        evals.append(e)
                        dist["reeval"] += 1
                if probs and len(hits) < 40:
                    kind, detail = probs[0]
                    hits.append({"kind": kind, "detail": detail, "kinds": sorted({p[0] for p in probs}), "lang": lang, "dns": dns,
                                 "title": t, "group": "history", "expect": None, "history": [list(e) for e in world.events[:nev]],
                                 "inst": k, "api": api, "calls": world.calls_for(k, ncalls)})
            continue
        for lang in g.get("langs") or [g["lang"]]:
            site = sites[lang]
            results = []
            for t in g["spellings"]:
                k = rng.choice(world.by_lang[lang])
                h = world.insts[k][1]
                nev, ncalls = len(world.events), len(world.calls)
                res = real_split(h, t, g["dns"])
                results.append(res)
                evals.append((lang, g["dns"], t, res))
                n_eval += 1
                dist["spellings"] += 1
                dist["len_sum"] += len(t)
                if any(ord(c) > 0xFFFF for c in t):
                    dist["non_bmp"] += 1
                if "‎" in t or "‏" in t:
                    dist["with_marks"] += 1
                if t.lstrip(" _\t\n‎‏").startswith(":"):
                    dist["lead_colon"] += 1
                if "   " in t.replace("_", " ").strip():
                    dist["space_runs_ge3"] += 1
                if c12_ref.canon(site, t, g["dns"]) is not None:
                    dist["judged_by_site_reference"] += 1
                if res[0] == "EXC":
                    dist["exc"] += 1
                elif res[0] == 0:
                    dist["main_ns"] += 1
                else:
                    dist["found_ns"] += 1
                key = (lang, g["dns"], t)
                if c12_gen.nontrivial(t):
                    digests.add(hashlib.blake2b(repr(key).encode("utf8", "replace"), digest_size=8).hexdigest())
                expect = g["expect"] if lang == g["lang"] else None
                probs, extra = oracle(h, site, lang, g["dns"], t, res, expect)
                for e in extra:
                    evals.append(e)
                    dist["reeval"] += 1
                if probs and len(hits) < 40:
                    kind, detail = probs[0]
                    hits.append({"kind": kind, "detail": detail, "kinds": sorted({p[0] for p in probs}), "lang": lang, "dns": g["dns"],
                                 "title": t, "group": g["kind"], "expect": expect, "history": [list(e) for e in world.events[:nev]],
                                 "inst": k, "api": "split", "calls": world.calls_for(k, ncalls)})
            if len(samples) < 4 and g["kind"] in ("ns", "plain") and any(not c.isascii() for c in g["spellings"][0]):
                samples.append({"site": lang, "defaultns": g["dns"], "spellings": g["spellings"][:3], "result": results[0]})
    dist["handlers_created"] = len(world.events)
    dist["handlers_by_pickle"] = sum(1 for e in world.events if e[1] == "pickle")
    # ---- correspondence with the extracted model
    lines = "".join("S|%s|%d|%s\n" % (cps(lang), dns, cps(t)) for lang, dns, t, _r in evals)
    p = subprocess.run([exe], input=lines, capture_output=True, text=True)
    mout = p.stdout.split("\n")
    dis = []
    if p.returncode != 0 or len(mout) < len(evals):
        dis.append("model driver failed rc=%s lines=%d/%d %s" % (p.returncode, len(mout), len(evals), p.stderr[-300:]))
    else:
        for (lang, dns, t, r), m in zip(evals, mout):
            if m == "KEYERROR":
                mr = ["EXC", "KeyError"]
            elif "|" in m:
                a, b, c = m.split("|")
                mr = [int(a), uncps(b), uncps(c)]
            else:
                mr = ["MODEL", m]
            rr = r[:2] if r[0] == "EXC" else r
            if mr != rr:
                if len(dis) < 20:
                    dis.append("site=%s defaultns=%d title=%s: real %s model %s" % (lang, dns, json.dumps(t), json.dumps(r), json.dumps(mr)))
                else:
                    dis.append("...")
                    break
    return {"evaluations": n_eval, "tie_cases": len(evals), "digests": sorted(digests), "hits": hits, "disagreements": dis,
            "dist": dist, "samples": samples, "groups": len(groups), "site_order": site_order(seed, shard, langs)}


# ---------------------------------------------------------------------------------------- object lifetimes
LIFE_HOWS = ["json", "json", "jsons", "deepcopy"]
LIFE_SLOTS = 3


def transient_siteinfo(lang, how):
    """a siteinfo object of its own (nobody else holds it), the way a job gets one"""
    path = os.path.join(os.path.dirname(siteinfo.__file__), "known_sites", "siteinfo-%s.json" % lang)
    if how == "json":            # nuwiki._loadjson / fetcher: json.load of a file
        with open(path, encoding="utf-8") as f:
            return json.load(f)
    if how == "jsons":           # zip readers: json.loads of bytes
        with open(path, "rb") as f:
            return json.loads(f.read())
    if how == "deepcopy":
        return copy.deepcopy(siteinfo.get_siteinfo(lang))
    raise ValueError(how)


def lifetime_ops(rng, gen, sites, njobs):
    """ops: ["load", slot, lang, how] (slot's previous content is dropped) | ["use", slot, api, title, dns] | ["drop", slot]
    (followed by a full gc.collect()).  A job = load + 1..4 lookups + (mostly) drop; up to LIFE_SLOTS jobs overlap.  Lookups carry
    a namespace name of the job's own site (any kind, letter case varied), a name of ANOTHER site, or no namespace at all."""
    langs = sorted(sites)
    # a shard works mostly on a few sites (neighbouring jobs of different sites that differ in every local name)
    focus = rng.sample(langs, 3)
    ops = []
    live = {}

    def lookups(slot, lang, n):
        _star, names = gen.names[lang]
        for _ in range(n):
            q = rng.random()
            if q < 0.55 and names:
                pfx = rng.choice(names)[1]
            elif q < 0.85:
                pfx = rng.choice(gen.all_names)
            else:
                pfx = rng.choice(HIST_PREFIXES)
            if rng.random() < 0.4:
                pfx = gen.casevar(pfx)
            t = pfx + rng.choice([":", ":", ":", ": ", "_:"]) + rng.choice(HIST_RESTS)
            ops.append(["use", slot, rng.choice(["split", "split", "split", "fq"]), t, rng.choice([0, 0, 0, 6, 10, 14])])

    for _ in range(njobs):
        q = rng.random()
        if live and q < 0.12:
            slot = rng.choice(sorted(live))
            lookups(slot, live[slot], rng.randint(1, 2))
        elif live and q < 0.2:
            slot = rng.choice(sorted(live))
            ops.append(["drop", slot])
            del live[slot]
        else:
            slot = rng.randrange(LIFE_SLOTS)
            lang = rng.choice(focus) if rng.random() < 0.7 else rng.choice(langs)
            ops.append(["load", slot, lang, rng.choice(LIFE_HOWS)])
            live[slot] = lang
            lookups(slot, lang, rng.randint(1, 4))
            if rng.random() < 0.8:
                ops.append(["drop", slot])
                del live[slot]
    return ops


def pin_address_space():
    """whether a dead object's address is handed out again depends on the memory layout: run the lifetime histories without
    address-space randomisation and with a fixed str hash seed, so that a history found once can be replayed"""
    if os.environ.get("VERIF_C12_PINNED") == "1":
        return
    try:
        import ctypes
        libc = ctypes.CDLL(None, use_errno=True)
        cur = libc.personality(0xFFFFFFFF)
        if cur == -1 or libc.personality(cur | 0x0040000) == -1:      # ADDR_NO_RANDOMIZE
            return
    except Exception:  # noqa: BLE001
        return
    env = dict(os.environ, VERIF_C12_PINNED="1", PYTHONHASHSEED="0")
    sys.stdout.flush()
    os.execve(sys.executable, [sys.executable, "-m", "vt.harness.c12_impl"] + sys.argv[1:], env)


def run_ops(ops, sites, first_only=False):
    """execute the ops in THIS process; the monitor judges every lookup against the site's own reference (c12_ref.canon; the
    shape conditions; where the title is outside the reference grammar, against a handler on the bundled, never-dying
    siteinfo of the site that was set up before the first job).  Returns (problems, stats); problem = [op index, kind, detail,
    lang, api, title, dns]."""
    import gc
    persistent = {}
    for lang in sorted({o[2] for o in ops if o[0] == "load"}):
        persistent[lang] = nshandling.NsHandler(siteinfo.get_siteinfo(lang))
        real_split(persistent[lang], WARMUP, 0)
    slots = {}
    probs = []
    stats = {"loads": 0, "uses": 0, "drops": 0, "judged_by_site_reference": 0, "max_live": 0}
    for i, op in enumerate(ops):
        if op[0] == "load":
            _o, slot, lang, how = op
            slots.pop(slot, None)
            si = transient_siteinfo(lang, how)
            slots[slot] = (lang, si, nshandling.NsHandler(si))
            del si
            stats["loads"] += 1
            stats["max_live"] = max(stats["max_live"], len(slots))
        elif op[0] == "drop":
            slots.pop(op[1], None)
            gc.collect()
            stats["drops"] += 1
        else:
            _o, slot, api, title, dns = op
            if slot not in slots:
                continue
            lang, _si, h = slots[slot]
            site = sites[lang]
            stats["uses"] += 1
            res = real_fq(h, title, dns) if api == "fq" else real_split(h, title, dns)
            if isinstance(res, list) and res and res[0] == "EXC":
                if res[1] == "KeyError" and dns not in site["star"]:
                    continue
                probs.append([i, "exception", "%s raised %s: %s" % (api, res[1], res[2]), lang, api, title, dns])
            else:
                want = c12_ref.canon(site, title, dns)
                got = res if api == "fq" else res[2]
                name = "get_fqname" if api == "fq" else "splitname"
                if want is not None:
                    stats["judged_by_site_reference"] += 1
                    if (got != want[2]) if api == "fq" else (res != want):
                        probs.append([i, "site-definition", "%s(%r, %d) = %r on a handler made from a freshly loaded siteinfo of %s; the "
                                      "site's own siteinfo defines %r" % (name, title, dns, res, lang, want[2] if api == "fq" else want),
                                      lang, api, title, dns])
                else:
                    r0 = real_fq(persistent[lang], title, dns) if api == "fq" else real_split(persistent[lang], title, dns)
                    if r0 != res:
                        probs.append([i, "lifetime", "%s(%r, %d) = %r on a handler made from a freshly loaded siteinfo of %s, %r on a "
                                      "handler on the bundled siteinfo of the same site" % (name, title, dns, res, lang, r0),
                                      lang, api, title, dns])
                if api != "fq" and not (probs and probs[-1][0] == i):
                    ns, partial, full = res
                    if ns not in site["star"]:
                        probs.append([i, "shape", "reported namespace %r is not defined by the site" % (ns,), lang, api, title, dns])
                    elif full != (site["star"][ns] + ":" if site["star"][ns] else "") + partial:
                        probs.append([i, "shape", "full name %r is not local name + ':' + remainder" % (full,), lang, api, title, dns])
            if probs and first_only:
                break
    return probs, stats


def runops_subprocess(ops, first_only):
    """run a lifetime history in a process of its own whose whole life is: imports, read the history, run it.  Discovery,
    minimisation and replay all go through here, so a history behaves the same each time (address space pinned)"""
    p = subprocess.run([sys.executable, "-m", "vt.harness.c12_impl", "runops"], input=json.dumps({"ops": ops, "first_only": first_only}),
                       capture_output=True, text=True)
    lines = [ln for ln in p.stdout.splitlines() if ln.startswith("{")]
    if p.returncode != 0 or not lines:
        raise RuntimeError("runops failed rc=%s: %s" % (p.returncode, (p.stdout + p.stderr)[-800:]))
    return json.loads(lines[-1])


def runops():
    pin_address_space()
    c = json.load(sys.stdin)
    probs, stats = run_ops(c["ops"], ref_sites(), first_only=bool(c.get("first_only")))
    print(json.dumps({"problems": probs, "stats": stats}))


def lifetimes(seed, shard, njobs):
    sites = ref_sites()
    rng = random.Random(seed * 6007 + shard * 15485863 + 29)
    gen = c12_gen.Gen(rng, sites)
    ops = lifetime_ops(rng, gen, sites, njobs)
    r = runops_subprocess(ops, False)
    probs, stats = r["problems"], r["stats"]
    digests = set()
    for op in ops:
        if op[0] == "use":
            digests.add(hashlib.blake2b(repr(("life", op[3], op[4])).encode("utf8", "replace"), digest_size=8).hexdigest())
    hits = []
    for i, kind, detail, lang, api, title, dns in probs[:1]:
        hits.append({"kind": kind, "detail": detail, "lang": lang, "dns": dns, "title": title, "api": api, "group": "lifetimes",
                     "ops": ops, "op_index": i, "expect": None, "history": [], "inst": 0, "calls": []})
    return {"jobs": njobs, "ops": len(ops), "stats": stats, "problems": len(probs), "hits": hits, "digests": sorted(digests)}


def jobs_of(ops):
    """split ops into removable units: a load with everything up to (not including) the next load of any slot"""
    units = []
    for op in ops:
        if op[0] == "load" or not units:
            units.append([op])
        else:
            units[-1].append(op)
    return units


def minimise_ops(c, budget=100, par=8):
    """shorter lifetime history that still ends in a wrong answer.  Every candidate is run as a history of its own in a fresh
    process (runops); delta debugging over whole jobs, all candidates of one level probed in parallel; then single lookups."""
    import concurrent.futures
    used = [0]

    def probe(ops):
        used[0] += 1
        r = runops_subprocess(ops, True)["problems"]
        return r[0] if r else None

    def settle(ops):
        """a failing history cut after its first wrong answer (cutting changes the input, so probe again)"""
        best = (None, None)
        for _ in range(4):
            pr = probe(ops)
            if pr is None:
                return best        # the cut history behaves differently: keep the longer one that is known to fail
            best = (ops, pr)
            if pr[0] == len(ops) - 1:
                return best
            ops = ops[:pr[0] + 1]
        return best

    cur, prob = settle(c["ops"])
    if cur is None:
        return {"reproduced": False}
    ex = concurrent.futures.ThreadPoolExecutor(max_workers=par)
    try:
        n = 2
        while used[0] < budget:
            units = jobs_of(cur)
            head, last = units[:-1], units[-1]
            if not head:
                break
            chunk = max(1, len(head) // n)
            cands = []
            for i in range(0, len(head), chunk):
                cands.append([o for u in head[:i] + head[i + chunk:] for o in u] + last)
            if last[0][0] == "load" and len(last) > 2:
                cands.append([o for u in head for o in u] + [last[0], last[-1]])
            found = None
            for cand, res in zip(cands, ex.map(settle, cands)):
                if res[0] is not None and len(res[0]) < len(cur) and found is None:
                    found = res
            if found:
                cur, prob = found
                n = max(n - 1, 2)
            elif chunk == 1:
                break
            else:
                n = min(len(head), n * 2)
        # single lookups / drops inside the remaining jobs
        changed = True
        while changed and used[0] < budget + 60:
            changed = False
            idx = [i for i, o in enumerate(cur[:-1]) if o[0] != "load"]
            cands = [cur[:i] + cur[i + 1:] for i in idx]
            for cand, res in zip(cands, ex.map(settle, cands)):
                if res[0] is not None and len(res[0]) < len(cur):
                    cur, prob = res
                    changed = True
                    break
    finally:
        ex.shutdown()
    i, kind, detail, lang, api, title, dns = prob
    return {"reproduced": True, "ops": cur, "problems": [[kind, detail]], "lang": lang, "dns": dns, "title": title, "api": api,
            "history": [], "inst": 0, "calls": [], "expect": None, "attempts": used[0]}


# ---------------------------------------------------------------------------------------- replay / minimise
def judge(c):
    """rebuild the history of handlers in THIS process and apply the oracle to the one evaluation"""
    sites = ref_sites()
    world = World()
    history = c.get("history") or [[c["lang"], "new", None]]
    world.rebuild(history, c.get("calls"))
    k = c.get("inst", len(world.insts) - 1)
    h = world.insts[k][1]
    if c.get("api") == "fq":
        res = real_fq(h, c["title"], c["dns"])
        probs = oracle_fq(h, sites[c["lang"]], c["lang"], c["dns"], c["title"], res)
        return res, probs, (h, sites[c["lang"]])
    res = real_split(h, c["title"], c["dns"])
    probs, _ = oracle(h, sites[c["lang"]], c["lang"], c["dns"], c["title"], res, c.get("expect"))
    return res, probs, (h, sites[c["lang"]])


def in_child(fn):
    """run fn() in a forked child (fresh module state as of now: no handler exists yet in the parent)"""
    r, w = os.pipe()
    pid = os.fork()
    if pid == 0:
        try:
            os.close(r)
            out = json.dumps(fn())
            os.write(w, out.encode("utf8"))
        finally:
            os._exit(0)
    os.close(w)
    buf = b""
    while True:
        chunk = os.read(r, 65536)
        if not chunk:
            break
        buf += chunk
    os.close(r)
    os.waitpid(pid, 0)
    return json.loads(buf.decode("utf8")) if buf else None


def closure(history, keep):
    """sub-history containing the events `keep` and the pickle sources they need; returns (events, index map)"""
    need = set()
    todo = list(keep)
    while todo:
        i = todo.pop()
        if i in need:
            continue
        need.add(i)
        if history[i][2] is not None:
            todo.append(history[i][2])
    idx = sorted(need)
    remap = {old: new for new, old in enumerate(idx)}
    return [[history[i][0], history[i][1], None if history[i][2] is None else remap[history[i][2]]] for i in idx], remap


def shrink_title(c, kinds):
    """greedy deletion of characters (and default namespace 0) while the oracle still reports one of `kinds`;
    runs inside one process whose handlers are those of c["history"]"""
    sites = ref_sites()
    world = World()
    world.rebuild(c["history"])
    h = world.insts[c["inst"]][1]
    site = sites[c["lang"]]

    def bad(t, dns):
        res = real_split(h, t, dns)
        probs, _ = oracle(h, site, c["lang"], dns, t, res, None)
        return [p for p in probs if p[0] in kinds]

    t, dns = c["title"], c["dns"]
    if not bad(t, dns):
        return None
    if dns != 0 and bad(t, 0):
        dns = 0
    changed = True
    while changed:
        changed = False
        n = len(t)
        size = max(1, n // 2)
        while size >= 1:
            i = 0
            while i + size <= len(t):
                cand = t[:i] + t[i + size:]
                if cand and bad(cand, dns):
                    t = cand
                    changed = True
                else:
                    i += 1
            size //= 2
    # plainer characters
    for i, ch in enumerate(t):
        for simple in ("x", " "):
            if ch not in ":_ " and not (ch.isascii() and ch.isalnum()) or (ch == "_" and simple == " "):
                cand = t[:i] + simple + t[i + 1:]
                if cand != t and bad(cand, dns):
                    t = cand
                    break
    for i, ch in enumerate(t):
        if ch.isalnum() and ch != "a":
            cand = t[:i] + "a" + t[i + 1:]
            if bad(cand, dns):
                t = cand
    probs = bad(t, dns)
    return {"title": t, "dns": dns, "kind": probs[0][0], "detail": probs[0][1]}


def sub_history(history, calls, keep):
    """closure(history, keep) with the logged lookups carried along (those on dropped handlers go, positions are renumbered)"""
    ev, remap = closure(history, keep)
    kept = sorted(remap)
    out = [[sum(1 for i in kept if i < nev), remap[k], api, t, d] for nev, k, api, t, d in calls if k in remap]
    return ev, out, remap


def minimise_with_calls(c, full, k, calls):
    """the failure needs earlier lookups on the handler: shortest history of handlers, then the shortest SEQUENCE of earlier
    lookups (order kept), then plainer titles; every candidate is judged in a forked child"""
    def attempt(d):
        return in_child(lambda: [list(p) for p in judge(d)[1]])

    cur = dict(c, history=full, inst=k, calls=calls)
    first = attempt(cur)
    ev, cl, remap = sub_history(full, calls, [k])
    cand = dict(cur, history=ev, inst=remap[k], calls=cl)
    if attempt(cand):
        cur = cand
    # delta debugging over the earlier lookups: drop chunks, halve the chunk size
    n = 2
    while cur["calls"]:
        cl = cur["calls"]
        chunk = max(1, len(cl) // n)
        removed = False
        for i in range(0, len(cl), chunk):
            cand = dict(cur, calls=cl[:i] + cl[i + chunk:])
            if attempt(cand):
                cur, removed = cand, True
                n = max(n - 1, 2)
                break
        if not removed:
            if chunk == 1:
                break
            n = min(len(cl), n * 2)
    # handlers: plain constructor instead of another route; drop what is not needed
    for i in range(len(cur["history"])):
        if cur["history"][i][1] != "new":
            hist = [list(e) for e in cur["history"]]
            hist[i] = [hist[i][0], "new", None]
            cand = dict(cur, history=hist)
            if attempt(cand):
                cur = cand
    keep = sorted({cur["inst"]} | {x[1] for x in cur["calls"]})
    ev, cl, remap = sub_history(cur["history"], cur["calls"], keep)
    cand = dict(cur, history=ev, inst=remap[cur["inst"]], calls=cl)
    if len(ev) < len(cur["history"]) and attempt(cand):
        cur = cand

    # plainer lookups: remainder 'x', no decoration around the prefix, splitname instead of get_fqname, default namespace 0
    def plainer(t):
        if ":" not in t:
            return ["x"]
        pre = t.split(":", 1)[0]
        return [" ".join(pre.replace("_", " ").split()) + ":x", pre + ":x"]

    for t2 in plainer(cur["title"]):
        cand = dict(cur, title=t2, expect=None)
        if t2 != cur["title"] and attempt(cand):
            cur = cand
            break
    for j in range(len(cur["calls"])):
        nev, kk, api, t, d = cur["calls"][j]
        for alt in [[nev, kk, "split", t2, d] for t2 in plainer(t)] + [[nev, kk, "split", t, d]]:
            if alt != cur["calls"][j]:
                cl = [list(x) for x in cur["calls"]]
                cl[j] = alt
                cand = dict(cur, calls=cl)
                if attempt(cand):
                    cur = cand
                    break
    if cur["dns"] != 0:
        cand = dict(cur, dns=0)
        if attempt(cand):
            cur = cand
    final = attempt(cur)
    if not final:
        cur, final = dict(c, history=full, inst=k, calls=calls), first
    cur["reproduced"] = True
    cur["problems"] = final
    cur["sites_in_history"] = [e[0] for e in cur["history"]]
    return cur


def minimise(c):
    full = c.get("history") or [[c["lang"], "new", None]]
    k = c.get("inst", len(full) - 1)
    if c.get("calls"):
        with_calls = in_child(lambda: [list(p) for p in judge(dict(c, history=full, inst=k))[1]])
        without = in_child(lambda: [list(p) for p in judge(dict(c, history=full, inst=k, calls=[]))[1]])
        if with_calls and not without:
            return minimise_with_calls(c, full, k, c["calls"])
        if not with_calls and not without:
            return {"reproduced": False}
    c = dict(c, calls=[])
    base = dict(c)

    def attempt(events, inst):
        d = dict(base, history=events, inst=inst)
        r = in_child(lambda: [list(p) for p in judge(d)[1]])
        return r

    first = attempt(full, k)
    if not first:
        return {"reproduced": False}
    kinds = {p[0] for p in first}
    chosen, chosen_k = full, k
    ev, remap = closure(full, [k])
    if attempt(ev, remap[k]):
        chosen, chosen_k = ev, remap[k]
    else:
        for j in range(len(full)):
            if j == k:
                continue
            ev, remap = closure(full, [j, k])
            if len(ev) < len(chosen) and attempt(ev, remap[k]):
                chosen, chosen_k = ev, remap[k]
                break
    # a handler made by another route (deep copy, get_nshandler_for_lang, pickle): try the plain constructor
    for i in range(len(chosen)):
        if chosen[i][1] != "new":
            cand = [list(e) for e in chosen]
            cand[i] = [cand[i][0], "new", None]
            if attempt(cand, chosen_k):
                chosen = cand
    # drop every event that is not needed any more
    j = 0
    while j < len(chosen):
        if j != chosen_k and not any(e[2] == j for e in chosen):
            ev, remap = closure(chosen, [x for x in range(len(chosen)) if x != j])
            if attempt(ev, remap[chosen_k]):
                chosen, chosen_k = ev, remap[chosen_k]
                continue
        j += 1
    intrinsic = kinds - {"spelling"}
    out = dict(base, history=chosen, inst=chosen_k)
    if intrinsic:
        d = dict(base, history=chosen, inst=chosen_k)
        s = in_child(lambda: shrink_title(d, intrinsic))
        if s:
            out.update(title=s["title"], dns=s["dns"], expect=None)
    final = in_child(lambda: [list(p) for p in judge(out)[1]])
    if not final:          # never hand out something that does not fail
        out = dict(base, history=full, inst=k)
        final = first
    out["reproduced"] = True
    out["problems"] = final
    out["sites_in_history"] = [e[0] for e in out["history"]]
    return out


def replay():
    c = json.load(sys.stdin)
    if c.get("ops") is not None:
        probs = runops_subprocess(c["ops"], True)["problems"]
        print(json.dumps({"result": {"ops": len(c["ops"])}, "problems": [[p[1], p[2]] for p in probs]}))
        return
    res, probs, _ = judge(c)
    print(json.dumps({"result": res, "problems": [list(p) for p in probs]}))


if __name__ == "__main__":
    if sys.argv[1] == "run":
        out = run(int(sys.argv[2]), int(sys.argv[3]), int(sys.argv[4]), sys.argv[5], sys.argv[6] if len(sys.argv) > 6 else None)
        sys.stdout.write(json.dumps(out) + "\n")
    elif sys.argv[1] == "replay":
        replay()
    elif sys.argv[1] == "runops":
        runops()
    elif sys.argv[1] == "lifetimes":
        sys.stdout.write(json.dumps(lifetimes(int(sys.argv[2]), int(sys.argv[3]), int(sys.argv[4]))) + "\n")
    elif sys.argv[1] == "minimise":
        obj = json.load(sys.stdin)
        print(json.dumps(minimise_ops(obj) if obj.get("ops") else minimise(obj)))
