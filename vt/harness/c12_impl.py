"""C12 harness: runs the REAL NsHandler.splitname (snapshot of /repo) on generated title groups, applies the
property's own oracle (monitor) to the real outputs, and compares every real evaluation with the extracted
Coq model (ocaml/c12/driver.exe).

usage: python -m vt.harness.c12_impl run <seed> <shard> <ngroups> <model_exe> [<corpus.json>]
       python -m vt.harness.c12_impl replay          (stdin: {"lang","dns","title"} JSON; prints the oracle's verdict)
stdout: one JSON object (summary, monitor hits, disagreements, samples).
"""
import hashlib
import json
import logging
import random
import subprocess
import sys

logging.disable(logging.CRITICAL)

from mwlib.core import nshandling  # noqa: E402   (snapshot, via PYTHONPATH)
from mwlib.network import siteinfo  # noqa: E402
from vt.harness import c12_gen  # noqa: E402

LANGS = ["de", "en", "es", "fr", "it", "ja", "nl", "no", "pl", "pt", "simple", "sv"]
DNS = [0, 6, 10, 14]


def load():
    import glob
    import os
    d = os.path.join(os.path.dirname(siteinfo.__file__), "known_sites")
    langs = sorted(os.path.basename(f)[len("siteinfo-"):-5] for f in glob.glob(os.path.join(d, "siteinfo-*.json")))
    handlers, sites = {}, {}
    for lang in langs:
        si = siteinfo.get_siteinfo(lang)
        h = nshandling.NsHandler(si)
        handlers[lang] = h
        sites[lang] = {
            "namespaces": [(v["id"], v["*"], v.get("canonical")) for v in h.siteinfo["namespaces"].values()],
            "aliases": [(a["id"], a["*"]) for a in h.siteinfo.get("namespacealiases", [])],
            "capitalize": bool(h.capitalize),
        }
    return handlers, sites


def real_split(h, title, dns):
    try:
        ns, partial, full = h.splitname(title, defaultns=dns)
        return [ns, partial, full]
    except Exception as e:  # noqa: BLE001
        return ["EXC", type(e).__name__, str(e)[:80]]


def cps(s):
    return " ".join(str(ord(c)) for c in s)


def uncps(f):
    f = f.strip()
    return "".join(chr(int(x)) for x in f.split()) if f else ""


def oracle(h, lang, dns, title, res, expect=None):
    """The property's oracle on ONE real evaluation.  Returns list of (kind, detail, extra evaluations)."""
    probs = []
    evals = []
    if res[0] == "EXC":
        return [("exception", "splitname raised %s: %s" % (res[1], res[2]))], evals
    ns, partial, full = res
    nss = h.siteinfo["namespaces"]
    if str(ns) not in nss or nss[str(ns)]["id"] != ns:
        return [("shape", "reported namespace %r is not defined by the site" % (ns,))], evals
    local = nss[str(ns)]["*"]
    want_full = (local + ":" if local else "") + partial
    if full != want_full:
        probs.append(("shape", "full name %r is not local name + ':' + remainder %r" % (full, want_full)))
    if h.capitalize and partial[0:1].upper() + partial[1:] != partial:
        probs.append(("shape", "remainder %r is not first-letter capitalised" % (partial,)))
    if expect is not None and [ns, partial, full] != expect:
        probs.append(("spelling", "normalises to %r, the canonical form of this spelling group is %r" % (res, expect)))
    # idempotence: the canonical full name normalises to itself (main-namespace names only under defaultns 0:
    # an unprefixed name is by definition read in the default namespace)
    for d2 in (DNS if local else [0]):
        r2 = real_split(h, full, d2)
        evals.append((lang, d2, full, r2))
        if r2 != [ns, partial, full]:
            probs.append(("idempotence", "splitname(%r, %d) = %r; normalising its full name again (defaultns %d) gives %r"
                          % (title, dns, res, d2, r2)))
            break
    return probs, evals


def run(seed, shard, ngroups, exe, corpus):
    handlers, sites = load()
    rng = random.Random(seed * 7919 + shard * 104729 + 17)
    gen = c12_gen.Gen(rng, sites)
    groups = []
    if corpus and shard == 0:
        for c in json.load(open(corpus)):
            groups.append({"kind": "corpus", "lang": c["lang"], "dns": c["dns"], "spellings": [c["title"]], "expect": None})
    for _ in range(ngroups):
        groups.append(gen.group())
    evals = []       # (lang, dns, title, real result)
    hits = []
    seen_titles = set()
    digests = set()
    n_eval = 0
    dist = {"ns": 0, "plain": 0, "wild": 0, "corpus": 0, "spellings": 0, "reeval": 0, "exc": 0, "found_ns": 0, "main_ns": 0,
            "len_sum": 0, "non_bmp": 0, "with_marks": 0, "lead_colon": 0}
    samples = []
    for g in groups:
        h = handlers[g["lang"]]
        dist[g["kind"]] += 1
        results = []
        for t in g["spellings"]:
            res = real_split(h, t, g["dns"])
            results.append(res)
            evals.append((g["lang"], g["dns"], t, res))
            n_eval += 1
            dist["spellings"] += 1
            dist["len_sum"] += len(t)
            if any(ord(c) > 0xFFFF for c in t):
                dist["non_bmp"] += 1
            if "‎" in t or "‏" in t:
                dist["with_marks"] += 1
            if t.lstrip(" _\t\n‎‏").startswith(":"):
                dist["lead_colon"] += 1
            if res[0] == "EXC":
                dist["exc"] += 1
            elif res[0] == 0:
                dist["main_ns"] += 1
            else:
                dist["found_ns"] += 1
            key = (g["lang"], g["dns"], t)
            if c12_gen.nontrivial(t):
                digests.add(hashlib.blake2b(repr(key).encode("utf8", "replace"), digest_size=8).hexdigest())
            probs, extra = oracle(h, g["lang"], g["dns"], t, res, g["expect"])
            for e in extra:
                evals.append(e)
                dist["reeval"] += 1
            for kind, detail in probs:
                if len(hits) < 40:
                    hits.append({"kind": kind, "detail": detail, "lang": g["lang"], "dns": g["dns"], "title": t,
                                 "group": g["kind"], "expect": g["expect"]})
        if g["expect"] is None and g["kind"] != "wild" and len(results) > 1:
            pass
        if len(samples) < 4 and g["kind"] in ("ns", "plain") and any(not c.isascii() for c in g["spellings"][0]):
            samples.append({"site": g["lang"], "defaultns": g["dns"], "spellings": g["spellings"][:3], "result": results[0]})
    # ---- correspondence with the extracted model
    lines = "".join("S|%s|%d|%s\n" % (cps(lang), dns, cps(t)) for lang, dns, t, _r in evals)
    p = subprocess.run([exe], input=lines, capture_output=True, text=True)
    mout = p.stdout.split("\n")
    dis = []
    if p.returncode != 0 or len(mout) < len(evals):
        dis.append("model driver failed rc=%s lines=%d/%d %s" % (p.returncode, len(mout), len(evals), p.stderr[-300:]))
    else:
        for (lang, dns, t, r), m in zip(evals, mout):
            if m == "KEYERROR":
                mr = ["EXC", "KeyError"]
            elif "|" in m:
                a, b, c = m.split("|")
                mr = [int(a), uncps(b), uncps(c)]
            else:
                mr = ["MODEL", m]
            rr = r[:2] if r[0] == "EXC" else r
            if mr != rr:
                if len(dis) < 20:
                    dis.append("site=%s defaultns=%d title=%s: real %s model %s" % (lang, dns, json.dumps(t), json.dumps(r), json.dumps(mr)))
                else:
                    dis.append("...")
                    break
    return {"evaluations": n_eval, "tie_cases": len(evals), "digests": sorted(digests), "hits": hits, "disagreements": dis,
            "dist": dist, "samples": samples, "groups": len(groups)}


def replay():
    handlers, _sites = load()
    c = json.load(sys.stdin)
    h = handlers[c["lang"]]
    res = real_split(h, c["title"], c["dns"])
    probs, _ = oracle(h, c["lang"], c["dns"], c["title"], res, c.get("expect"))
    print(json.dumps({"result": res, "problems": [list(p) for p in probs]}))


if __name__ == "__main__":
    if sys.argv[1] == "run":
        out = run(int(sys.argv[2]), int(sys.argv[3]), int(sys.argv[4]), sys.argv[5], sys.argv[6] if len(sys.argv) > 6 else None)
        sys.stdout.write(json.dumps(out) + "\n")
    elif sys.argv[1] == "replay":
        replay()
