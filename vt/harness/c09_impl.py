"""C09 driver of the real Uniquifier (snapshot via PYTHONPATH).

argv[1] == "pattern": print JSON {pattern, flags} of the regex replace_tags compiles.
argv[1] == "tie"    : stdin JSON lines {id, rand, k0, text, probe}; stdout JSON lines
                      {id, protected, table:[[marker, tagname, vlist, inner, complete]], restored, probe_restored}
argv[1] == "pre"    : stdin JSON lines {id, text}; stdout JSON lines {id, out} with out = util.remove_nowiki_tags(text)
The random part and the counter are made deterministic: Uniquifier.random_string is patched to
`rand`, and k0 dummy entries are put into uniq2repl before the call (count = len(uniq2repl))."""
import json
import logging
import sys
import warnings

warnings.simplefilter("ignore")
logging.disable(logging.CRITICAL)
from mwlib.utils.uniq import Uniquifier  # noqa: E402


def pattern():
    u = Uniquifier()
    u.replace_tags("x")
    rx = u.regex_pattern
    print(json.dumps({"pattern": rx.pattern, "flags": rx.flags}))


def tie():
    for line in sys.stdin:
        line = line.strip()
        if not line:
            continue
        c = json.loads(line)
        try:
            Uniquifier.random_string = c["rand"]
            u = Uniquifier()
            for i in range(c["k0"]):
                u.uniq2repl["dummy%d" % i] = None
            p = u.replace_tags(c["text"])
            table = [[k, v["tagname"], v["vlist"], v["inner"], v["complete"]] for k, v in u.uniq2repl.items() if v is not None]
            r = u.replace_uniq(p)
            pr = u.replace_uniq(c.get("probe", ""))
            res = {"id": c["id"], "protected": p, "table": table, "restored": r, "probe_restored": pr}
        except Exception as e:
            res = {"id": c["id"], "error": "%s: %s" % (type(e).__name__, e)}
        sys.stdout.write(json.dumps(res) + "\n")
    sys.stdout.flush()


def pre():
    """stdin JSON lines {id, text}; stdout {id, out} = util.remove_nowiki_tags(text), pre = what create_pre makes of it"""
    from mwlib.parser.refine import util
    for line in sys.stdin:
        line = line.strip()
        if not line:
            continue
        c = json.loads(line)
        try:
            res = {"id": c["id"], "out": util.remove_nowiki_tags(c["text"])}
        except Exception as e:
            res = {"id": c["id"], "error": "%s: %s" % (type(e).__name__, e)}
        sys.stdout.write(json.dumps(res) + "\n")
    sys.stdout.flush()


if __name__ == "__main__":
    {"pattern": pattern, "tie": tie, "pre": pre}[sys.argv[1]]()
