"""Concurrency probe for utoken.scan: the scanner releases the GIL while it scans, so two threads may be inside
it at once.  Each thread scans its own texts repeatedly; every result must equal the sequential result of that
text (and hence tile it).  argv[1] = number of rounds, argv[2] = seed.  Prints one JSON line."""
import json
import random
import sys
import threading

from mwlib.parser.token.utoken import scan  # the snapshot's

rounds = int(sys.argv[1])
rng = random.Random(int(sys.argv[2]))
LEX = ["a", " ", "\n", "==", "[[", "]]", "{|", "|}", "|-", "||", "'''", "<br/>", "http://x.org/a", "&amp;", "", "\U0001F600",
       "* ", ": ", "----", "<b>", "</b>", "{{", "}}", "x" * 50, "\n\n", "<!-- c -->", "\x7fUNIQ-a-1-0f-QINU\x7f"]


def text(n):
    return "".join(rng.choice(LEX) for _ in range(n))


texts = [text(rng.choice([1, 3, 10, 40, 200, 1000])) for _ in range(40)]
texts += [t * 3 for t in texts[:10]]
expected = {t: [tuple(x) for x in scan(t)] for t in texts}   # sequential reference
bad = []
lock = threading.Lock()


def worker(k):
    r = random.Random(k)
    for _ in range(rounds):
        t = r.choice(texts)
        got = [tuple(x) for x in scan(t)]
        if got != expected[t]:
            with lock:
                if len(bad) < 5:
                    bad.append({"text": [ord(c) for c in t], "expected": expected[t][:8], "got": got[:8], "thread": k})
            return


threads = [threading.Thread(target=worker, args=(k,)) for k in range(4)]
for th in threads:
    th.start()
for th in threads:
    th.join()
print(json.dumps({"scans": 4 * rounds, "texts": len(texts), "bad": bad}))
