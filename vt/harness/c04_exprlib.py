"""C04 / #expr — library used by the checker process (does not import mwlib).

build()          OCaml driver around the extracted parser model (coq/C04/ExprModel.v, table = Gen_ops.gen_table)
run(run, src)    generation of expression trees, the three comparisons, returns rule/trusted/... for the evidence
replay(r, src)   re-run one monitor hit on the real code

Per generated tree t (grammar of the property) and serialisation s in {minimal, full, doubled parentheses}
(token lists produced by the EXTRACTED serialisers w.r.t. the documented table, rendered with random white space):
  (t1) expr.tokenize(text)  ==  the model's token list
  (t2) Expr().parse_expr(text)  ==  extracted parse_expr on the REAL token list, generated table, OCaml numeric
       instance (ints exactly, floats by bits, exception kind); cases the instance cannot decide are counted
  (t3) MONITOR, independent of the model: reference evaluation of the TREE (documented semantics, Python numbers)
       vs the expanded text of {{#expr: text}}."""
import json
import math
import os
import subprocess
import threading

from vt import core

UNARY = ["-", "not", "abs", "floor", "ceil", "trunc"]
BINARY = ["+", "-", "*", "/", "div", "mod", "^", "=", "!=", "<>", "<", ">", "<=", ">=", "and", "or"]
WORDS = {"not", "abs", "floor", "ceil", "trunc", "div", "mod", "and", "or"}


class Skip(Exception):
    """outside the property's domain (negative operand of mod)"""


class RefError(Exception):
    pass


def build():
    return core.ocaml_build("c04e", "C04/ExprExtract.v", "driver.ml", dirs=["C03", "C04"])   # same project as check_proofs("C04", dirs=["C03"])


# ------------------------------------------------------------------ reference semantics (the monitor's oracle)

def ref_eval(t):
    """Value of the tree under the documented semantics; Python ints/floats.  Raises RefError where the
    operation is undefined (division by zero, pow domain/range), Skip outside the property's domain."""
    k = t[0]
    if k == "N":
        return float(t[1]) if "." in t[1] else int(t[1])
    try:
        if k == "U":
            x = ref_eval(t[2])
            op = t[1]
            if op == "-":
                return -x
            if op == "not":
                return int(not x)
            if op == "abs":
                return abs(x)
            if op == "floor":
                return int(math.floor(x))
            if op == "ceil":
                return int(math.ceil(x))
            if op == "trunc":
                return int(x)
        elif k == "B":
            op = t[1]
            x = ref_eval(t[2])
            y = ref_eval(t[3])
            if op == "+":
                return x + y
            if op == "-":
                return x - y
            if op == "*":
                return x * y
            if op in ("/", "div"):
                return x / y
            if op == "mod":
                if x < 0 or y < 0:
                    raise Skip()
                return int(x) % int(y)
            if op == "^":
                return math.pow(x, y)
            if op == "=":
                return int(x == y)
            if op in ("!=", "<>"):
                return int(x != y)
            if op == "<":
                return int(x < y)
            if op == ">":
                return int(x > y)
            if op == "<=":
                return int(x <= y)
            if op == ">=":
                return int(x >= y)
            if op == "and":
                return int(bool(x) and bool(y))
            if op == "or":
                return int(bool(x) or bool(y))
    except (ZeroDivisionError, ValueError, OverflowError) as e:
        raise RefError(type(e).__name__)
    raise AssertionError("bad tree %r" % (t,))


def ref_outcome(t):
    """{"t": "int"|"float"|"error"|"skip", "v": ...}"""
    try:
        v = ref_eval(t)
    except RefError as e:
        return {"t": "error", "v": str(e)}
    except Skip:
        return {"t": "skip", "v": "mod of a negative operand"}
    if isinstance(v, float):
        if math.isinf(v) or math.isnan(v):
            return {"t": "skip", "v": "non-finite value"}
        return {"t": "float", "v": v.hex()}
    return {"t": "int", "v": str(v)}


def is_error_text(s):
    return s.startswith('<strong class="error">') and s.endswith("</strong>")


def monitor(expected, expanded):
    """None if the expanded text of {{#expr:..}} denotes the expected value, else a description."""
    if expected["t"] == "skip":
        return None
    if expanded is None:
        return "expansion raised"
    if expected["t"] == "error":
        return None if is_error_text(expanded) else "expected an error, got %r" % expanded
    if is_error_text(expanded):
        return "expected %s, got the error %r" % (show_expected(expected), expanded)
    v = int(expected["v"]) if expected["t"] == "int" else float.fromhex(expected["v"])
    try:
        got = float(expanded)
    except ValueError:
        return "expected %s, got unparsable %r" % (show_expected(expected), expanded)
    if v == int(v) and abs(v) < 1e14:
        ok = expanded == str(int(v))
    else:
        ok = abs(got - v) <= 1e-9 * abs(v)
    return None if ok else "expected %s, got %r" % (show_expected(expected), expanded)


def show_expected(e):
    if e["t"] == "float":
        return repr(float.fromhex(e["v"]))
    return e["v"]


# ------------------------------------------------------------------ generation

def gen_literal(rng):
    r = rng.random()
    if r < 0.55:
        return ("N", str(rng.randrange(0, 10)))
    if r < 0.75:
        return ("N", str(rng.choice([rng.randrange(10, 100), rng.randrange(100, 10000)])))
    ip = str(rng.randrange(0, 100))
    fr = "".join(rng.choice("0123456789") for _ in range(rng.randrange(1, 4)))
    if r > 0.97:
        return ("N", "." + fr)            # the tokenizer accepts a leading dot
    return ("N", ip + "." + fr)


def gen_tree(rng, depth):
    if depth == 0 or rng.random() < 0.12:
        return gen_literal(rng)
    if rng.random() < 0.3:
        return ("U", rng.choice(UNARY), gen_tree(rng, depth - 1))
    op = rng.choice(BINARY)
    for _attempt in range(6):
        a = gen_tree(rng, depth - 1)
        if op == "^" and rng.random() < 0.75:
            b = ("N", str(rng.randrange(0, 5)))
        else:
            b = gen_tree(rng, rng.randrange(0, depth))
        if rng.random() < 0.5:
            pass
        elif op != "^":
            a, b = b, a
        if op != "mod":
            return ("B", op, a, b)
        try:
            if ref_eval(a) >= 0 and ref_eval(b) >= 0:
                return ("B", op, a, b)
        except (RefError, Skip):
            pass
    return ("B", op, gen_literal(rng), gen_literal(rng))


def depth_of(t):
    return 0 if t[0] == "N" else 1 + max(depth_of(c) for c in t[2:])


def ops_of(t, acc=None):
    acc = [] if acc is None else acc
    if t[0] != "N":
        acc.append(("u" if t[0] == "U" else "") + t[1])
        for c in t[2:]:
            ops_of(c, acc)
    return acc


def subtrees(t):
    res = [t]
    for c in t[2:] if t[0] != "N" else ():
        res += subtrees(c)
    return res


def tree_line(t):
    if t[0] == "N":
        return "N " + t[1]
    if t[0] == "U":
        return "U %s %s" % (t[1], tree_line(t[2]))
    return "B %s %s %s" % (t[1], tree_line(t[2]), tree_line(t[3]))


def tree_str(t):
    if t[0] == "N":
        return t[1]
    if t[0] == "U":
        return "%s(%s)" % (t[1] if t[1] != "-" else "neg", tree_str(t[2]))
    return "(%s %s %s)" % (tree_str(t[2]), t[1], tree_str(t[3]))


def tok_text(tok):
    if tok in ("(", ")"):
        return tok
    return tok[2:]


def render(rng, toks, style):
    """token list -> text.  style 0: single spaces; 1: random white space; 2: no white space where unambiguous"""
    out = []
    prev = None
    for tok in toks:
        s = tok_text(tok)
        if style == 1 and tok.startswith("o:") and s in WORDS and rng.random() < 0.15:
            s = rng.choice([s.upper(), s.capitalize()])
        if prev is not None:
            need = (prev[-1].isalpha() and s[0].isalpha()) or (prev[-1] in "<>" and s[0].isalpha())
            if style == 0:
                sep = " "
            elif style == 1:
                sep = rng.choice([" ", " ", "  ", "\t", "   "] + ([] if need else ["", ""]))
            else:
                sep = " " if need else ""
            out.append(sep)
        out.append(s)
        prev = s
    text = "".join(out)
    if style == 1 and rng.random() < 0.3:
        text = rng.choice([" ", "  "]) + text + rng.choice(["", " "])
    return text


def real_tokens_to_model(tokens):
    res = []
    for operand, operator in tokens:
        if operand:
            if operator == "" and operand in ("e", "pi"):
                res.append("c:" + operand)
            elif operator == "":
                res.append("n:" + operand)
            else:
                res.append("u:both:" + operand + ":" + operator)
        elif operator in ("(", ")"):
            res.append(operator)
        else:
            res.append("o:" + operator)
    return res


# ------------------------------------------------------------------ running both sides

def run_driver(exe, lines):
    p = subprocess.run([exe], input="".join(x + "\n" for x in lines), capture_output=True, text=True, timeout=3000)
    out = p.stdout.splitlines()
    if p.returncode != 0 or len(out) != len(lines):
        raise RuntimeError("c04e driver failed rc=%s (%d/%d lines): %s" % (p.returncode, len(out), len(lines), p.stderr[-500:]))
    res = {}
    for ln in out:
        if ln.startswith("DRIVER-ERROR"):
            raise RuntimeError("c04e driver: " + ln)
        f = ln.split("\t")
        res[f[0]] = f[1:]
    return res


def run_real(src, cases, nproc=None):
    """cases: list of {"id","text"} -> dict id -> result (parallel worker processes on the snapshot)"""
    if not cases:
        return {}
    nproc = nproc or max(1, min(core.NPROC, 16, (len(cases) + 1499) // 1500))
    chunks = [cases[i::nproc] for i in range(nproc)]
    outs = [None] * nproc

    def work(i):
        inp = "".join(json.dumps(c) + "\n" for c in chunks[i])
        outs[i] = core.run_impl("vt.harness.c04_expr", [], src=src, input=inp, timeout=3000)

    ths = [threading.Thread(target=work, args=(i,)) for i in range(nproc)]
    for th in ths:
        th.start()
    for th in ths:
        th.join()
    res = {}
    for i, (rc, out) in enumerate(outs):
        for ln in out.splitlines():
            if ln.startswith("{"):
                r = json.loads(ln)
                if "harness_error" in r:
                    raise RuntimeError("c04_expr harness error: " + r["harness_error"])
                res[r["id"]] = r
        if rc != 0:
            raise RuntimeError("c04_expr worker failed rc=%s: %s" % (rc, out[-800:]))
    if len(res) != len(cases):
        raise RuntimeError("c04_expr worker returned %d/%d results" % (len(res), len(cases)))
    return res


PERR = {"expected-operator": "ExprError: expected operator", "unbalanced": "ExprError: unbalanced parenthesis",
        "unknown-operator": "ExprError: unknown operator", "bad-stack": "ExprError: bad stack", "assert": "AssertionError"}


def same_value(model, raw):
    """model: fields of the driver's result string, raw: {"t","v"} of the worker"""
    kind, _, val = model.partition(" ")
    if kind == "I":
        return raw["t"] == "int" and raw["v"] == val
    if kind == "F":
        return raw["t"] == "float" and float.fromhex(raw["v"]).hex() == float.fromhex(val).hex()
    if kind == "ERR":
        return raw["t"] == "exc" and raw["v"].startswith(val + ":")
    if kind == "PERR":
        return raw["t"] == "exc" and val in PERR and raw["v"].startswith(PERR[val])
    if kind == "EMPTY":
        return raw["t"] == "str" and raw["v"] == ""
    return False


def T(s):
    """tiny tree notation for the directed probes: nested tuples with ints/strings as leaves"""
    if isinstance(s, tuple):
        if len(s) == 2:
            return ("U", s[0], T(s[1]))
        return ("B", s[1], T(s[0]), T(s[2]))
    return ("N", str(s))


# directed probes: (tree, serialiser) ; the minimal serialisation is the text in the comment
PROBES = [
    T((("floor", "2.5"), "^", 2)),            # floor 2.5 ^ 2   -> 4
    T((("not", 0), "^", 0)),                  # not 0 ^ 0       -> 1
    T((("-", 2), "^", 2)),                    # - 2 ^ 2         -> 4
    T((2, "^", ("-", 1))),                    # 2 ^ - 1         -> 0.5
    T(((2, "^", 3), "^", 2)),                 # 2 ^ 3 ^ 2       -> 64
    T(((1, "-", 2), "-", 3)),                 # 1 - 2 - 3
    T(((8, "/", 4), "/", 2)),                 # 8 / 4 / 2
    T(((7, "mod", 4), "mod", 2)),             # 7 mod 4 mod 2
    T(((1, "<", 2), "=", 1)),                 # 1 < 2 = 1
    T((1, "or", (0, "and", 0))),              # 1 or 0 and 0
    T((("not", 1), "+", 1)),                  # not 1 + 1
    T((("abs", ("-", 3)), "+", 1)),           # abs - 3 + 1
    T(("-", ("abs", ("-", 3)))),              # - abs - 3
    T((2, "*", (3, "+", 4))),                 # 2 * ( 3 + 4 )
    T((("ceil", "1.2"), "*", 2)),             # ceil 1.2 * 2
    T(("trunc", ("-", "1.7"))),               # trunc - 1.7
    T((10, "div", 4)),                        # 10 div 4
    T(("1.5", "+", ".5")),                    # 1.5 + .5
    T((1, "-", (2, "-", 3))),                 # 1 - ( 2 - 3 )
    T((2, "^", (3, "^", 2))),                 # 2 ^ ( 3 ^ 2 )
    T((("abs", ("-", 2)), "^", 2)),           # abs - 2 ^ 2
    T((2, "*", (("ceil", "1.5"), "^", 2))),   # 2 * ceil 1.5 ^ 2
    T((("trunc", "2.9"), "^", ("-", 1))),     # trunc 2.9 ^ - 1
    T(((1, "<=", 2), ">=", (0, "<>", 0))),    # comparisons chain
    T((("not", (1, "and", 0)), "or", 0)),
    T((1, "/", 0)),
    T((3, "mod", 0)),
    T((0, "^", ("-", 1))),
]
# the logical operators over ARBITRARY numeric operands (not only the 0/1 a comparison yields): every pair of operand
# classes {0, 1, integer > 1, large integer, negative, decimal in (0,1), decimal > 1, 0.0, negative decimal, arithmetic
# sub-expression with value 0 / non-zero / fractional} under and / or, each class under not, and the same nested in arithmetic.
LOGIC_OPERANDS = [0, 1, 2, 7, 4613, ("-", 3), "0.5", "0.25", "61.5", "0.0", ("-", "0.5"), (3, "-", 3), (1, "+", 1), (7, "-", 2),
                  (1, "/", 4), ("2.5", "*", 2), ("floor", "0.5"), ("abs", ("-", 6))]


def logic_family():
    trees = []
    for a in LOGIC_OPERANDS:
        trees.append(T(("not", a)))
        for b in LOGIC_OPERANDS:
            for op in ("and", "or"):
                trees.append(T((a, op, b)))
    for a, b in [(2, 3), (0, "0.5"), ("0.5", "0.5"), (0, 0), (3, 0)]:
        trees.append(T((1, "+", (a, "and", b))))
        trees.append(T(((a, "or", b), "*", 5)))
        trees.append(T(("-", (a, "and", b))))
        trees.append(T((("not", a), "or", b)))
        trees.append(T(((a, "and", b), "=", 1)))
        trees.append(T(((a, "or", b), "and", (b, "or", a))))
    return trees


# raw texts (tie (t2) only: no tree, hence no token/monitor comparison)
RAW_PROBES = ["((2))", "2e3", "-2e3", "1 e -2 e 3", "2 3", "(1", "1)", "2.5e", "1 . 2", "(2)(3)", "2 not 3", "e", "pi*2",
              "E", "2 E 3", "e e e", "(1+2)e2", "1e400", "", "   ", "(-8)^0.5", "++5", "--5", "0-+5", "2 + + 3", "()", ")(",
              "abs", "1 +", "* 2", "1 foo 2", "2 pi", "(2) 3", "- - - 1", "not not 1", "1 = = 1", "10^20", "1/3*3",
              "2 ** 3", "1 , 2", "floor 2.5 ^ 2", "not 0 ^ 0", "-2^2", "2^-1", "2^3^2", "1.5 + .5", "trunc -1.7", "5 mod -3",
              "-5 mod 3", "5.9 mod 2.1"]


def op_class(n):
    if n[0] == "U":
        return "unary-sign" if n[1] == "-" else "prefix-function"
    op = n[1]
    if op == "^":
        return "^"
    if op in ("*", "/", "div", "mod"):
        return "mul"
    if op in ("+", "-"):
        return "add"
    if op in ("and", "or"):
        return op
    return "cmp"


def compose(t, mintext, flags):
    """text of t from the minimal texts of its children, child i parenthesised iff flags[i]"""
    parts = [("( %s )" % mintext[tree_line(c)]) if f else mintext[tree_line(c)] for c, f in zip(t[2:], flags)]
    if t[0] == "U":
        return "%s %s" % (t[1], parts[0])
    return "%s %s %s" % (parts[0], t[1], parts[1])


def bare_flags(t, mintext):
    """which children the minimal serialisation parenthesises (recovered from the texts; no precedence table here)"""
    import itertools
    if t[0] == "N":
        return ()
    for flags in itertools.product([False, True], repeat=len(t) - 2):
        if compose(t, mintext, flags) == mintext[tree_line(t)]:
            return flags
    return None


def variants(t, mintext):
    """[(child index, text with that additional child parenthesised)] for the operator children that the
    minimal serialisation leaves bare"""
    base = bare_flags(t, mintext)
    if not base:
        return []
    res = []
    for i, c in enumerate(t[2:]):
        if c[0] != "N" and not base[i]:
            fl = list(base)
            fl[i] = True
            res.append((i, compose(t, mintext, fl)))
    return res


def spine_class(c, side, mintext):
    """class of the operator child c of a failing node; "prefix-function" when a prefix function sits on the bare
    spine of c that faces the parent's operator (side 0: c is the left child -> right spine, else left spine)"""
    n = c
    while n[0] != "N":
        if op_class(n) == "prefix-function":
            return "prefix-function"
        fl = bare_flags(n, mintext)
        if fl is None:
            break
        if n[0] == "U":
            if side != 0 or fl[0]:
                break
            n = n[2]
        else:
            k = 1 if side == 0 else 0
            if fl[k]:
                break
            n = n[2 + k]
    return op_class(c)


def classify(t, culprits, mintext):
    """root-cause label: operator class of the root of the smallest failing sub-tree vs the classes of the bare
    operator children whose explicit parenthesisation repairs the result (all bare ones if none does alone)"""
    if t[0] == "N":
        return None
    kids = sorted(set(spine_class(t[2 + i], i if t[0] == "B" else 1, mintext) for i in culprits))
    if not kids:
        return None
    return "expr-precedence:%s-vs-%s" % (op_class(t), "+".join(kids))


def run(run, src):
    rng = run.rng
    # the driver embeds Gen_ops.gen_table: make sure it is the table of THIS snapshot (a failing translator leaves a
    # stale file behind; the parser tie (t2) is then meaningless and is skipped, the translator failure is reported)
    table_fresh = True
    try:
        from vt.gen import c04_ops
        c04_ops.generate(src)
    except Exception as e:
        table_fresh = False
        run.obligation("#expr operator table translated for the parser tie", False, "%s: %s" % (type(e).__name__, e))
    exe = build()
    n_trees = 3000 if run.tier == "quick" else 100000
    family = logic_family()
    trees = list(PROBES) + family
    depth_hist = {}
    while len(trees) < len(PROBES) + len(family) + n_trees:
        d = rng.choice([1, 2, 2, 3, 3, 3, 4, 4, 4, 5, 5, 5])
        t = gen_tree(rng, d)
        trees.append(t)
    # --- model side: serialisations (w.r.t. the documented table) and the model's own results
    ser = run_driver(exe, ["E %d %s" % (i, tree_line(t)) for i, t in enumerate(trees)])
    cases = []
    meta = {}
    stats = {"ser_min": 0, "ser_full": 0, "ser_double": 0, "style_spaces": 0, "style_random": 0, "style_compact": 0}
    opmix = {}
    for i, t in enumerate(trees):
        f = ser[str(i)]
        exp = ref_outcome(t)
        dp = depth_of(t)
        depth_hist[dp] = depth_hist.get(dp, 0) + 1
        for o in ops_of(t):
            opmix[o] = opmix.get(o, 0) + 1
        kinds = [0, 1 + rng.randrange(2)] if i >= len(PROBES) + len(family) else [0, 1, 2] if i < len(PROBES) else [0, 1]
        for kk in kinds:
            toks = f[kk].split(" ")
            style = rng.choice([0, 1, 1, 2]) if i >= len(PROBES) + len(family) else 0
            cid = "%d.%d" % (i, kk)
            text = render(rng, toks, style)
            cases.append({"id": cid, "text": text})
            meta[cid] = {"tree": t, "toks": toks, "expected": exp, "model_self": f[3 + kk], "ser": ["ser_min", "ser_full", "ser_double"][kk]}
            stats[["ser_min", "ser_full", "ser_double"][kk]] += 1
            stats[["style_spaces", "style_random", "style_compact"][style]] += 1
    for j, text in enumerate(RAW_PROBES):
        cases.append({"id": "raw.%d" % j, "text": text})
    # --- real side
    real = run_real(src, cases)
    # --- (t1) tokens
    dis1 = []
    n1 = 0
    tlines = []
    for c in cases:
        r = real[c["id"]]
        if not isinstance(r["tokens"], list):
            dis1.append("tokenize(%r) raised %s" % (c["text"], r["tokens"]))
            continue
        mt = real_tokens_to_model(r["tokens"])
        if any((" " in x or "\t" in x or "\n" in x) for x in mt):
            dis1.append("token with white space for %r: %r" % (c["text"], r["tokens"]))
            continue
        tlines.append("T %s %s" % (c["id"], " ".join(mt)))
        m = meta.get(c["id"])
        if m is not None:
            n1 += 1
            if mt != m["toks"]:
                dis1.append("tokenize(%r) = %r, model tokens %r" % (c["text"], r["tokens"], m["toks"]))
    run.tie("#expr tokens: expr.tokenize(text) vs token list of the extracted serialiser", n1, dis1)
    # --- (t2) parser + numeric instance on the real tokens
    mres = run_driver(exe, tlines) if table_fresh else {}
    dis2 = []
    n2 = 0
    ood = {}
    outcome = {"int": 0, "float": 0, "exc": 0, "str": 0}
    for c in cases:
        cid = c["id"]
        if cid not in mres:
            continue
        mv = mres[cid][0]
        raw = real[cid]["raw"]
        outcome[raw["t"]] = outcome.get(raw["t"], 0) + 1
        if mv.startswith("OOD"):
            ood[mv[4:]] = ood.get(mv[4:], 0) + 1
            continue
        n2 += 1
        if not same_value(mv, raw):
            dis2.append("parse_expr(%r): real %s %s, model %s" % (c["text"], raw["t"], raw["v"], mv))
    run.tie("#expr parser: Expr().parse_expr(text) vs extracted parse_expr (generated table, OCaml numeric instance) on expr.tokenize(text)",
            n2, dis2)
    # --- (t3) monitor
    bad = []
    n3 = 0
    skipped = 0
    mon_kinds = {"int": 0, "float": 0, "error": 0}
    for c in cases:
        m = meta.get(c["id"])
        if m is None:
            continue
        exp = m["expected"]
        key = (c["text"],)
        ops = set(ops_of(m["tree"]))
        run.count(key, nontrivial=depth_of(m["tree"]) >= 2 and len(ops) >= 2)
        if exp["t"] == "skip":
            skipped += 1
            continue
        n3 += 1
        mon_kinds[exp["t"]] += 1
        why = monitor(exp, real[c["id"]]["expanded"])
        if why:
            bad.append((c, m, why))
        elif len(run.samples) < 4 and depth_of(m["tree"]) >= 3 and m["ser"] == "ser_min":
            run.sample({"wikitext": "{{#expr:" + c["text"] + "}}", "expanded": real[c["id"]]["expanded"],
                        "reference": show_expected(exp), "tree": tree_str(m["tree"])})
    # root cause of each hit: the smallest sub-tree whose minimal serialisation the real code gets wrong
    cap = 400
    seen_fp = {}
    if bad:
        subs = []
        for bi, (c, m, why) in enumerate(bad[:cap]):
            for si, s in enumerate(sorted(subtrees(m["tree"]), key=lambda x: len(tree_line(x)))):
                subs.append(("%d.%d" % (bi, si), s))
        sser = run_driver(exe, ["E %s %s" % (sid, tree_line(s)) for sid, s in subs])
        text_of = lambda toks: " ".join(tok_text(x) for x in toks.split(" "))
        scases = []
        for sid, s in subs:
            scases.append({"id": sid + ".m", "text": text_of(sser[sid][0])})
            scases.append({"id": sid + ".f", "text": text_of(sser[sid][1])})
        sreal = run_real(src, scases)
        mintext = {tree_line(s): text_of(sser[sid][0]) for sid, s in subs}
        smallest = {}
        for sid, s in subs:
            bi = int(sid.split(".")[0])
            if bi in smallest:
                continue
            e = ref_outcome(s)
            wm = monitor(e, sreal[sid + ".m"]["expanded"])
            wf = monitor(e, sreal[sid + ".f"]["expanded"])
            if wf:
                smallest[bi] = [s, text_of(sser[sid][1]), e, wf, [], False]
            elif wm:
                smallest[bi] = [s, text_of(sser[sid][0]), e, wm, [], True]
        vcases = []
        for bi, sm in smallest.items():
            if sm[5]:
                for ci, vtext in variants(sm[0], mintext):
                    vcases.append({"id": "%d.%d" % (bi, ci), "text": vtext})
        vreal = run_real(src, vcases)
        for vc in vcases:
            bi, ci = vc["id"].split(".")
            sm = smallest[int(bi)]
            sm[4].append((int(ci), monitor(sm[2], vreal[vc["id"]]["expanded"]) is None))
        for bi, (c, m, why) in enumerate(bad[:cap]):
            if bi in smallest:
                s, stext, e, w, var, full_ok = smallest[bi]
                culprits = [ci for ci, fixed in var if fixed] or [ci for ci, _f in var]
                if not full_ok:      # wrong even with every sub-expression parenthesised: not a precedence matter
                    fp = "expr-semantics:" + (s[1] if s[0] != "N" else "literal")
                else:
                    fp = classify(s, culprits, mintext) or ("expr:" + stext)
                rep = {"kind": "expr", "text": stext, "expected": e, "tree": tree_str(s),
                       "found_in": {"text": c["text"], "tree": tree_str(m["tree"]), "why": why}}
                what = "{{#expr:%s}}: %s (tree %s)" % (stext, w, tree_str(s))
            else:
                fp = "expr:" + c["text"]
                rep = {"kind": "expr", "text": c["text"], "expected": m["expected"], "tree": tree_str(m["tree"])}
                what = "{{#expr:%s}}: %s (tree %s)" % (c["text"], why, tree_str(m["tree"]))
            if fp not in seen_fp or len(rep["text"]) < len(seen_fp[fp][1]["text"]):
                seen_fp[fp] = (what, rep)
        for fp in sorted(seen_fp):                 # one hit per root cause: the shortest failing text
            run.hit(fp, seen_fp[fp][0], seen_fp[fp][1])
    if not bad:     # mismatches are reported as hits (one per root cause), not as a broken obligation
        run.obligation("#expr monitor: reference value of the tree == expanded {{#expr:..}} (%d cases)" % n3, True, "")
    return {
        "rule": ("#expr: random expression trees to depth 5 over integer literals 0..9999 (small favoured), decimals with 1-3 "
                 "fractional digits, unary minus, + - * / div mod ^, = != <> < > <= >=, and/or/not, abs floor ceil trunc "
                 "(mod operands regenerated until non-negative), each serialised by the extracted ser_min and by ser_full or "
                 "ser_double, rendered with single/random/no white space and random letter case of word operators; plus %d "
                 "directed trees in all three serialisations, %d trees of the logic family (and/or over all pairs, not over each, of %d "
                 "operand classes: 0, 1, integers > 1, negative, decimals in (0,1) and > 1, 0.0, arithmetic sub-expressions; also nested in "
                 "arithmetic) and %d raw texts (malformed input, e-notation, constants). "
                 "distinct = distinct text; non-trivial = depth >= 2 and at least two different operators"
                 % (len(PROBES), len(family), len(LOGIC_OPERANDS), len(RAW_PROBES))),
        "trusted": ["#expr: OCaml numeric instance of ocaml/c04e/driver.ml (Python int/float mixing, math.pow error cases, libm pow) — exercised by tie t2",
                    "#expr: tokenizer regular expression of expr.py is not modelled; its output is compared with the model's token list on every case (t1) and its text is pinned by sha256 in the translator",
                    "#expr: result formatting of ParserFunctions.EXPR (str(int)/str(float), E notation) is only read back numerically by the monitor"],
        "assumptions": ["#expr: integers stay below 2^53 in the numeric instance of the tie (larger: case counted as out of domain)",
                        "#expr: non-finite reference values and negative mod operands are outside the property's domain (counted)"],
        "distribution": {"expr_depth_histogram": {str(k): v for k, v in sorted(depth_hist.items())},
                         "expr_operator_mix": dict(sorted(opmix.items())),
                         "expr_serialisations": stats,
                         "expr_real_outcomes": outcome,
                         "expr_monitor_reference_kinds": mon_kinds},
        "coverage": {"expr_trees": len(trees), "expr_texts": len(cases),
                     "expr_tie_tokens_cases": n1, "expr_tie_parser_cases": n2, "expr_monitor_cases": n3,
                     "expr_out_of_domain_numeric_instance": ood, "expr_monitor_skipped_out_of_domain": skipped,
                     "expr_monitor_mismatches": len(bad)},
    }


def replay(r, src):
    text = r["text"]
    res = run_real(src, [{"id": "replay", "text": text}], nproc=1)["replay"]
    why = monitor(r["expected"], res["expanded"])
    print("wikitext : {{#expr:%s}}" % text)
    print("tree     : %s" % r.get("tree"))
    print("expected : %s  (documented precedence, left association)" % show_expected(r["expected"]))
    print("expanded : %r   (parse_expr: %s %s)" % (res["expanded"], res["raw"]["t"], res["raw"]["v"]))
    print("REPRODUCED: " + why if why else "not reproduced")
    return 1 if why else 0
