"""Snapshots of a real mwlib node tree as heap text for the extracted model (coq/C05/Heap.v), plus an
independent (untrusted) Python reading of the same properties, used for shrinking and as a cross-check
of the extracted checkers.  No mwlib import at module level (the parent process imports this too)."""

CLS = {"Text": 1, "Table": 2, "Row": 3, "Cell": 4, "Caption": 5, "TableCaption": 5, "ItemList": 6, "Item": 7,
       "Section": 8, "Reference": 9, "Paragraph": 10, "BreakingReturn": 11}
OTHER = ["Article", "Node", "Style", "TagNode", "Div", "Span", "Center", "ArticleLink", "ImageLink", "NamedURL", "URL",
         "Math", "PreFormatted", "DefinitionList", "DefinitionTerm", "DefinitionDescription", "Blockquote", "Emphasized",
         "Strong", "Gallery", "ReferenceList", "Source", "Code", "Small", "Big", "Sub", "Sup", "CategoryLink", "LangLink",
         "NamespaceLink", "InterwikiLink", "SpecialLink", "Link", "HorizontalRule", "Timeline", "ImageMap", "Font", "Strike",
         "Underline", "Overline", "Cite", "Var", "Teletyped", "Indented", "Italic", "Index", "Deleted", "Inserted",
         "Abbreviation", "Ruby", "RubyBase", "RubyText", "RubyParentheses", "MapFrame", "Chapter", "Book", "Control"]
for _i, _n in enumerate(OTHER):
    CLS[_n] = 20 + _i
UNKNOWN_CLS = 19
LINK_TEXT = ("ArticleLink", "NamespaceLink", "InterwikiLink", "SpecialLink")


def visible_words(node):
    """The words this node itself contributes to the visible text."""
    cn = node.__class__.__name__
    cap = getattr(node, "caption", "")
    if cn == "Text" or cn == "Control":
        return cap.split() if isinstance(cap, str) else []
    if cn in ("Math", "URL"):
        return cap.split() if isinstance(cap, str) else []
    if cn in LINK_TEXT and not node.children:
        t = getattr(node, "target", None)
        return t.split() if isinstance(t, str) else []
    if cn == "NamedURL" and not node.children:
        return cap.split() if isinstance(cap, str) else []
    return []


class Snap:
    """cells: list of (id, cls, par, [kids], [word ids]); ids are 1.. in order of first discovery
    (preorder); par 0 = None; a parent object that is not part of the discovered graph gets an id
    >= 900001 that is not a cell."""

    def __init__(self, root, worddict):
        self.cells = []
        self.cycle = False
        self.names = {}
        objs = {}
        order = []
        # iterative preorder discovery; a node is expanded once
        stack = [(root, None)]
        onpath = set()
        while stack:
            node, marker = stack.pop()
            if marker == "exit":
                onpath.discard(id(node))
                continue
            if id(node) in objs:
                if id(node) in onpath:
                    self.cycle = True
                continue
            objs[id(node)] = len(order) + 1
            order.append(node)
            onpath.add(id(node))
            stack.append((node, "exit"))
            for c in reversed(list(node.children)):
                stack.append((c, None))
        outside = {}
        for node in order:
            i = objs[id(node)]
            p = getattr(node, "parent", None)
            if p is None:
                pid = 0
            elif id(p) in objs:
                pid = objs[id(p)]
            else:
                pid = outside.setdefault(id(p), 900001 + len(outside))
            cn = node.__class__.__name__
            ws = []
            for w in visible_words(node):
                ws.append(worddict.setdefault(w, len(worddict) + 1))
            self.cells.append((i, CLS.get(cn, UNKNOWN_CLS), pid, [objs[id(c)] for c in node.children], ws))
            self.names[i] = cn
        self.root = 1

    def line(self):
        return "%d ; " % self.root + " ; ".join(
            "%d %d %d %d%s %d%s" % (i, c, p, len(ks), "".join(" %d" % k for k in ks), len(ws), "".join(" %d" % w for w in ws))
            for i, c, p, ks, ws in self.cells)


def parse_line(line):
    parts = line.split(";")
    root = int(parts[0])
    cells = []
    for s in parts[1:]:
        t = [int(x) for x in s.split()]
        if not t:
            continue
        i, c, p, nk = t[:4]
        ks = t[4:4 + nk]
        nw = t[4 + nk]
        ws = t[5 + nk:5 + nk + nw]
        cells.append((i, c, p, ks, ws))
    return root, cells


# ------------------------------------------------------------------ untrusted Python reading
def py_wf(root, cells):
    """None if the snapshot is a proper tree, else a short reason."""
    d = {c[0]: c for c in cells}
    if root not in d:
        return "root missing"
    if d[root][2] != 0:
        return "root has a parent"
    seen = {root}
    stack = [root]
    while stack:
        n = stack.pop()
        _i, c, _p, ks, _ws = d[n]
        if c == 1 and ks:
            return "text node %d has children" % n
        for k in ks:
            if k not in d:
                return "child %d missing" % k
            if k in seen:
                return "node %d (%s) listed twice" % (k, d[k][1])
            seen.add(k)
            if d[k][2] != n:
                return "parent link of %d is %d, listed by %d" % (k, d[k][2], n)
            stack.append(k)
    return None


def edge_ok(pc, cc):
    return ((pc != 2 or cc in (3, 5)) and (pc != 3 or cc == 4) and (pc != 6 or cc == 7)
            and (cc != 4 or pc == 3) and (cc != 3 or pc == 2) and (cc != 7 or pc == 6))


def py_contract(root, cells):
    d = {c[0]: c for c in cells}
    if d[root][1] in (3, 4, 7):
        return "root class"
    for i, c, _p, ks, _ws in cells:
        for k in ks:
            if not edge_ok(c, d[k][1]):
                return "edge %d(cls %d) -> %d(cls %d)" % (i, c, k, d[k][1])
    return None


def py_cwords(root, cells):
    """[(word, sec, depth, ref, tbl)] in preorder; assumes a proper tree."""
    d = {c[0]: c for c in cells}
    out = []
    stack = [(root, (0, 0, 0, 0))]
    while stack:
        n, (sec, dep, ref, tbl) = stack.pop()
        _i, c, _p, ks, ws = d[n]
        if c == 8:
            sec = n
        if c == 7:
            dep += 1
        if c == 9:
            ref = n
        if c == 2:
            tbl = n
        for w in ws:
            out.append((w, sec, dep, ref, tbl))
        for k in reversed(ks):
            stack.append((k, (sec, dep, ref, tbl)))
    return out


def py_columns(root, cells):
    """[(outermost table, column)] aligned with py_cwords: for a word inside a table the id of its OUTERMOST table and the
    index of the cell (within its row of that table) that holds it; (0, 0) outside tables, column -1 for captions."""
    d = {c[0]: c for c in cells}
    out = []
    stack = [(root, 0, -1)]
    while stack:
        n, otbl, col = stack.pop()
        _i, c, _p, ks, ws = d[n]
        if c == 2 and otbl == 0:
            otbl = n
        for _w in ws:
            out.append((otbl, col if otbl else 0))
        split = (c == 3 and otbl != 0 and d[n][2] == otbl)
        for j in range(len(ks) - 1, -1, -1):
            stack.append((ks[j], otbl, j if split else col))
    return out


def column_major(seq, cols):
    """within every maximal run of words of one outermost table: stable sort by column (reading order of a table is
    compared column-wise: splitting a row that is taller than a page continues each cell below itself)"""
    res = []
    i = 0
    while i < len(seq):
        t = cols[i][0]
        j = i
        while j < len(seq) and cols[j][0] == t:
            j += 1
        if t == 0:
            res.extend(seq[i:j])
        else:
            res.extend(x for _k, x in sorted(zip(range(i, j), seq[i:j]), key=lambda kx: (cols[kx[0]][1], kx[0])))
        i = j
    return res


def py_tables(root, cells):
    d = {c[0]: c for c in cells}
    res = {}
    for i, c, _p, ks, _ws in cells:
        if c == 2:
            rows = [k for k in ks if d[k][1] == 3]
            cols = max([len([x for x in d[r][3] if d[x][1] == 4]) for r in rows] or [0])
            res[i] = (len(rows), cols)
    return res


# ------------------------------------------------------------------ the C07 oracle (on cwords of model or python)
def labelled(cw):
    """[(word, section label, item depth, reference label)]: a section / reference is labelled by the
    first word (in reading order) it encloses."""
    secl, refl = {}, {}
    for w, sec, _dep, ref, _tbl in cw:
        if sec and sec not in secl:
            secl[sec] = w
        if ref and ref not in refl:
            refl[ref] = w
    return [(w, secl.get(sec, 0), dep, refl.get(ref, 0)) for w, sec, dep, ref, _tbl in cw]


def c07_compare(cw_before, tabs_before, cw_after, cols_before=None, cols_after=None):
    """None if cleaning was lossless in the sense of C07, else (kind, detail).
    Reading order is compared on the body text (words outside references) and inside every reference
    separately: a reference's text is a footnote, its position in the reading order is that of the note.
    With cols_* (py_columns of the two snapshots) the words of a table are read column by column on both sides
    (a row split by split_big_table_cells continues every cell in the row below, in the same column)."""
    a = labelled(cw_before)
    b = labelled(cw_after)
    if cols_before is not None and cols_after is not None and len(cols_before) == len(a) and len(cols_after) == len(b):
        if [x[0] for x in a if not x[3]] != [x[0] for x in b if not x[3]]:
            a = column_major(a, cols_before)
            b = column_major(b, cols_after)
    wa = [x[0] for x in a]
    wb = [x[0] for x in b]
    if sorted(wa) != sorted(wb):
        from collections import Counter
        ca, cb = Counter(wa), Counter(wb)
        lost = sorted((ca - cb).elements())
        added = sorted((cb - ca).elements())
        if lost:
            return ("word-lost", "words lost: %r" % lost[:8])
        return ("word-duplicated", "words added/duplicated: %r" % added[:8])
    body_a = [x for x in a if not x[3]]
    body_b = [x for x in b if not x[3]]
    if [x[0] for x in body_a] != [x[0] for x in body_b]:
        if sorted(x[0] for x in body_a) != sorted(x[0] for x in body_b):
            return ("reference", "words moved between body text and a reference")
        return ("order", "visible words of the body text reordered")
    for x, y in zip(body_a, body_b):
        if x[1] != y[1]:
            return ("section", "word %d: section label %d -> %d" % (x[0], x[1], y[1]))
        if x[2] != y[2]:
            return ("list-depth", "word %d: item depth %d -> %d" % (x[0], x[2], y[2]))
    refs_a, refs_b = {}, {}
    for x in a:
        if x[3]:
            refs_a.setdefault(x[3], []).append(x[0])
    for x in b:
        if x[3]:
            refs_b.setdefault(x[3], []).append(x[0])
    def by_ref_node(cw):      # the word sequences of the Reference nodes, as a multiset (independent of the labelling)
        g = {}
        for w, _s, _d, ref, _t in cw:
            if ref:
                g.setdefault(ref, []).append(w)
        return sorted(tuple(v) for v in g.values())

    # two footnotes may begin with the same word (a link repeated verbatim): the first-word label then names both; what has
    # to be kept is the multiset of footnote texts (equivalent to the labelled comparison when the labels are unique)
    if refs_a != refs_b and by_ref_node(cw_before) != by_ref_node(cw_after):
        return ("reference", "the words of a reference changed: %r -> %r" % (sorted(refs_a.items())[:3], sorted(refs_b.items())[:3]))
    big = {t for t, (r, c) in tabs_before.items() if r >= 2 and c >= 2}
    # per word: every occurrence that was in such a table must still be in some table (a word may occur several times -
    # a link repeated verbatim inside and outside a table -, so occurrences are counted; for unique words this is
    # "the word is in no table afterwards")
    in_tbl_after, in_big_before = {}, {}
    for w, _s, _d, _r, ta in cw_after:
        if ta != 0:
            in_tbl_after[w] = in_tbl_after.get(w, 0) + 1
    for w, _s, _d, _r, tb in cw_before:
        if tb in big:
            in_big_before[w] = in_big_before.get(w, 0) + 1
    for w, _s, _d, _r, tb in cw_before:
        if tb in big and in_tbl_after.get(w, 0) < in_big_before[w]:
            return ("table-dissolved", "word %d was in a table with >=2 rows and >=2 columns and is in no table afterwards" % w)
    return None


def digest(root, cells, cycle=False):
    """[wf, contract, crc of cwords, crc of table dims] according to the Python reading (for the cross-check)"""
    import zlib
    if cycle or py_wf(root, cells) is not None:
        return [0, 0, 0, 0]
    cw = py_cwords(root, cells)
    tb = sorted(py_tables(root, cells).items())
    return [1, 1 if py_contract(root, cells) is None else 0, zlib.crc32(repr([tuple(x) for x in cw]).encode()),
            zlib.crc32(repr([(k, tuple(v)) for k, v in tb]).encode())]


def digest_model(wf, contract, cw, tabs):
    import zlib
    if not wf:
        return [0, 0, 0, 0]
    return [1, 1 if contract else 0, zlib.crc32(repr([tuple(x) for x in cw]).encode()),
            zlib.crc32(repr([(k, tuple(v)) for k, v in sorted(tabs.items())]).encode())]
